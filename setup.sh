#!/bin/sh
# Offline setup: third-party helpers for the harness go into git-ignored /verif/.deps
set -e
cd "$(dirname "$0")"
if [ ! -f .deps/icontract/__init__.py ] || [ ! -f .deps/mpmath/__init__.py ]; then
  rm -rf .deps
  PIP_NO_INDEX=1 /venv/bin/pip install -q --no-index --find-links /opt/veriftools/wheels \
      --target .deps icontract mpmath asttokens six typing_extensions >/dev/null 2>&1 || \
  PIP_NO_INDEX=1 /venv/bin/pip install -q --no-index --find-links /opt/veriftools/wheels \
      --target .deps icontract mpmath
fi
/venv/bin/python -c "import sys; sys.path.insert(0,'.deps'); import icontract, mpmath; print('deps ok')"
