"""Runtime contracts applied to repository classes from the harness with icontract (DESIGN §3.5).

``icontract.invariant`` patches the class in place, so instances created anywhere in the code under
test are covered. Conditions *record* a violation on the current Obs and return True (a raising
contract would abort what it observes). Evaluation counts go into the evidence; zero evaluations of
a contract a check relies on makes that check inconclusive.
"""
import contextlib

from stv import envshim  # noqa: F401

_cur = {"obs": None}
_installed = set()


def _obs():
    return _cur["obs"]


# ------------------------------------------------------------------------------------ Rung
def _rung_ok(self):
    o = _obs()
    if o is None or not hasattr(self, "data") or not hasattr(self, "_trial_ids"):
        return True
    o.count("contract:Rung")
    vals = [e.metric_val for e in self.data]
    sign = 1 if self._is_min else -1
    for a, b in zip(vals, vals[1:]):
        if sign * a > sign * b:
            o.violate("rung_structure", "Rung.data_not_sorted_best_first", {"values": vals[:30], "min": self._is_min})
            break
    ids = [e.trial_id for e in self.data]
    if len(set(ids)) != len(ids):
        o.violate("rung_structure", "Rung.trial_entered_twice", {"ids": ids[:40]})
    if set(ids) != set(self._trial_ids):
        o.violate("rung_structure", "Rung.trial_id_index_out_of_sync", {"ids": ids[:40], "index": sorted(self._trial_ids)[:40]})
    return True


def _quantile_matches_numpy(self, result):
    """Postcondition of the anchored mechanism Rung.quantile: equals numpy.quantile(method=linear)
    of the recorded values with q (min) or 1-q (max); None iff fewer than two entries."""
    import numpy as np

    o = _obs()
    if o is None:
        return True
    o.count("contract:Rung.quantile")
    vals = [e.metric_val for e in self.data]
    if len(vals) < 2:
        if result is not None:
            o.violate("quantile_value", "Rung.quantile_not_None_for_n<2", {"n": len(vals), "got": result})
        return True
    q = self.prom_quant if self._is_min else 1 - self.prom_quant
    ref = float(np.quantile(np.array(vals, dtype=float), q))
    scale = max(abs(ref), max(abs(v) for v in vals), 1e-300)
    if result is None or not abs(result - ref) <= 64 * np.finfo(float).eps * scale:
        o.violate("quantile_value", "Rung.quantile_differs_from_numpy_quantile",
                  {"values": vals[:40], "q": q, "got": result, "numpy": ref})
    return True


def install_rung():
    if "rung" in _installed:
        return
    import icontract
    from syne_tune.optimizer.schedulers import hyperband_stopping as hs

    hs.Rung.quantile = icontract.ensure(_quantile_matches_numpy)(hs.Rung.quantile)
    icontract.invariant(_rung_ok)(hs.Rung)
    _installed.add("rung")


@contextlib.contextmanager
def rung_contract(o):
    install_rung()
    prev = _cur["obs"]
    _cur["obs"] = o
    try:
        yield
    finally:
        _cur["obs"] = prev


@contextlib.contextmanager
def observing(o):
    prev = _cur["obs"]
    _cur["obs"] = o
    try:
        yield
    finally:
        _cur["obs"] = prev
