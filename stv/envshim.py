"""Import shims for this sandbox (DESIGN §2.2). Import this module before ``syne_tune``.

* yahpo_gym / ConfigSpace are made to raise ImportError (the installed ConfigSpace binary
  raises ValueError at import, which the repository does not catch).
* numpy.NaN alias (only!) so that syne_tune.experiments can be imported. numpy.NAN is
  deliberately NOT provided.
* /repo is put first on sys.path, /verif/.deps last; logging silenced; SYNETUNE_FOLDER
  points at a per-process scratch directory that is removed at exit.
"""
import atexit
import logging
import os
import shutil
import sys
import tempfile
import warnings

REPO = os.environ.get("STV_REPO", "/repo")
VERIF = os.path.dirname(os.path.dirname(os.path.abspath(__file__)))

if REPO not in sys.path:
    sys.path.insert(0, REPO)
_deps = os.path.join(VERIF, ".deps")
if _deps not in sys.path:
    sys.path.append(_deps)

sys.modules.setdefault("yahpo_gym", None)
sys.modules.setdefault("ConfigSpace", None)

import numpy  # noqa: E402

if not hasattr(numpy, "NaN"):
    numpy.NaN = numpy.nan

warnings.filterwarnings("ignore")
logging.disable(logging.CRITICAL)

_scratch = None


def scratch_dir() -> str:
    """Per-process scratch directory (SYNETUNE_FOLDER), removed at exit."""
    global _scratch
    if _scratch is None:
        base = "/dev/shm" if os.path.isdir("/dev/shm") and os.access("/dev/shm", os.W_OK) else None
        _scratch = tempfile.mkdtemp(prefix="stv_", dir=base)
        os.environ["SYNETUNE_FOLDER"] = _scratch
        atexit.register(shutil.rmtree, _scratch, True)
    return _scratch


scratch_dir()


def repo_is_ours() -> bool:
    import syne_tune

    return os.path.abspath(syne_tune.__file__).startswith(os.path.abspath(REPO) + os.sep)
