"""Seeded generators shared by the scheduler-level properties: config spaces, learning-curve
tables, Hyperband parameterisations, scheduler construction from a JSON spec."""
import math
import random

from stv import envshim  # noqa: F401


def small_space(rng, with_const=True, finite=False, ensure_infinite=False, ordinal_kinds=("equal", "nn")):
    """A small mixed config space (JSON description -> built by build_space)."""
    kinds = ["uniform", "loguniform", "randint", "choice", "finrange", "lograndint", "ordinal"]
    if finite:
        kinds = ["randint", "choice", "finrange", "ordinal"]
    n = rng.randint(2, 4)
    desc = {}
    for i in range(n):
        k = rng.choice(kinds)
        name = f"h{i}"
        if k == "uniform":
            lo = rng.choice([0.0, -1.0, 0.5])
            desc[name] = ["uniform", lo, lo + rng.choice([1.0, 2.5, 10.0])]
        elif k == "loguniform":
            desc[name] = ["loguniform", rng.choice([1e-5, 1e-3, 0.1]), rng.choice([1.0, 10.0])]
        elif k == "randint":
            lo = rng.randint(0, 5)
            desc[name] = ["randint", lo, lo + (rng.randint(1, 3) if finite else rng.randint(1, 50))]
        elif k == "lograndint":
            desc[name] = ["lograndint", rng.randint(1, 4), rng.randint(8, 300)]
        elif k == "choice":
            m = rng.randint(2, 4)
            desc[name] = ["choice", [f"c{j}" for j in range(m)]]
        elif k == "ordinal":
            m = rng.randint(2, 4)
            desc[name] = ["ordinal", sorted(rng.sample(range(1, 40), m)), rng.choice(list(ordinal_kinds))]
        elif k == "finrange":
            desc[name] = ["finrange", 0.0, 1.0, rng.randint(2, 4)]
    if ensure_infinite and space_size(desc) is not None:
        desc["h0"] = ["uniform", 0.0, 1.0]
    if with_const and rng.random() < 0.6:
        desc["const_s"] = ["const", "abc"]
    if with_const and rng.random() < 0.4:
        desc["const_i"] = ["const", 7]
    return desc


def build_space(desc):
    from syne_tune import config_space as cs

    out = {}
    for name, d in desc.items():
        k = d[0]
        if k == "const":
            out[name] = d[1]
        elif k == "uniform":
            out[name] = cs.uniform(d[1], d[2])
        elif k == "loguniform":
            out[name] = cs.loguniform(d[1], d[2])
        elif k == "randint":
            out[name] = cs.randint(d[1], d[2])
        elif k == "lograndint":
            out[name] = cs.lograndint(d[1], d[2])
        elif k == "choice":
            out[name] = cs.choice(list(d[1]))
        elif k == "ordinal":
            out[name] = cs.ordinal(list(d[1]), kind=d[2])
        elif k == "finrange":
            out[name] = cs.finrange(d[1], d[2], d[3])
        elif k == "logfinrange":
            out[name] = cs.logfinrange(d[1], d[2], d[3])
        else:
            raise ValueError(k)
    return out


def space_size(desc):
    """Number of distinct configurations of a finite space description (None if infinite)."""
    size = 1
    for name, d in desc.items():
        k = d[0]
        if k == "const":
            continue
        if k == "randint":
            size *= d[2] - d[1] + 1
        elif k == "lograndint":
            size *= d[2] - d[1] + 1
        elif k in ("choice", "ordinal"):
            size *= len(d[1])
        elif k in ("finrange", "logfinrange"):
            size *= d[3]
        else:
            return None
    return size


# ---------------------------------------------------------------------------------------------
# learning curves


class Curves:
    """Deterministic metric table indexed by (trial id, level), one independently seeded row per
    trial id: values in general position (continuous, crossing), with heavy ties, or constant."""

    def __init__(self, kind, seed, max_t, sign=1.0):
        self.kind = kind
        self.max_t = max_t
        self.sign = sign
        self.seed = seed
        self.rows = {}

    def row(self, trial_id):
        r = self.rows.get(trial_id)
        if r is not None:
            return r
        rng = random.Random(self.seed * 1000003 + trial_id)
        kind, max_t = self.kind, self.max_t
        if kind == "continuous":
            base = rng.uniform(0.1, 1.0)
            slope = rng.uniform(0.0, 0.05)
            row = [base * math.exp(-slope * l) + rng.uniform(-0.05, 0.05) for l in range(1, max_t + 1)]
        elif kind == "ties":
            row = [float(rng.randint(0, 3)) for _ in range(max_t)]
        elif kind == "const":
            c = float(rng.randint(0, 1))
            row = [c for _ in range(max_t)]
        elif kind == "crossing":
            a, b = rng.uniform(0, 1), rng.uniform(-0.1, 0.1)
            row = [a + b * l + 0.01 * rng.random() for l in range(1, max_t + 1)]
        else:
            raise ValueError(kind)
        self.rows[trial_id] = row
        return row

    def __call__(self, trial_id, level, config=None):
        return self.sign * self.row(trial_id)[level - 1]


# ---------------------------------------------------------------------------------------------
# Hyperband parameterisations


def hyperband_params(rng, types, allow_brackets=True):
    """Random legal Hyperband arguments (JSON)."""
    p = {"type": rng.choice(types), "mode": rng.choice(["min", "max"])}
    style = rng.choice(["rf", "rf", "inc", "list"])
    if style == "rf":
        p["grace_period"] = rng.randint(1, 4)
        p["reduction_factor"] = rng.choice([2, 3, 4, 2.5])
        p["max_t"] = rng.choice([4, 8, 9, 16, 27, 30, 50, 81])
        if p["max_t"] <= p["grace_period"]:
            p["max_t"] = p["grace_period"] + rng.randint(1, 10)
    elif style == "inc":
        p["grace_period"] = rng.randint(1, 4)
        p["rung_increment"] = rng.randint(1, 5)
        p["max_t"] = p["grace_period"] + rng.randint(1, 20)
    else:
        max_t = rng.randint(4, 40)
        k = rng.randint(2, min(5, max_t))
        lv = sorted(rng.sample(range(1, max_t + 1), k))
        p["rung_levels"] = lv
        p["max_t"] = max_t
    if allow_brackets:
        p["brackets"] = rng.choice([1, 1, 2, 3, 4])
        p["rung_system_per_bracket"] = rng.random() < 0.5
    else:
        p["brackets"] = 1
        p["rung_system_per_bracket"] = False
    return p


def ref_rung_levels(p):
    """Reference rung levels from the documentation: r_min*eta^k rounded, or r_min + k*nu, or the
    explicit list; all < max_t."""
    max_t = p["max_t"]
    if p.get("rung_levels") is not None:
        lv = [int(x) for x in p["rung_levels"]]
    elif p.get("reduction_factor") is not None:
        lv = []
        k = 0
        while p["grace_period"] * (p["reduction_factor"] ** k) < max_t:
            lv.append(int(round(p["grace_period"] * (p["reduction_factor"] ** k))))
            k += 1
    else:
        lv = list(range(p["grace_period"], max_t, p["rung_increment"]))
    return [x for x in lv if x < max_t]


def build_hyperband(space, p, seed, **over):
    from syne_tune.optimizer.schedulers import HyperbandScheduler

    kw = dict(
        searcher=p.get("searcher", "random"),
        metric=p.get("metric", "loss"),
        mode=p["mode"],
        resource_attr=p.get("resource_attr", "epoch"),
        type=p["type"],
        brackets=p.get("brackets", 1),
        rung_system_per_bracket=p.get("rung_system_per_bracket", False),
        random_seed=seed,
    )
    if p.get("max_resource_attr"):
        kw["max_resource_attr"] = p["max_resource_attr"]
    else:
        kw["max_t"] = p["max_t"]
    for k in ("grace_period", "reduction_factor", "rung_increment", "rung_levels", "cost_attr",
              "rung_system_kwargs", "searcher_data", "register_pending_myopic", "points_to_evaluate",
              "search_options", "early_checkpoint_removal_kwargs"):
        if p.get(k) is not None:
            kw[k] = p[k]
    kw.update(over)
    return HyperbandScheduler(space, **kw)
