"""Per-case observation record: counters, violations, inconclusive reasons, signature."""
import hashlib
import json
import math


def jsonable(x, depth=0):
    """Best-effort conversion of witnesses to JSON-able values (numpy scalars, NaN...)."""
    import numpy as np

    if depth > 6:
        return repr(x)[:200]
    if x is None or isinstance(x, (bool, str)):
        return x
    if isinstance(x, (int,)):
        return x
    if isinstance(x, float):
        if math.isnan(x):
            return "NaN"
        if math.isinf(x):
            return "inf" if x > 0 else "-inf"
        return x
    if isinstance(x, np.generic):
        return jsonable(x.item(), depth + 1)
    if isinstance(x, np.ndarray):
        return jsonable(x.tolist(), depth + 1)
    if isinstance(x, dict):
        return {str(k): jsonable(v, depth + 1) for k, v in list(x.items())[:200]}
    if isinstance(x, (list, tuple, set, frozenset)):
        return [jsonable(v, depth + 1) for v in list(x)[:200]]
    return repr(x)[:300]


def digest(obj) -> str:
    return hashlib.sha1(
        json.dumps(jsonable(obj), sort_keys=True, default=repr).encode()
    ).hexdigest()[:16]


class Obs:
    """What one execution observed. Monitors call count/violate/inconclusive."""

    def __init__(self):
        self.counters = {}
        self.violations = []
        self.inconc = []
        self.sig = None
        self.nontrivial = False
        self.sample = None
        self.log = []  # event-log tail for witnesses

    def count(self, name, n=1):
        self.counters[name] = self.counters.get(name, 0) + n

    def violate(self, clause, mechanism, detail=None):
        """clause: which clause of the property; mechanism: a stable key describing *how* it
        failed (a predicate over the witness, never a random value)."""
        if len(self.violations) < 20:
            self.violations.append(
                {"clause": clause, "mechanism": mechanism, "detail": jsonable(detail)}
            )
        self.count("violations_raised")

    def inconclusive(self, reason):
        self.count("inconclusive:" + reason)
        if len(self.inconc) < 10:
            self.inconc.append(reason)

    def ev(self, *rec):
        self.log.append(rec)
        if len(self.log) > 400:
            del self.log[:100]

    def set_sig(self, obj, nontrivial):
        self.sig = digest(obj)
        self.nontrivial = bool(nontrivial)

    def result(self):
        return {
            "violations": self.violations,
            "counters": self.counters,
            "inconclusive": self.inconc,
            "sig": self.sig,
            "nontrivial": self.nontrivial,
            "sample": jsonable(self.sample),
            "log_tail": jsonable(self.log[-60:]) if self.violations else None,
        }
