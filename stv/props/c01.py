"""C01 — worker budget and legal trial life cycle in every tuning run.

Real ``Tuner.run`` executions (simulator backend over generated tables with scripted 'outside' time,
and the scripted-process LocalBackend) are recorded at the public scheduler / backend / callback
boundaries (stv/simrun.py Recorder). An offline automaton over the event log decides:
  1. occupancy <= n_workers at every event (+ busy-list arithmetic with start_jobs_without_delay=False);
  2. trial ids issued once and in sequence; suggest() is asked with the next free id;
  3. per-trial life cycle new -> running -> {paused, stopped, completed, failed}; only a paused trial is
     resumed; results are delivered only while running;
  4. notification conservation: one on_trial_add per start (before any result), scheduler and callback see
     the same (trial, result, decision) sequence, exactly one end notification per run that ends before
     tuning stops, after all results of that run.
"""
import random

from stv import envshim  # noqa: F401
from stv import gen, simrun
from stv.obs import Obs

ID = "C01"
LEVEL = "exploration"
RULE = (
    "case = one real Tuner.run: scheduler kind (14 kinds) x backend (simulator over a generated table | scripted-process "
    "LocalBackend) x n_workers 1-8 x simulator delays {0,1e-6,0.05,1,4} x sleep time x scripted outside time x "
    "start_jobs_without_delay / asynchronous_scheduling / wait_trial_completion flags x stop criterion x injected "
    "failures (~20%). Distinct = digest of the sequence of (backend/scheduler call kind, trial id); non-trivial = at "
    "least one trial ended (stop / pause / completion / failure) before tuning stopped."
)
ASSUMPTIONS = [
    "a worker is occupied from the return of start_trial/resume_trial until the earliest of: return of pause_trial/"
    "stop_trial for the trial, or a poll returning completed/failed/stopped for it",
    "runs still open when tuning stops get no end notification (the statement only covers ends before tuning stops)",
    "SageMaker / Python backends are not exercised",
    "PBT is run on the scripted-process backend only (the simulator backend writes no checkpoints to warm-start from)",
]
CASE_TIMEOUT = 40
STEP_BUDGET_RERUN = None

KINDS = simrun.SCHED_KINDS


def preload():
    import syne_tune  # noqa: F401
    import syne_tune.optimizer.schedulers.synchronous  # noqa: F401
    import syne_tune.optimizer.schedulers.multiobjective  # noqa: F401
    import syne_tune.blackbox_repository.simulated_tabular_backend  # noqa: F401
    import syne_tune.backend.simulator_backend.simulator_callback  # noqa: F401
    import pandas  # noqa: F401


def cases(tier, seed):
    n = 960 if tier == "quick" else 16000
    out = []
    for i in range(n):
        kind = KINDS[i % len(KINDS)]
        # PBT warm-starts trials from checkpoints, which the simulator backend does not write
        # (LocalBackend.copy_checkpoint on a missing directory): PBT runs on the scripted-process backend
        backend = "proc" if (i // len(KINDS)) % 4 == 3 or kind == "pbt" else "sim"
        out.append({"seed": seed * 2750159 + i * 7 + 1, "kind": kind, "backend": backend})
    return out


def floors(tier):
    k = 1 if tier == "quick" else 20
    f = {"runs": 400 * k, "decided:occupancy_events": 50000 * k, "decided:end_notifications": 3000 * k,
         "decided:result_deliveries": 8000 * k, "decided:status_of_running_trial": 50000 * k, "runs:sjwd_false": 20 * k, "runs:with_failure": 40 * k,
         "runs:proc_backend": 80 * k, "runs:with_external_stop": 15 * k, "external_stops_notified": 15 * k,
         "decided:job_end_reported": 300 * k}
    for kd in KINDS:
        f[f"kind:{kd}:runs"] = 20 * k
        if kd.startswith("fifo") or kd == "median":
            f[f"kind:{kd}:completion"] = 1  # the multi-fidelity kinds answer STOP at the last level instead
        if simrun.pause_capable(kd):
            f[f"kind:{kd}:pause_then_resume"] = 1
        if simrun.stops(kd) or kd.startswith("hb_") or kd == "sync_hb":
            f[f"kind:{kd}:stop" if simrun.stops(kd) or not simrun.pause_capable(kd) else f"kind:{kd}:pause_then_resume"] = 1
    return f


def expand(spec):
    rng = random.Random(spec["seed"])
    kind = spec["kind"]
    if spec["backend"] == "sim":
        p = simrun.sim_params(rng, kind=kind)
        lv = p["n_fid"]
        style = rng.choice(["started", "wallclock", "completed", "evaluations"])
        if style == "started":
            p["stop"] = {"max_num_trials_started": rng.randint(3, 25)}
        elif style == "wallclock":
            p["stop"] = {"max_wallclock_time": rng.uniform(2.0, 25.0) * lv}
        elif style == "completed":
            p["stop"] = {"max_num_trials_completed": rng.randint(1, 6), "max_wallclock_time": 60.0 * lv}
        else:
            p["stop"] = {"max_num_evaluations": rng.randint(5, 120)}
        if rng.random() < 0.2 and kind != "dehb":  # DEHB after a failure: known finding C05-K3
            p["fail"] = {f"{rng.randint(0, 10)}:{rng.choice([0, 0, 1])}": rng.randint(0, 3) for _ in range(rng.randint(1, 3))}
    else:
        max_t = rng.choice([3, 4, 8, 9, 12])
        if kind in ("sync_hb", "dehb", "hb_pasha") and max_t < 4:
            max_t = 4
        p = {"kind": kind, "mode": rng.choice(["min", "max"]), "n_workers": rng.randint(1, 6), "max_t": max_t,
             "use_mra": rng.random() < 0.5, "checkpointing": rng.random() < 0.6, "delete_checkpoints": rng.random() < 0.5,
             "plan": {"burst": rng.choice([1, 2, 3, 5]), "late_max": rng.randint(0, 2), "exit_lag_max": rng.randint(0, 2)},
             "stop": {"max_num_trials_started": rng.randint(3, 20)} if rng.random() < 0.5 else {"max_num_evaluations": rng.randint(5, 100)},
             "sjwd": rng.random() < 0.8, "async": rng.random() < 0.85, "wait": rng.random() < 0.3,
             "space": gen.small_space(rng, ensure_infinite=True, ordinal_kinds=("equal",)), "curves": rng.choice(["continuous", "ties"])}
        if kind == "moasha":
            p["curves"] = "continuous"
        if simrun.pause_capable(kind) and not p["use_mra"]:
            p["plan"]["burst"] = 1  # see c02.py: workers must not run ahead of the level they are paused at
        if kind == "pbt":
            p["delete_checkpoints"] = False  # PBT + checkpoint deletion is C20's subject (warm start from a deleted checkpoint)
        if rng.random() < 0.2 and kind != "dehb":
            # trials stopped from outside the scheduler (the tuner must report them with on_trial_error),
            # also in a run that follows a pause and resume
            p["plan"]["ext_stop"] = {f"{rng.randint(0, 10)}:{rng.choice([0, 0, 1, 1])}": rng.randint(0, 3) for _ in range(rng.randint(1, 3))}
        if rng.random() < 0.25:
            # training scripts that end by themselves before the last level (also in the run after a resume)
            p["plan"]["short"] = {f"{rng.randint(0, 12)}:{rng.choice([0, 0, 1])}": rng.randint(1, max_t) for _ in range(rng.randint(1, 4))}
        if rng.random() < 0.2 and kind != "dehb":
            p["plan"]["fail"] = {f"{rng.randint(0, 10)}:{rng.choice([0, 0, 1])}": rng.randint(0, 3) for _ in range(rng.randint(1, 3))}
    if kind == "moasha":
        # MOASHA's non-dominated sort is cubic in the number of trials recorded at a rung: keep runs small
        p["stop"]["max_num_trials_started"] = min(p["stop"].get("max_num_trials_started", 25), 25)
    p.update({k: v for k, v in spec.items() if k not in ("seed", "kind", "backend") and not k.startswith("_")})
    return p


def _same_result(a, b):
    if a is b:
        return True
    if a.keys() != b.keys():
        return False
    for k in a:
        x, y = a[k], b[k]
        if x != y and not (x != x and y != y):
            return False
    return True


def check_trace(o, events, n_workers, sjwd, kind, exc=None, busy_probe=None, failure_must_be_notified=False):
    """The offline automaton. Returns the signature list."""
    state, runs, added, n_results_in_run = {}, {}, set(), {}
    occupied = set()
    n_started = 0
    expect_add = None
    last_deliv = {}        # trial -> last delivered result
    pending_end = {}       # trial -> decision awaiting on_trial_remove
    last_sched_result = None
    batch_status = {}      # statuses of the current poll
    batch_decided = set()  # trials with STOP/PAUSE in this batch
    ended = {}             # trial -> number of end notifications in this batch
    fetched = {}           # trial -> list of results fetched in this batch not yet matched
    tuning_ended = False
    busy_base = None
    starts_since_busy = 0
    sig = []
    had_pause = set()
    job_ended = {}         # trial -> [status, polls since the job of its current run ended by itself]
    errored = set()        # trials with on_trial_error in the current batch

    stop = [False]

    def V(clause, mech, **d):
        # the first violation of a run is the witness; later ones are usually its consequences
        if not stop[0]:
            i = cur[0] or 0
            win = []
            for e in events[max(0, i - 30): i + 2]:
                pl_ = e[2]
                if e[1] == "b.fetch_status_results.ret":
                    c = {"status": pl_["ret"]["status"], "results": [(t, x.get("epoch")) for t, x in pl_["ret"]["results"]]}
                else:
                    c = {k_: v_ for k_, v_ in pl_.items() if k_ in ("trial_id", "ret", "decision", "status", "exc") and not isinstance(v_, dict)}
                win.append([e[0], e[1], c])
            o.violate(clause, f"{mech}", dict(d, kind=kind, at_event=i, window=win))
        stop[0] = True

    cur = [None]

    def end_of_batch():
        for tid, st in batch_status.items():
            if st in ("completed", "failed") and state.get(tid) in ("running",):
                V("end_notification", f"no_end_notification_for_{st}_trial", trial=tid)
            if st == "stopped" and state.get(tid) == "running" and tid not in batch_decided:
                V("end_notification", "no_end_notification_for_externally_stopped_trial", trial=tid)
        if failure_must_be_notified:
            # C13: 'the scheduler is notified once per failure' -- also when a STOP / PAUSE decision for the same run was taken
            # in this poll (then on_trial_remove alone does not tell it that the job failed)
            for tid, st in batch_status.items():
                if st == "failed":
                    o.count("decided:failed_status_notified")
                    if tid not in errored:
                        V("failure_notified", "failed_job_status_without_on_trial_error" + (":decision_in_same_poll" if tid in batch_decided else ""), trial=tid)
        errored.clear()
        for tid, n in ended.items():
            o.count("decided:end_notifications")
            if n > 1:
                V("end_notification", f"{n}_end_notifications_for_one_run", trial=tid,
                  decided=tid in batch_decided, status=batch_status.get(tid))
        batch_status.clear()
        batch_decided.clear()
        ended.clear()
        fetched.clear()

    for idx, k, pl in events:
        cur[0] = idx
        if stop[0]:
            break
        if k == "c.tuning_end":
            if exc is None:
                end_of_batch()
            tuning_ended = True
        if tuning_ended:
            continue
        if k == "s.suggest.call":
            if pl["trial_id"] != n_started:
                V("ids_in_sequence", "suggest_called_with_wrong_next_id", got=pl["trial_id"], expected=n_started)
        elif k == "b.start_trial.ret":
            tid = pl["ret"]["trial_id"]
            if tid != n_started:
                V("ids_in_sequence", "start_trial_returned_wrong_id", got=tid, expected=n_started)
            if tid in state:
                V("ids_once", "trial_id_issued_twice", trial=tid)
            n_started += 1
            state[tid] = "running"
            runs[tid] = 0
            n_results_in_run[tid] = 0
            occupied.add(tid)
            expect_add = tid
            starts_since_busy += 1
            sig.append(("S", tid))
        elif k == "s.on_trial_add.call":
            tid = pl["trial_id"]
            if expect_add != tid or tid in added:
                V("notified_of_start_once", "on_trial_add_unexpected_or_repeated", trial=tid, expected=expect_add)
            added.add(tid)
            expect_add = None
        elif k == "b.resume_trial.call":
            tid = pl["trial_id"]
            if state.get(tid) != "paused":
                V("only_paused_resumed", f"resume_of_trial_in_state_{state.get(tid)}", trial=tid)
        elif k == "b.resume_trial.ret":
            tid = pl["trial_id"]
            state[tid] = "running"
            batch_status.pop(tid, None)  # a new run of the trial begins; the polled status belonged to the old one
            job_ended.pop(tid, None)
            runs[tid] = runs.get(tid, 0) + 1
            n_results_in_run[tid] = 0
            occupied.add(tid)
            starts_since_busy += 1
            sig.append(("R", tid))
            if tid in had_pause:
                o.count(f"kind:{kind}:pause_then_resume")
        elif k == "b.fetch_status_results.call":
            end_of_batch()
        elif k == "w.job_end":
            if state.get(pl["trial"]) == "running":
                job_ended[pl["trial"]] = [pl["status"], 0]
        elif k == "b.fetch_status_results.ret":
            for tid, st in pl["ret"]["status"].items():
                st = st.lower()
                batch_status[tid] = st
                if st in ("completed", "failed", "stopped"):
                    occupied.discard(tid)
                if st == "paused" and state.get(tid) == "running":
                    # the trial was started / resumed and no decision or end has been seen since: its job occupies a worker
                    o.count("decided:status_of_running_trial")
                    V("life_cycle", "backend_reports_a_running_trial_as_paused" + (":after_resume" if runs.get(tid, 0) > 0 else ""), trial=tid)
                elif state.get(tid) == "running":
                    o.count("decided:status_of_running_trial")
            # bounded progress: a job that ended by itself is reported as ended by the second poll after
            for tid in list(job_ended):
                if state.get(tid) != "running" or batch_status.get(tid) in ("completed", "failed", "stopped"):
                    del job_ended[tid]
                    o.count("decided:job_end_reported")
                    continue
                job_ended[tid][1] += 1
                if job_ended[tid][1] >= 3:
                    V("end_notification", f"job_{job_ended[tid][0]}_but_status_never_reported" + ("" if sjwd else ":start_jobs_without_delay=False"),
                      trial=tid, polls_since=job_ended[tid][1], polled=sorted(batch_status))
            for tid, res in pl["ret"]["results"]:
                fetched.setdefault(tid, []).append(res)
        elif k == "s.on_trial_result.call":
            tid = pl["trial_id"]
            o.count("decided:result_deliveries")
            if state.get(tid) != "running":
                V("results_only_while_running", f"result_delivered_in_state_{state.get(tid)}", trial=tid)
            if tid not in added:
                V("notified_of_start_once", "result_before_on_trial_add", trial=tid)
            if tid in batch_decided:
                V("no_result_after_decision", "result_delivered_after_stop_or_pause_in_same_batch", trial=tid)
            q = fetched.get(tid) or []
            # delivered results are the fetched ones, in order
            while q and not _same_result(q[0], pl["result"]):
                q.pop(0)
                o.count("fetched_result_skipped")
                V("every_delivered_result_in_order", "fetched_result_skipped_before_delivery", trial=tid)
            if not q:
                V("every_delivered_result_in_order", "delivered_result_was_not_fetched_in_this_poll", trial=tid)
            else:
                q.pop(0)
            last_deliv[tid] = pl["result"]
            n_results_in_run[tid] = n_results_in_run.get(tid, 0) + 1
            last_sched_result = (tid, pl["result"])
        elif k == "s.on_trial_result.ret":
            tid = pl["trial_id"]
            d = pl["ret"]
            last_sched_result = last_sched_result + (d,) if last_sched_result and len(last_sched_result) == 2 else last_sched_result
            if d in ("STOP", "PAUSE"):
                pending_end[tid] = d
                batch_decided.add(tid)
            elif d != "CONTINUE":
                V("decision_kind", f"unknown_decision_{d}", trial=tid)
        elif k == "c.trial_result":
            tid = pl["trial_id"]
            if (last_sched_result is None or len(last_sched_result) != 3 or last_sched_result[0] != tid
                    or not _same_result({k2: pl["result"].get(k2) for k2 in last_sched_result[1]}, last_sched_result[1])
                    or pl["decision"] != last_sched_result[2]):
                V("scheduler_and_callback_agree", "callback_result_differs_from_scheduler_result", trial=tid)
            last_sched_result = None
        elif k == "b.pause_trial.call":
            tid = pl["trial_id"]
            if pending_end.get(tid) != "PAUSE":
                V("legal_transition", "pause_trial_without_PAUSE_decision", trial=tid)
        elif k == "b.pause_trial.ret":
            tid = pl["trial_id"]
            state[tid] = "paused"
            had_pause.add(tid)
            occupied.discard(tid)
            sig.append(("P", tid))
        elif k == "b.stop_trial.call":
            tid = pl["trial_id"]
            if pending_end.get(tid) != "STOP":
                V("legal_transition", "stop_trial_without_STOP_decision", trial=tid)
        elif k == "b.stop_trial.ret":
            tid = pl["trial_id"]
            state[tid] = "stopped"
            occupied.discard(tid)
            o.count(f"kind:{kind}:stop")
            sig.append(("X", tid))
        elif k == "s.on_trial_remove.call":
            tid = pl["trial_id"]
            d = pending_end.pop(tid, None)
            if d is None:
                V("end_notification", "on_trial_remove_without_decision", trial=tid)
            ended[tid] = ended.get(tid, 0) + 1
            if d == "STOP" and state.get(tid) == "running":
                # STOP decision on a trial whose job had already completed: no stop_trial call
                state[tid] = "stopped"
                o.count(f"kind:{kind}:stop")
                sig.append(("X", tid))
            if d == "PAUSE" and state.get(tid) == "running":
                V("legal_transition", "PAUSE_decision_without_pause_trial", trial=tid)
        elif k == "s.on_trial_complete.call":
            tid = pl["trial_id"]
            ended[tid] = ended.get(tid, 0) + 1
            if batch_status.get(tid) != "completed":
                V("end_notification", f"on_trial_complete_for_status_{batch_status.get(tid)}", trial=tid)
            if state.get(tid) != "running":
                V("legal_transition", f"completion_in_state_{state.get(tid)}", trial=tid)
            if fetched.get(tid):
                V("end_after_all_results", "completion_notified_before_all_fetched_results_delivered", trial=tid)
            ld = last_deliv.get(tid)
            # the scheduler may have annotated the dict it was handed (cost-aware Hyperband adds total_elapsed_time)
            if ld is None or not _same_result(ld, {k_: v_ for k_, v_ in pl["result"].items() if k_ in ld}):
                V("end_notification", "on_trial_complete_result_is_not_last_delivered", trial=tid)
            state[tid] = "completed"
            o.count(f"kind:{kind}:completion")
            sig.append(("C", tid))
        elif k == "s.on_trial_error.call":
            tid = pl["trial_id"]
            errored.add(tid)
            ended[tid] = ended.get(tid, 0) + 1
            if batch_status.get(tid) not in ("failed", "stopped"):
                V("end_notification", f"on_trial_error_for_status_{batch_status.get(tid)}", trial=tid)
            if state.get(tid) == "running":
                state[tid] = "failed"
            o.count("failures_notified" if batch_status.get(tid) == "failed" else "external_stops_notified")
            sig.append(("F", tid))
        elif k == "b.busy_trial_ids.ret":
            busy_base = len(pl["ret"])
            starts_since_busy = 0
        elif k == "c.loop_end":
            if pending_end:
                for tid, d in list(pending_end.items()):
                    V("end_notification", f"no_on_trial_remove_after_{d}_decision", trial=tid)
                pending_end.clear()
            if expect_add is not None:
                V("notified_of_start_once", "start_without_on_trial_add", trial=expect_add)
                expect_add = None
            if "busy_probe" in pl and pl["busy_probe"] is not None:
                o.count("decided:busy_probe")
                if pl["busy_probe"] > n_workers:
                    V("occupancy", "backend_busy_set_exceeds_n_workers", busy=pl["busy_probe"], n_workers=n_workers)
        # ---- occupancy at every event
        o.count("decided:occupancy_events")
        if len(occupied) > n_workers:
            V("occupancy", "more_than_n_workers_trials_occupy_workers" + ("" if sjwd else ":start_jobs_without_delay=False"),
              occupied=sorted(occupied), n_workers=n_workers, at=k)
        if not sjwd and busy_base is not None and k in ("b.start_trial.ret", "b.resume_trial.ret"):
            if busy_base + starts_since_busy > n_workers:
                V("occupancy", "busy_list_plus_new_starts_exceeds_n_workers", busy=busy_base, starts=starts_since_busy, n_workers=n_workers)
    return sig


def run_case(spec):
    o = Obs()
    p = expand(spec)
    kind = spec["kind"]
    o.count("runs")
    o.count(f"kind:{kind}:runs")
    if spec["backend"] == "sim":
        r = simrun.SimRun(p, spec["seed"])
        be = r.backend
        r.rec_probe = True
        orig_ev = r.rec.ev

        def ev(kind_, **payload):
            if kind_ == "c.loop_end":
                payload["busy_probe"] = len(getattr(be, "_busy_trial_ids", ())) if hasattr(be, "_busy_trial_ids") else None
            orig_ev(kind_, **payload)

        r.rec.ev = ev
        r.run()
        had_fail = bool(p.get("fail"))
    else:
        o.count("runs:proc_backend")
        extra_fn = (lambda t, l, rn: {"loss2": ((t * 31 + l * 17) % 101) / 101.0}) if kind == "moasha" else None
        r = simrun.ProcRun(p, spec["seed"], extra_fn=extra_fn)
        r.run()
        had_fail = bool((p.get("plan") or {}).get("fail"))
        if any(e[1] == "w.external_stop" for e in r.rec.events):
            o.count("runs:with_external_stop")
        r.cleanup()
    if had_fail:
        o.count("runs:with_failure")
    if not p.get("sjwd", True):
        o.count("runs:sjwd_false")
    if r.exc is not None and type(r.exc).__name__ == "LoopBoundExceeded" and spec["backend"] == "sim" and p.get("sjwd", True):
        # slow progress (small sleep time vs long epochs) is not a violation of C01; C12 owns termination
        o.inconclusive("loop_bound")
    elif r.exc is not None:
        msg = repr(r.exc)[:200]
        tag = ""
        for needle, t in (("loop iterations", ":loop_bound"), ("milestone", ":resource_beyond_milestone"), ("must not skip rung levels", ":resource_beyond_milestone"),
                          ("Cannot resume trial_id", ":resume_of_non_paused_trial"), ("no metrics got observed", ":no_metrics")):
            if needle in msg:
                tag = t
        if not p.get("sjwd", True) and spec["backend"] == "sim":
            tag += ":start_jobs_without_delay=False"
        o.violate("run_completes", f"tuner_run_raised:{type(r.exc).__name__}{tag}",
                  {"error": msg, "kind": kind, "backend": spec["backend"]})
    sig = check_trace(o, r.rec.events, p["n_workers"], p.get("sjwd", True), kind, exc=r.exc)
    for e in r.rec.events[-60:]:
        o.ev(e[0], e[1], {k: v for k, v in e[2].items() if k in ("trial_id", "ret", "t", "status", "decision")} if e[1] != "b.fetch_status_results.ret" else {"status": e[2]["ret"]["status"], "n": len(e[2]["ret"]["results"])})
    nontrivial = any(s[0] in ("P", "X", "C", "F") for s in sig)
    o.set_sig(sig, nontrivial)
    o.sample = {"kind": kind, "backend": spec["backend"], "n_workers": p["n_workers"],
                "flags": {k: p.get(k) for k in ("sjwd", "async", "wait", "use_mra", "checkpointing")},
                "stop": p["stop"], "events": len(r.rec.events), "trace": ["%s%d" % s for s in sig[:30]]}
    return o.result()
