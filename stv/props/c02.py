"""C02 — every reported result is delivered exactly once, in order, never after stop.

Emissions carry unique ids, so exactly-once / prefix / no-delivery-after-decision are linear scans:
  (a) generic file/poll backend logic: the real LocalBackend with scripted processes (stv/simrun.py
      FakeProcBackend) whose workers append real ``[tune-metric]`` lines with a ``uid`` between polls,
      at the kill that follows a STOP/PAUSE ('late' output) and in batches; schedulers: a scripted
      decision-table scheduler (stop / pause at random reports, resume later or *immediately in the
      same iteration*) and real promotion / stopping Hyperband, synchronous Hyperband, PBT, median rule;
  (b) simulator backend: results returned by ``_run_job_and_collect_results`` are tagged with a uid by a
      harness subclass; delays chosen so that result events fall into the stop window and resumes happen
      in the iteration of the pause.
Deliveries = ``scheduler.on_trial_result`` calls; the rows of the results log must be exactly those.
"""
import random

from stv import envshim  # noqa: F401
from stv import gen, simrun
from stv.obs import Obs

ID = "C02"
LEVEL = "exploration"
RULE = (
    "case = one real Tuner.run on (a) the scripted-process LocalBackend: poll plan (0..5 new reports per trial per poll, "
    "exit visible 0-2 polls after the last report, 0-2 late reports written between the last poll and the kill) x "
    "scheduler (scripted decision table | promotion / stopping Hyperband | synchronous Hyperband | PBT | median rule) x "
    "workers 1-5 x checkpointing; or (b) the simulator backend with stopping / pausing schedulers and delays from "
    "{0,1e-6,0.05,1,4}. Distinct = digest of the sequence of (trial, run, #delivered, end kind) per run; non-trivial = at "
    "least one run ended by a STOP/PAUSE decision."
)
ASSUMPTIONS = [
    "an emission is identified by the uid the harness put into the reported dictionary (scripted worker) or into the "
    "result list returned by the simulator's job runner (harness subclass of UserBlackboxBackend)",
    "a run that is still open when tuning stops may have any prefix delivered",
    "the scripted scheduler never pauses a trial at its last resource level (nothing would be left to run after a resume)",
]
CASE_TIMEOUT = 60


def preload():
    import syne_tune  # noqa: F401
    import syne_tune.optimizer.schedulers.synchronous  # noqa: F401
    import syne_tune.blackbox_repository.simulated_tabular_backend  # noqa: F401
    import syne_tune.backend.simulator_backend.simulator_callback  # noqa: F401
    import pandas  # noqa: F401


PROC_KINDS = ["scripted", "scripted", "scripted_eager", "hb_promotion", "hb_stopping", "sync_hb", "pbt", "median", "hb_pasha"]
SIM_KINDS = ["hb_promotion", "hb_stopping", "hb_pasha", "hb_cost_promotion", "sync_hb", "median", "hb_rush_promotion", "scripted", "scripted_eager"]


def cases(tier, seed):
    n_proc, n_sim = (900, 450) if tier == "quick" else (20000, 8000)
    out = []
    for i in range(n_proc):
        out.append({"seed": seed * 3121 + i * 5 + 2, "backend": "proc", "kind": PROC_KINDS[i % len(PROC_KINDS)]})
    for i in range(n_sim):
        out.append({"seed": seed * 3121 + i * 5 + 3, "backend": "sim", "kind": SIM_KINDS[i % len(SIM_KINDS)]})
    for i in range(400 if tier == "quick" else 10000):
        out.append({"seed": seed * 3121 + i * 5 + 4, "backend": "remote", "kind": "direct"})
    return out


def floors(tier):
    k = 1 if tier == "quick" else 25
    return {
        "deliveries": 10000 * k,
        "deliveries_after_resume": 300 * k,
        "runs_ended_by_decision": 1000 * k,
        "runs_completed_fully_delivered": 300 * k,
        "cases_with_late_output": 50 * k,
        "cases_with_decision_mid_batch": 50 * k,
        "cases_resume_in_same_iteration": 50 * k,
        "rows_compared": 10000 * k,
        "sim:runs": 250 * k,
        "proc:runs": 500 * k,
        "decided:self_completed_runs": 300 * k,
        "remote:runs": 300 * k,
        "remote:polls_with_status_Stopping": 250 * k,
        "remote:reports_written_while_Stopping": 500 * k,
        "remote:resumes": 100 * k,
    }


def scripted_scheduler(space, seed, eager, max_t, p_stop=0.08, p_pause=0.15):
    from syne_tune.optimizer.scheduler import SchedulerDecision, TrialScheduler, TrialSuggestion

    class Scripted(TrialScheduler):
        """Decision-table scheduler: stops / pauses at random reports; resumes paused trials later, or
        (eager) immediately in the iteration in which they were paused."""

        def __init__(self):
            super().__init__(space)
            self.rng = random.Random(seed)
            self.paused = []
            self.done = set()
            self.nprng = __import__("numpy").random.RandomState(seed)

        def _suggest(self, trial_id):
            if self.paused and (eager or self.rng.random() < 0.5):
                tid = self.paused.pop(0 if eager else self.rng.randrange(len(self.paused)))
                return TrialSuggestion.resume_suggestion(trial_id=tid)
            cfg = {k: (v.sample(random_state=self.nprng) if hasattr(v, "sample") else v) for k, v in self.config_space.items()}
            return TrialSuggestion.start_suggestion(cfg)

        def on_trial_result(self, trial, result):
            r = self.rng.random()
            if result.get("epoch") is not None and int(result["epoch"]) >= max_t:
                # nothing is left to run after the last level: a pause there could never be resumed sensibly
                return SchedulerDecision.CONTINUE if r > p_stop else self._stop(trial)
            if r < p_stop:
                self.done.add(trial.trial_id)
                return SchedulerDecision.STOP
            if r < p_stop + p_pause:
                return SchedulerDecision.PAUSE
            return SchedulerDecision.CONTINUE

        def _stop(self, trial):
            self.done.add(trial.trial_id)
            return SchedulerDecision.STOP

        def on_trial_remove(self, trial):
            if trial.trial_id not in self.done and trial.trial_id not in self.paused:
                self.paused.append(trial.trial_id)

        def on_trial_complete(self, trial, result):
            self.done.add(trial.trial_id)

        def on_trial_error(self, trial):
            self.done.add(trial.trial_id)
            if trial.trial_id in self.paused:
                self.paused.remove(trial.trial_id)

        def metric_names(self):
            return ["loss"]

        def metric_mode(self):
            return "min"

    return Scripted()


def expand(spec):
    rng = random.Random(spec["seed"])
    kind = spec["kind"]
    real_kind = "fifo_random" if kind.startswith("scripted") else kind
    if spec["backend"] == "proc":
        max_t = rng.choice([3, 4, 6, 9, 12])
        if real_kind in ("sync_hb", "hb_pasha") and max_t < 4:
            max_t = 4
        p = {"kind": real_kind, "mode": rng.choice(["min", "max"]), "n_workers": rng.randint(1, 5), "max_t": max_t,
             "use_mra": rng.random() < 0.5 and not kind.startswith("scripted"), "checkpointing": rng.random() < 0.6,
             "delete_checkpoints": False,
             "plan": {"burst": rng.choice([1, 2, 3, 5]), "late_max": rng.randint(0, 2), "exit_lag_max": rng.randint(0, 2)},
             "stop": {"max_num_evaluations": rng.randint(20, 150)},
             "sjwd": True, "async": rng.random() < 0.9, "wait": rng.random() < 0.3,
             "space": {"x": ["uniform", 0.0, 1.0], "y": ["randint", 1, 9]}, "curves": "continuous"}
        if simrun.pause_capable(real_kind) and not p["use_mra"]:
            # without max_resource_attr a worker that runs ahead of the poll and checkpoints there resumes
            # beyond the rung level it was paused at ("training script must not skip rung levels"):
            # outside C02; such workers report one level per poll
            if p["checkpointing"] or rng.random() < 0.5:
                p["plan"]["burst"] = 1
            # else: a script that does not resume from a checkpoint restarts at level 1 and cannot skip a rung level,
            # so it may run ahead of the poll: several reports per poll, a PAUSE decision in the middle of a batch
        if rng.random() < 0.4:
            p["plan"]["progress_inside_poll"] = True  # jobs write reports / exit between the backend's reads within one poll
        if rng.random() < 0.25:
            p["sjwd"] = False  # Tuner asks the backend for the busy workers; jobs make progress between poll and query
        if rng.random() < 0.3:
            # training scripts that end by themselves before the last level (also in the run after a resume)
            p["plan"]["short"] = {f"{rng.randint(0, 12)}:{rng.choice([0, 0, 1])}": rng.randint(1, max_t) for _ in range(rng.randint(1, 4))}
    else:
        p = simrun.sim_params(rng, kind=real_kind)
        p["sjwd"] = True
        lv = p["n_fid"]
        p["stop"] = rng.choice([{"max_num_evaluations": rng.randint(20, 150)},
                                {"max_wallclock_time": rng.uniform(3.0, 25.0) * lv},
                                {"max_num_trials_started": rng.randint(4, 25)}])
    p["scripted"] = kind.startswith("scripted")
    p["eager"] = kind == "scripted_eager"
    p.update({k: v for k, v in spec.items() if k not in ("seed", "kind", "backend") and not k.startswith("_")})
    return p


def check(o, events, rows, backend, sjwd=True, exc=None):
    """Offline checker over the event log."""
    self_completed = {}   # (trial, run) whose job ended by itself with exit code 0 -> [polls since, polls incl. the trial since]
    polled_in_run = {}
    emitted = {}   # (trial, run) -> [uid...] in emission order
    deliv = {}     # (trial, run) -> [uid...] in delivery order
    decided = {}   # (trial, run) -> (uid of deciding result, decision)
    completed = set()  # (trial, run) completed on its own (on_trial_complete)
    failed = set()
    cur_run = {}
    order = []     # all deliveries (uid)
    tuning_ended = False
    last_result_uid = None
    first_after_resume = {}  # trial -> awaiting first delivery of new run
    late_case = mid_batch_case = same_iter_resume = False
    paused_in_iter = set()
    batch = []  # (trial, uid) results of the current poll
    pending_delivery = None
    for idx, k, pl in events:
        if k == "w.emit":
            emitted.setdefault((pl["trial"], pl["run"]), []).append(pl["uid"])
            if pl["late"]:
                late_case = True
        elif k == "b._run_job_and_collect_results.ret":
            res = pl["ret"]["results"]
            if res:
                emitted.setdefault((pl["trial_id"], res[0]["run"]), []).extend(r["uid"] for r in res)
        elif k == "c.tuning_end":
            tuning_ended = True
        elif k == "c.loop_start":
            paused_in_iter = set()
        elif k == "w.job_end" and not tuning_ended:
            if pl.get("status") == "completed":
                self_completed[(pl["trial"], pl.get("run"))] = [0, 0]  # polls since, polls that included the trial since
        elif k == "b.fetch_status_results.ret":
            batch = [(t, r.get("uid")) for t, r in pl["ret"]["results"]]
            if not tuning_ended:
                for key_, c_ in self_completed.items():
                    c_[0] += 1
                    if key_[0] in pl["ret"]["status"]:
                        c_[1] += 1
                for t_ in pl["ret"]["status"]:
                    polled_in_run[(t_, cur_run.get(t_))] = polled_in_run.get((t_, cur_run.get(t_)), 0) + 1
        elif k in ("b.start_trial.ret",):
            cur_run[pl["ret"]["trial_id"]] = 0
        elif k == "b.resume_trial.ret":
            t = pl["trial_id"]
            cur_run[t] = cur_run.get(t, 0) + 1
            first_after_resume[t] = True
            if t in paused_in_iter:
                same_iter_resume = True
        elif k == "s.on_trial_result.call" and not tuning_ended:
            t = pl["trial_id"]
            res = pl["result"]
            uid, rn = res.get("uid"), res.get("run")
            o.count("deliveries")
            if uid is None:
                o.inconclusive("delivery_without_uid")
                continue
            key = (t, rn)
            if rn != cur_run.get(t):
                o.violate("never_after_stop_even_after_resume", f"{backend}:result_of_earlier_run_delivered_after_resume",
                          {"trial": t, "result_run": rn, "current_run": cur_run.get(t), "uid": uid, "decided": decided.get(key)})
            elif key in decided:
                o.violate("never_after_stop", f"{backend}:result_delivered_after_{decided[key][1]}_decision", {"trial": t, "run": rn, "uid": uid})
            if first_after_resume.pop(t, False):
                o.count("deliveries_after_resume")
                em = emitted.get((t, cur_run.get(t)), [])
                if rn == cur_run.get(t) and em and uid != em[0]:
                    o.violate("continues_with_first_report_of_new_run", f"{backend}:first_delivery_after_resume_is_not_first_report_of_new_run",
                              {"trial": t, "run": rn, "uid": uid, "first_emitted": em[0]})
            pending_delivery = (key, uid)
            last_result_uid = (t, rn, uid)
        elif k == "s.on_trial_result.raise":
            pending_delivery = None  # the scheduler raised: the run aborts here (reported separately)
        elif k == "s.on_trial_result.ret" and not tuning_ended:
            if pending_delivery is not None:
                deliv.setdefault(pending_delivery[0], []).append(pending_delivery[1])
                order.append(pending_delivery[1])
                pending_delivery = None
            d = pl["ret"]
            if d in ("STOP", "PAUSE") and last_result_uid is not None and last_result_uid[0] == pl["trial_id"]:
                t, rn, uid = last_result_uid
                decided[(t, rn)] = (uid, d)
                if d == "PAUSE":
                    paused_in_iter.add(t)
                # later results of the same trial in this batch?
                later = [u for (bt, u) in batch if bt == t and u is not None and u > uid]
                if later:
                    mid_batch_case = True
        elif k == "s.on_trial_complete.call" and not tuning_ended:
            completed.add((pl["trial_id"], cur_run.get(pl["trial_id"])))
        elif k == "s.on_trial_error.call" and not tuning_ended:
            failed.add((pl["trial_id"], cur_run.get(pl["trial_id"])))
    # ---- per-run prefix / exactly-once / order
    sig = []
    for key, dl in sorted(deliv.items()):
        em = emitted.get(key)
        if em is None:
            o.inconclusive("emissions_of_run_not_observed")
            continue
        o.count("runs_checked")
        if len(set(dl)) != len(dl):
            o.violate("exactly_once", f"{backend}:result_delivered_twice", {"run": key, "delivered": dl[:40]})
            continue
        if dl != em[: len(dl)]:
            kind_ = "out_of_order" if sorted(dl) == sorted(em[: len(dl)]) else "gap_or_foreign"
            o.violate("gap_free_prefix_in_order", f"{backend}:delivered_sequence_is_not_a_prefix:{kind_}", {"run": key, "delivered": dl[:40], "emitted": em[:40]})
            continue
        if key in decided:
            o.count("runs_ended_by_decision")
            if dl[-1] != decided[key][0]:
                o.violate("never_after_stop", f"{backend}:delivery_continues_after_decision", {"run": key, "delivered": dl[:40], "decided": decided[key]})
            sig.append((key, len(dl), decided[key][1]))
        elif key in completed:
            if len(dl) != len(em):
                o.violate("whole_sequence_when_completed", f"{backend}:completed_run_not_fully_delivered",
                          {"run": key, "delivered": len(dl), "emitted": len(em)})
            else:
                o.count("runs_completed_fully_delivered")
            sig.append((key, len(dl), "C"))
        else:
            sig.append((key, len(dl), "open" if key not in failed else "F"))
    # ground truth: the job ended by itself with exit code 0 (worker event), tuning went on for at least three more polls,
    # no STOP / PAUSE decision was taken for the run: its whole sequence must have been delivered
    sj = "" if sjwd else ":start_jobs_without_delay=False"
    for key, (polls_since, polls_with_trial) in sorted(self_completed.items()):
        if key in decided or key in failed or polls_since < 3 or exc is not None:
            continue
        em = emitted.get(key) or []
        dl = deliv.get(key, [])
        o.count("decided:self_completed_runs")
        if len(dl) < len(em):
            how = ("polled_after_exit_but_results_missing" if polls_with_trial else
                   "never_polled" if not polled_in_run.get(key) else "dropped_from_polling_before_its_last_results_were_fetched")
            o.violate("whole_sequence_when_completed", f"{backend}:self_completed_run_not_fully_delivered:{how}{sj}",
                      {"run": key, "delivered": len(dl), "emitted": len(em), "polls_after_exit": polls_since})
    # runs that completed but delivered nothing at all
    for key in completed:
        if key not in deliv and emitted.get(key):
            o.violate("whole_sequence_when_completed", f"{backend}:completed_run_not_fully_delivered", {"run": key, "delivered": 0, "emitted": len(emitted[key])})
    # ---- results log rows == deliveries
    row_uids = [r.get("uid") for r in rows]
    o.count("rows_compared", len(row_uids))
    if row_uids != order:
        o.violate("results_log_is_exactly_the_deliveries", f"{backend}:results_log_rows_differ_from_deliveries",
                  {"rows": row_uids[:60], "deliveries": order[:60]})
    if late_case:
        o.count("cases_with_late_output")
    if mid_batch_case:
        o.count("cases_with_decision_mid_batch")
    if same_iter_resume:
        o.count("cases_resume_in_same_iteration")
    return sig


def async_backend_class():
    from datetime import datetime

    from syne_tune.backend.trial_backend import TrialBackend
    from syne_tune.backend.trial_status import Status
    from syne_tune.constants import ST_WORKER_TIMESTAMP

    class AsyncStopBackend(TrialBackend):
        """Minimal poll-based backend on the public TrialBackend interface whose jobs are stopped asynchronously, like a remote
        training service: stop / pause only send a signal, the job stays 'Stopping' (one of the two busy states) for some
        ticks and keeps reporting, then terminates. ``own_status``: the backend reports 'Paused' / 'Stopped' for trials it has
        signalled itself right away (as the SageMaker backend does) instead of the service's 'Stopping'."""

        def __init__(self, rng, n_levels, latency, burst, own_status):
            super().__init__()
            self.rng, self.n_levels, self.latency, self.burst, self.own_status = rng, n_levels, latency, burst, own_status
            self.jobs = {}
            self.metrics = {}  # trial -> all reports since the start of the trial
            self.signalled = {}  # trial -> 'paused' | 'stopped'
            self.run_no = {}
            self.uid = 0
            self.emitted = {}
            self.written_while_stopping = 0

        def tick(self):
            for tid, job in self.jobs.items():
                if job["status"] not in (Status.in_progress, Status.stopping):
                    continue
                for _ in range(self.rng.randint(0, self.burst)):
                    if job["next"] > self.n_levels:
                        break
                    self.uid += 1
                    self.metrics[tid].append({"epoch": job["next"], "uid": self.uid, "run": job["run"], ST_WORKER_TIMESTAMP: self.uid})
                    self.emitted.setdefault((tid, job["run"]), []).append(self.uid)
                    job["next"] += 1
                    if job["status"] == Status.stopping:
                        self.written_while_stopping += 1
                if job["status"] == Status.stopping:
                    job["ticks"] -= 1
                    if job["ticks"] <= 0:
                        job["status"] = Status.paused if self.signalled.get(tid) == "paused" else Status.stopped
                elif job["next"] > self.n_levels:
                    job["status"] = Status.completed

        def _schedule(self, trial_id, config):
            run = self.run_no.get(trial_id, -1) + 1
            self.run_no[trial_id] = run
            self.metrics.setdefault(trial_id, [])
            self.signalled.pop(trial_id, None)
            # a resumed job continues after the last level written before the pause signal took effect
            self.jobs[trial_id] = {"status": Status.in_progress, "run": run, "ticks": None,
                                   "next": 1 if run == 0 or not self.jobs[trial_id].get("ckpt") else self.jobs[trial_id]["ckpt"] + 1}

        def _signal(self, trial_id, what, result):
            job = self.jobs[trial_id]
            self.signalled[trial_id] = what
            job["ckpt"] = None if result is None else result.get("epoch")
            if job["status"] == Status.in_progress:
                if self.latency == 0:
                    job["status"] = Status.paused if what == "paused" else Status.stopped
                else:
                    job["status"], job["ticks"] = Status.stopping, self.latency

        def _stop_trial(self, trial_id, result):
            self._signal(trial_id, "stopped", result)

        def _pause_trial(self, trial_id, result):
            self._signal(trial_id, "paused", result)

        def _resume_trial(self, trial_id):
            pass

        def _all_trial_results(self, trial_ids):
            res = []
            for tid in trial_ids:
                job = self.jobs[tid]
                st = job["status"]
                if self.own_status and tid in self.signalled:
                    st = Status.paused if self.signalled[tid] == "paused" else Status.stopped
                res.append(self._trial_dict[tid].add_results(metrics=list(self.metrics[tid]), status=st, training_end_time=datetime.now()))
            return res

        def busy_trial_ids(self):
            return [(t, j["status"]) for t, j in self.jobs.items() if j["status"] in (Status.in_progress, Status.stopping)]

        def copy_checkpoint(self, src_trial_id, tgt_trial_id):
            pass

        def delete_checkpoint(self, trial_id):
            pass

        def stdout(self, trial_id):
            return []

        def stderr(self, trial_id):
            return []

    return AsyncStopBackend


def run_engine_remote(spec):
    """Direct driver of the generic poll logic (TrialBackend.fetch_status_results / pause / resume / stop) over a backend whose
    jobs stop asynchronously; whoever polls (a tuning loop, a monitoring tool) passes any set of trial ids."""
    from syne_tune.backend.trial_status import Status

    o = Obs()
    o.count("remote:runs")
    rng = random.Random(spec["seed"])
    n_levels = rng.randint(3, 10)
    be = async_backend_class()(random.Random(spec["seed"] + 1), n_levels, latency=rng.choice([0, 1, 1, 2, 3]),
                               burst=rng.choice([1, 1, 2, 3]), own_status=rng.random() < 0.3)
    n_trials = rng.randint(2, 6)
    p_stop, p_pause = rng.choice([0.05, 0.15]), rng.choice([0.0, 0.15, 0.3])
    poll_all = rng.random() < 0.7
    cur_run, decided, deliv, order_ok = {}, {}, {}, True
    last_status = {}
    sig = []
    for poll in range(rng.randint(15, 60)):
        if len(be.trial_ids) < n_trials and rng.random() < 0.5:
            t = be.start_trial(config={"x": len(be.trial_ids)})
            cur_run[t.trial_id] = 0
        for tid, st in list(last_status.items()):
            # a paused trial whose job has terminated may be resumed (while the service still says 'Stopping' the trial is not
            # 'paused' for resume_trial)
            if st == Status.paused and be.jobs[tid]["status"] != Status.stopping and rng.random() < 0.4:
                be.resume_trial(tid)
                cur_run[tid] += 1
                last_status[tid] = Status.in_progress
                o.count("remote:resumes")
        be.tick()
        ids = list(be.trial_ids)
        if not poll_all:
            ids = [t for t in ids if last_status.get(t) in (None, Status.in_progress) or rng.random() < 0.5]
        if not ids:
            continue
        status, results = be.fetch_status_results(ids)
        for tid, (_tr, st) in status.items():
            last_status[tid] = st
            if st == Status.stopping:
                o.count("remote:polls_with_status_Stopping")
        decided_now = {}
        for tid, res in results:
            key = (tid, res["run"])
            o.count("deliveries")
            if res["run"] != cur_run[tid]:
                o.violate("never_after_stop_even_after_resume", "remote:result_of_earlier_run_delivered_after_resume",
                          {"trial": tid, "result_run": res["run"], "current_run": cur_run[tid], "uid": res["uid"]})
            elif key in decided:
                o.violate("never_after_stop", f"remote:result_delivered_after_{decided[key][1]}_decision:status_{status[tid][1]}",
                          {"trial": tid, "run": res["run"], "uid": res["uid"], "decided_at_uid": decided[key][0],
                           "own_status": be.own_status, "latency": be.latency})
            deliv.setdefault(key, []).append(res["uid"])
            if key in decided or key in decided_now:
                continue  # rest of the batch of a run already decided upon: what a tuning loop drops
            r = rng.random()
            if r < p_stop:
                be.stop_trial(tid, result=res)
                decided_now[key] = (res["uid"], "STOP")
                last_status[tid] = Status.stopped
            elif r < p_stop + p_pause and res["epoch"] < n_levels:
                be.pause_trial(tid, result=res)
                decided_now[key] = (res["uid"], "PAUSE")
                last_status[tid] = "pausing"
        decided.update(decided_now)
    for key, dl in sorted(deliv.items()):
        em = be.emitted.get(key, [])
        o.count("runs_checked")
        if len(set(dl)) != len(dl):
            o.violate("exactly_once", "remote:result_delivered_twice", {"run": key, "delivered": dl[:40]})
        elif dl != em[: len(dl)]:
            o.violate("gap_free_prefix_in_order", "remote:delivered_sequence_is_not_a_prefix", {"run": key, "delivered": dl[:40], "emitted": em[:40]})
        elif key not in decided and be.jobs[key[0]]["run"] == key[1] and be.jobs[key[0]]["status"] == Status.completed \
                and last_status.get(key[0]) == Status.completed and len(dl) != len(em):
            o.violate("whole_sequence_when_completed", "remote:completed_run_not_fully_delivered", {"run": key, "delivered": len(dl), "emitted": len(em)})
        if key in decided:
            o.count("runs_ended_by_decision")
        sig.append((key, len(dl), decided.get(key, (None, "open"))[1]))
    o.count("remote:reports_written_while_Stopping", be.written_while_stopping)
    o.set_sig(("remote", sig), nontrivial=bool(decided))
    o.sample = {"backend": "remote", "latency": be.latency, "own_status": be.own_status, "runs": [list(map(str, x)) for x in sig[:12]]}
    return o.result()


def run_case(spec):
    if spec["backend"] == "remote":
        return run_engine_remote(spec)
    o = Obs()
    p = expand(spec)
    backend = spec["backend"]
    o.count(f"{backend}:runs")
    sched = None
    if backend == "proc":
        if p["scripted"]:
            space = gen.build_space(p["space"])
            sched = scripted_scheduler(space, spec["seed"] + 9, p["eager"], p["max_t"])
        r = simrun.ProcRun(p, spec["seed"], scheduler=sched)
        r.run()
        rows = list(r.store_cb.results)
        r.cleanup()
    else:
        if p["scripted"]:
            # the scripted scheduler needs the table space: build run first with a placeholder, then swap
            bb_space = gen.build_space(p["table"])
            sched = scripted_scheduler(bb_space, spec["seed"] + 9, p["eager"], p["n_fid"])
        p["tag_emissions"] = True
        r = simrun.SimRun(p, spec["seed"], scheduler=sched)
        r.run()
        rows = list(r.results())
    if r.exc is not None:
        msg = repr(r.exc)[:200]
        if type(r.exc).__name__ == "LoopBoundExceeded":
            o.inconclusive("loop_bound")
        else:
            tag = ""
            for needle, t in (("milestone", ":resource_beyond_milestone"), ("must not skip rung levels", ":resource_beyond_milestone"),
                              ("Cannot resume trial_id", ":resume_of_non_paused_trial")):
                if needle in msg:
                    tag = t
            o.violate("run_completes", f"{backend}:tuner_run_raised:{type(r.exc).__name__}{tag}", {"error": msg, "kind": spec["kind"]})
    sig = check(o, r.rec.events, rows, backend, sjwd=p.get("sjwd", True), exc=r.exc)
    for e in r.rec.events[-40:]:
        if e[1] in ("w.emit", "s.on_trial_result.ret", "b.pause_trial.ret", "b.stop_trial.ret", "b.resume_trial.ret", "b.start_trial.ret"):
            o.ev(e[0], e[1], {k: v for k, v in e[2].items() if k in ("trial_id", "trial", "run", "uid", "late", "ret") and not isinstance(v, dict)})
    o.set_sig(sig, nontrivial=any(s[2] in ("STOP", "PAUSE") for s in sig))
    o.sample = {"backend": backend, "kind": spec["kind"], "n_workers": p["n_workers"], "runs": [list(map(str, s)) for s in sig[:15]],
                "plan": p.get("plan"), "delays": p.get("delays")}
    return o.result()
