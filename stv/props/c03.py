"""C03 — stopping-type asynchronous Hyperband decides by the documented quantile rule.

The real HyperbandScheduler (type stopping / rush_stopping) is driven by the virtual tuner under
generated report orders; every decision returned by ``on_trial_result`` is compared with an
independent reference stopping-rung model (stv/refmodels/asha.py: plain lists + numpy.quantile)
fed the same events. The bracket of each trial is read from the arguments of the public
``terminator.on_task_add`` (instance-level, read-only wrap). Rung levels are compared with the
documented formula. A contract on ``Rung`` (sorted best-first, no trial twice) runs alongside.
"""
import random

from stv import envshim  # noqa: F401
from stv import gen
from stv.obs import Obs
from stv.refmodels.asha import RefStopping
from stv.vtuner import Port, VTuner

ID = "C03"
LEVEL = "exploration"
RULE = (
    "case = (Hyperband arguments: grace period 1-4 x reduction factor {2,3,4,2.5} | rung increment 1-5 | "
    "explicit rung list; max_t 4-81; 1-4 brackets shared/per-bracket; mode min/max; type stopping or "
    "rush_stopping) x metric table (continuous / heavy ties / constant / crossing) x 1-8 concurrent trials x "
    "arrival policy (uniform, round-robin, starve-one, burst, eager). Distinct = digest of the sequence of "
    "(rung level, #entries, decision) over all rung decisions; non-trivial = at least one rung decision with "
    ">= 2 entries."
)
ASSUMPTIONS = [
    "most trials report every resource level consecutively; a fraction reports only every 2nd / 3rd level (sparse "
    "reporters skip rung levels, which the stopping type tolerates with a warning)",
    "bracket assignment is the scheduler's own random draw; it is observed from the arguments of the public terminator.on_task_add",
    "a metric within 16 eps (relative) of the quantile may go either way (counted as roundoff_band, not judged)",
    "rush_stopping with threshold candidates: the reference follows the RUSHDecider / RUSHScheduler docstrings (a candidate "
    "that continues under the quantile rule sets the rung's threshold, other trials must also be no worse than it); decisions "
    "at a rung whose threshold depends on a round-off tie are not judged",
]
CASE_TIMEOUT = 60


def preload():
    import syne_tune.optimizer.schedulers  # noqa: F401
    import syne_tune.optimizer.schedulers.searchers  # noqa: F401


def cases(tier, seed):
    n = 6000 if tier == "quick" else 150000
    out = []
    for i in range(n):
        out.append({"seed": seed * 7919 + i * 13 + 1})
    # engine R: the same scheduler and the same reference monitor, but inside a real Tuner.run on the scripted-process
    # LocalBackend (results arrive in polled batches, a STOP cuts the rest of the batch, jobs fail / end by themselves)
    for i in range(400 if tier == "quick" else 8000):
        out.append({"engine": "R", "seed": seed * 7919 + i * 13 + 7})
    # the repository's own Hyperband tests, run with the Rung contracts on (stv/pytest_contracts.py)
    out.insert(0, {"engine": "suite"})
    return out


SUITE_FILES = ["tst/schedulers/test_hyperband.py", "tst/schedulers/test_pasha.py", "tst/schedulers/test_hyperband_cost_promotion.py",
               "tst/schedulers/transfer_learning/test_rush.py", "tst/callbacks/test_hyperband_remove_checkpoints.py",
               "tst/test_schedulers.py", "tst/test_random_seed.py"]


def case_timeout(spec):
    return 900 if spec.get("engine") == "suite" else CASE_TIMEOUT


def run_suite_with_contracts(spec):
    import json
    import os
    import subprocess
    import sys
    import tempfile

    o = Obs()
    out = tempfile.mktemp(prefix="stv_contract_", suffix=".json", dir="/dev/shm")
    env = dict(os.environ, STV_CONTRACT_OUT=out, PYTHONPATH=os.path.dirname(os.path.dirname(os.path.dirname(os.path.abspath(__file__)))))
    files = [f for f in SUITE_FILES if os.path.exists(os.path.join(envshim.REPO, f))]
    try:
        pr = subprocess.run([sys.executable, "-m", "pytest", "-q", "-p", "no:cacheprovider", "-p", "stv.pytest_contracts", "--timeout=600",
                             "--continue-on-collection-errors"] + files, cwd=envshim.REPO, env=env, capture_output=True, text=True, timeout=800)
        d = json.load(open(out))
    except Exception as e:  # noqa: BLE001
        o.inconclusive("suite_with_contracts_not_run:" + type(e).__name__)
        return o.result()
    finally:
        if os.path.exists(out):
            os.unlink(out)
    o.count("suite:runs")
    for k, v in d["counters"].items():
        o.count("suite:" + k, v)
    for v in d["violations"]:
        o.violate(v["clause"], "suite:" + v["mechanism"], v["detail"])
    tail = pr.stdout.strip().splitlines()[-1:] if pr.stdout else []
    o.set_sig(("suite", sorted(d["counters"].items())), nontrivial=d["counters"].get("contract:Rung", 0) > 0)
    o.sample = {"engine": "suite", "files": files, "pytest_summary": tail, "contract_evaluations": d["counters"]}
    return o.result()


def floors(tier):
    k = 1 if tier == "quick" else 20
    return {
        "decided:rush_threshold_rule": 3000 * k,
        "decided:rush_stop_by_threshold_of_a_continuing_candidate": 200 * k,
        "second_experiment_interleaved_in_same_process": 100 * k,
        "decided:rung_n>=2": 5000 * k,
        "decided:max_t_stop": 100 * k,
        "decided:non_rung_level": 2000 * k,
        "outcome:min:shared:STOP": 50 * k,
        "outcome:min:shared:CONTINUE": 50 * k,
        "outcome:max:shared:STOP": 50 * k,
        "outcome:max:shared:CONTINUE": 50 * k,
        "outcome:min:per_bracket:STOP": 20 * k,
        "outcome:min:per_bracket:CONTINUE": 20 * k,
        "outcome:max:per_bracket:STOP": 20 * k,
        "outcome:max:per_bracket:CONTINUE": 20 * k,
        "bracket>0_decisions": 200 * k,
        "rung_levels_checked": 500 * k,
        "schedules_with_sparse_reporters": 500 * k,
        "decided:skipped_rung_level": 300 * k,
        "decided:max_t_stepped_over": 100 * k,
        "R:runs": 300 * k,
        "R:decided:rung_n>=2": 3000 * k,
        "suite:contract:Rung": 1000,
        "suite:contract:Rung.quantile": 100,
    }


def expand(spec):
    """Derive all generator parameters from the seed (kept out of the spec so specs stay small);
    explicit keys in the spec override (used by reproducers)."""
    rng = random.Random(spec["seed"])
    p = gen.hyperband_params(rng, ["stopping", "stopping", "stopping", "rush_stopping"])
    p["curves"] = rng.choice(["continuous", "continuous", "ties", "const", "crossing"])
    p["n_workers"] = rng.randint(1, 8)
    p["policy"] = rng.choice(["uniform", "round_robin", "starve", "burst", "eager"])
    p["max_trials"] = rng.randint(4, 40)
    p["max_events"] = rng.randint(40, 500)
    p["space"] = gen.small_space(rng, ensure_infinite=True, ordinal_kinds=("equal",))
    if p["type"] == "rush_stopping":
        p["rush_candidates"] = rng.choice([0, 0, 1, 2, 3])
    # sparse reporters: some training scripts validate only every k-th level and so jump over rung levels
    # (tolerated by the stopping type: "milestone has been skipped"); decisions stay at own rung levels only
    p["strides"] = rng.choice([None, None, None, [1, 1, 2], [1, 2, 3], [2], [1, 3]])
    # ... and some of them never report max_t itself but step over it (script validates every k-th epoch of its own,
    # longer schedule): 'resource >= max_t' must still end the trial
    p["overshoot"] = p["strides"] is not None and rng.random() < 0.5
    # a second, unrelated stopping-type experiment in the same process, its events interleaved with this one's
    p["bystander"] = rng.random() < 0.15
    p.update({k: v for k, v in spec.items() if k != "seed"})
    return p


def _bystander(spec):
    q = expand({"seed": spec["seed"] * 31 + 977, "bystander": False})
    q["type"] = "stopping"
    sched = gen.build_hyperband(gen.build_space(q["space"]), q, seed=(spec["seed"] + 11) % (2**31))
    vp = {"n_workers": q["n_workers"], "max_t": q["max_t"], "metric": "loss", "resource_attr": "epoch", "policy": q["policy"],
          "seed": spec["seed"] + 12, "max_trials": q["max_trials"], "max_events": q["max_events"]}
    return VTuner(Port(sched), vp, gen.Curves(q["curves"], spec["seed"] + 13, q["max_t"] + 4))


class Monitor:
    def __init__(self, o, p, sched, ref, brackets):
        self.o, self.p, self.sched, self.ref, self.brackets = o, p, sched, ref, brackets
        self.sig = []

    def post_result(self, vt, t, result, decision):
        o, p = self.o, self.p
        tid = str(t.trial_id)
        b = self.brackets.get(tid)
        if b is None:
            o.inconclusive("bracket_not_observed")
            return
        level = result[vt.p["resource_attr"]]
        value = result[vt.p["metric"]]
        exp, kind, info = self.ref.on_report(tid, b, level, value)
        cell = f"{p['mode']}:{'per_bracket' if p['rung_system_per_bracket'] and self.ref.num_brackets > 1 else 'shared'}"
        rush = p.get("rush_candidates", 0) > 0
        if kind == "max_t":
            o.count("decided:max_t_stop")
            if level > p["max_t"]:
                o.count("decided:max_t_stepped_over")
            if decision != "STOP":
                o.violate("stop_at_max_resource", f"no_stop_at_max_t:got_{decision}", {"level": level, "max_t": p["max_t"]})
            return
        if decision == "PAUSE":
            o.violate("decision_kind", "stopping_type_returned_PAUSE", {"level": level})
            return
        if kind == "rung":
            n = info["n"]
            if b > 0:
                o.count("bracket>0_decisions")
            if n >= 2:
                self.sig.append((level, n, decision))
            if exp == "EITHER":
                o.count("roundoff_band")
                return
            if n < 2:
                o.count("decided:rung_n<2")
            else:
                o.count("decided:rung_n>=2")
                o.count(f"outcome:{cell}:{decision}")
            if rush and info.get("rush_unjudged"):
                o.count("rush_threshold_depends_on_roundoff_unjudged")
                return
            if rush and n >= 2:
                o.count("decided:rush_threshold_rule")
                if info.get("rush_stop"):
                    o.count("decided:rush_stop_by_threshold_of_a_continuing_candidate")
            if decision != exp:
                mech = (
                    "first_entries_not_continued" if n < 2 else
                    f"quantile_rule:{p['mode']}:expected_{exp}_got_{decision}"
                )
                if rush and n >= 2 and (info.get("rush_stop") or (exp == "CONTINUE" and isinstance(info.get("rush"), dict))):
                    mech = f"rush_threshold_rule:{p['mode']}:expected_{exp}_got_{decision}"
                o.violate("quantile_rule", mech, dict(info, level=level, bracket=b, trial=tid,
                                                      values=[e["value"] for e in self.ref.sys_of(b)[level]][:40]))
        else:
            o.count("decided:non_rung_level" if kind == "none" else "decided:reentry")
            if t.stride > 1 and any(level - t.stride < lv < level for lv in self.ref.own_levels(b)):
                o.count("decided:skipped_rung_level")
            if decision != "CONTINUE":
                o.violate("decisions_only_at_own_rung_levels", f"decision_{decision}_at_non_rung_level",
                          {"level": level, "bracket": b, "own_levels": self.ref.own_levels(b)})


class _T:
    __slots__ = ("trial_id", "stride")

    def __init__(self, trial_id):
        self.trial_id, self.stride = trial_id, 1


class _VT:
    p = {"resource_attr": "epoch", "metric": "loss"}


def run_engine_r(spec):
    """Real Tuner + scripted-process backend; the decisions recorded at the scheduler boundary are replayed into the
    same reference monitor."""
    from stv import simrun
    from stv.contracts import rung_contract

    o = Obs()
    rng = random.Random(spec["seed"])
    p = gen.hyperband_params(rng, ["stopping"])
    while p["max_t"] > 30:  # scripted processes emit every level: keep runs short
        p = gen.hyperband_params(rng, ["stopping"])
    p["curves"] = rng.choice(["continuous", "continuous", "ties", "crossing"])
    p["space"] = gen.small_space(rng, ensure_infinite=True, ordinal_kinds=("equal",))
    p.update({k: v for k, v in spec.items() if k not in ("seed", "engine") and not k.startswith("_")})
    space = gen.build_space(p["space"])
    o.count("R:runs")
    try:
        sched = gen.build_hyperband(space, p, seed=spec["seed"] % (2**31))
    except Exception as e:  # noqa: BLE001
        o.violate("construction", "constructor_raised:" + type(e).__name__, {"error": repr(e)[:300]})
        return o.result()
    ref_levels = gen.ref_rung_levels(p)
    if list(sched.rung_levels) != ref_levels:
        o.violate("rung_levels", "rung_levels_differ_from_documented_formula", {"got": list(sched.rung_levels), "ref": ref_levels})
        return o.result()
    ref = RefStopping(ref_levels, p["max_t"], p["mode"], p["brackets"], p["rung_system_per_bracket"])
    brackets = {}
    term = sched.terminator
    orig_add = term.on_task_add

    def on_task_add(trial_id, **kwargs):
        brackets[str(trial_id)] = kwargs.get("bracket")
        return orig_add(trial_id, **kwargs)

    term.on_task_add = on_task_add
    pp = {"kind": "hb_stopping", "mode": p["mode"], "n_workers": rng.randint(1, 6), "max_t": p["max_t"], "use_mra": False,
          "checkpointing": False, "delete_checkpoints": False,
          "plan": {"burst": rng.choice([1, 2, 3, 5]), "late_max": rng.randint(0, 2), "exit_lag_max": rng.randint(0, 2)},
          "stop": {"max_num_trials_started": rng.randint(8, 40)}, "sjwd": True, "async": rng.random() < 0.85,
          "wait": rng.random() < 0.3, "space": p["space"], "curves": p["curves"]}
    if rng.random() < 0.2:
        pp["plan"]["fail"] = {f"{rng.randint(0, 10)}:0": rng.randint(0, 3) for _ in range(rng.randint(1, 3))}
    r = simrun.ProcRun(pp, spec["seed"], scheduler=sched)
    with rung_contract(o):
        r.run()
    r.cleanup()
    if r.exc is not None:
        if type(r.exc).__name__ == "LoopBoundExceeded":
            o.inconclusive("loop_bound")
        else:
            o.violate("no_raise", f"R:tuner_run_raised:{type(r.exc).__name__}", {"error": repr(r.exc)[:300]})
    sub = Obs()
    mon = Monitor(sub, dict(p), sched, ref, brackets)
    vt = _VT()
    pending = None
    for idx, k, pl in r.rec.events:
        if k == "c.tuning_end":
            break
        if k == "s.on_trial_result.call":
            pending = (pl["trial_id"], dict(pl["result"]))
        elif k == "s.on_trial_result.ret" and pending is not None and pending[0] == pl["trial_id"]:
            mon.post_result(vt, _T(pl["trial_id"]), pending[1], pl["ret"])
            pending = None
    for name, v in sub.counters.items():
        o.count("R:" + name, v)
    for v in sub.violations:
        o.violate(v["clause"], "R:" + v["mechanism"], v["detail"])
    for reason in sub.inconc:
        o.inconclusive(reason)
    o.set_sig(("R", mon.sig), nontrivial=len(mon.sig) > 0)
    o.sample = {"engine": "R", "params": {k: p.get(k) for k in ("type", "mode", "grace_period", "reduction_factor", "rung_increment", "rung_levels", "max_t", "brackets", "rung_system_per_bracket", "curves")},
                "n_workers": pp["n_workers"], "plan": pp["plan"], "rung_decisions": mon.sig[:12]}
    return o.result()


def run_case(spec):
    from stv.contracts import rung_contract

    if spec.get("engine") == "R":
        return run_engine_r(spec)
    if spec.get("engine") == "suite":
        return run_suite_with_contracts(spec)
    o = Obs()
    p = expand(spec)
    space = gen.build_space(p["space"])
    kw = {}
    if p["type"] == "rush_stopping":
        nc = p.get("rush_candidates", 0)
        kw["rung_system_kwargs"] = {"num_threshold_candidates": nc}
        if nc > 0:
            # RUSH takes its threshold candidates from the first points_to_evaluate
            names = [k for k, v in p["space"].items() if v[0] != "const"]
            rr = random.Random(spec["seed"] + 5)
            kw["points_to_evaluate"] = [{k: _sample(space[k], rr) for k in names} for _ in range(nc)]
    try:
        sched = gen.build_hyperband(space, p, seed=spec["seed"] % (2**31), **{k: v for k, v in kw.items() if v is not None})
    except Exception as e:  # noqa: BLE001
        o.violate("construction", "constructor_raised:" + type(e).__name__, {"args": {k: p.get(k) for k in ("type", "grace_period", "reduction_factor", "rung_increment", "rung_levels", "max_t", "brackets")}, "error": repr(e)[:300]})
        return o.result()
    # rung levels vs the documented formula
    ref_levels = gen.ref_rung_levels(p)
    o.count("rung_levels_checked")
    if list(sched.rung_levels) != ref_levels:
        o.violate("rung_levels", "rung_levels_differ_from_documented_formula", {"got": list(sched.rung_levels), "ref": ref_levels})
        return o.result()
    ref = RefStopping(ref_levels, p["max_t"], p["mode"], p["brackets"], p["rung_system_per_bracket"],
                      rush_candidates=p.get("rush_candidates", 0))
    brackets = {}
    term = sched.terminator
    orig_add = term.on_task_add

    def on_task_add(trial_id, **kwargs):
        brackets[str(trial_id)] = kwargs.get("bracket")
        return orig_add(trial_id, **kwargs)

    term.on_task_add = on_task_add
    curves = gen.Curves(p["curves"], spec["seed"] + 1, p["max_t"] + 4)  # a few levels beyond max_t for scripts that step over it
    mon = Monitor(o, p, sched, ref, brackets)
    vp = {
        "n_workers": p["n_workers"], "max_t": p["max_t"], "metric": "loss", "resource_attr": "epoch",
        "policy": p["policy"], "seed": spec["seed"] + 2, "max_trials": p["max_trials"],
        "max_events": p["max_events"], "order": p.get("order"), "strides": p.get("strides"), "overshoot": p.get("overshoot"),
    }
    if p.get("strides"):
        o.count("schedules_with_sparse_reporters")
    with rung_contract(o):
        vt = VTuner(Port(sched), vp, curves, monitors=[mon])
        if p.get("bystander"):
            try:
                vt.bystanders.append(_bystander(spec))
                o.count("second_experiment_interleaved_in_same_process")
            except Exception:  # noqa: BLE001
                o.count("bystander_not_built")
        vt.run()
    if vt.raised:
        o.violate("no_raise", f"raised:{vt.raised[0]}:{vt.raised[1]}", vt.raised)
    for ev in vt.events[-40:]:
        o.ev(*ev)
    o.set_sig(mon.sig, nontrivial=len(mon.sig) > 0)
    o.sample = {"params": {k: p.get(k) for k in ("type", "mode", "grace_period", "reduction_factor", "rung_increment", "rung_levels", "max_t", "brackets", "rung_system_per_bracket", "curves", "n_workers", "policy")},
                "rung_levels": ref_levels, "events": len(vt.events), "rung_decisions": mon.sig[:12]}
    return o.result()


def _sample(dom, rr):
    import numpy as np

    return dom.sample(random_state=np.random.RandomState(rr.randint(0, 2**31 - 1)))
