"""C04 — promotion-type Hyperband (ASHA, PASHA, cost-aware, RUSH) promotes only eligible trials.

The real HyperbandScheduler (type promotion / pasha / cost_promotion / rush_promotion) is driven by
the virtual tuner under generated suggest/report interleavings. Every ``suggest`` (resume vs start,
``config[max_resource_attr]``) and every decision is compared with an independent reference promotion
model (stv/refmodels/asha.py) fed the same events. The sampled bracket is read from the return value
of the public ``terminator.on_task_schedule`` (instance-level read-only wrap); PASHA's cap is read
(read-only) before each suggest.
"""
import random

from stv import envshim  # noqa: F401
from stv import gen
from stv.obs import Obs
from stv.refmodels.asha import RefPromotion
from stv.vtuner import Port, VTuner

ID = "C04"
LEVEL = "exploration"
RULE = (
    "case = Hyperband arguments (as C03; type promotion / pasha / cost_promotion / rush_promotion; with or without "
    "max_resource_attr; training script with or without checkpointing) x metric/cost table x 1-8 workers x arrival "
    "policy incl. suggest bursts. Distinct = digest of the sequence of (suggest kind, rung level promoted from, "
    "pause levels); non-trivial = at least one promotion (resume suggestion)."
)
ASSUMPTIONS = [
    "trials report every resource level consecutively; a resumed trial continues after the level it was paused at "
    "(checkpointing) or restarts at level 1 (no checkpointing)",
    "the sampled bracket is observed from terminator.on_task_schedule's return value; PASHA's cap from the rung "
    "system's current_max_t (read-only); if these disappear the check reports inconclusive, not held",
    "a metric (or cumulative cost) within 16 eps of the threshold may go either way (roundoff_band)",
    "cost_promotion is checked on tables in general position only (ties in the metric make the documented order ambiguous)",
    "rush_promotion with threshold candidates: only 'promoted => unpromoted, passes the quantile, correct target' is claimed",
    "the PASHA rule for *when* the cap grows is not part of C04; only 'never beyond the cap' and 'cap never shrinks'",
]
CASE_TIMEOUT = 60


def preload():
    import syne_tune.optimizer.schedulers  # noqa: F401
    import syne_tune.optimizer.schedulers.searchers  # noqa: F401


def cases(tier, seed):
    n = 2500 if tier == "quick" else 60000
    return [{"seed": seed * 104729 + i * 17 + 3} for i in range(n)]


def floors(tier):
    k = 1 if tier == "quick" else 20
    return {
        "decided:resume_suggestion": 2000 * k,
        "decided:no_eligible_new_trial_nonempty_rungs": 2000 * k,
        "decided:promotion_beyond_second_rung": 200 * k,
        "decided:pause_at_milestone": 5000 * k,
        "decided:stop_at_max_t": 100 * k,
        "pasha_cap_increase": 50 * k,
        "type:promotion": 300 * k,
        "type:pasha": 300 * k,
        "type:cost_promotion": 300 * k,
        "type:rush_promotion": 300 * k,
        "resume_without_checkpointing": 300 * k,
        "target_checked_with_max_resource_attr": 1000 * k,
        "second_experiment_interleaved_in_same_process": 200 * k,
        "second_experiment_events": 10000 * k,
        "schedules_reporting_every_gth_level_only": 150 * k,
        "schedules_reporting_every_gth_level_only:cost_promotion_without_checkpointing": 10 * k,
    }


def expand(spec):
    rng = random.Random(spec["seed"])
    p = gen.hyperband_params(rng, ["promotion", "promotion", "pasha", "cost_promotion", "rush_promotion"])
    if p["type"] == "pasha":
        p["brackets"] = 1
        p["rung_system_per_bracket"] = False
    p["curves"] = rng.choice(["continuous", "continuous", "ties", "crossing", "const"])
    if p["type"] == "cost_promotion":
        p["curves"] = rng.choice(["continuous", "crossing"])
    p["n_workers"] = rng.randint(1, 8)
    p["policy"] = rng.choice(["uniform", "round_robin", "starve", "burst", "eager", "eager"])
    p["max_trials"] = rng.randint(4, 40)
    p["max_events"] = rng.randint(60, 600)
    p["space"] = gen.small_space(rng, ensure_infinite=True, ordinal_kinds=("equal",))
    p["use_mra"] = rng.random() < 0.5
    p["checkpointing"] = rng.random() < 0.6
    if p["type"] == "rush_promotion":
        p["rush_candidates"] = rng.choice([0, 0, 1, 2, 3])
    # a second, unrelated promotion-type experiment in the same process, its events interleaved with this one's
    p["bystander"] = rng.random() < 0.2
    # training scripts that validate (and report) only every g-th epoch, where every rung level is a multiple of g: no rung
    # level is skipped, but level 1 is never reported, neither in the first run nor after a restart from scratch
    import math

    lv_ = gen.ref_rung_levels(p)
    g = 0
    for x in lv_:
        g = math.gcd(g, int(x))
    # (not for PASHA: its ranking bookkeeping indexes every epoch between two rung levels and raises KeyError when none of the
    # trials reported one of them -- noted in DESIGN 9.7, outside C04 as stated, which is about trials that report every level)
    p["strides"] = [g] if (g > 1 and p["type"] != "pasha" and rng.random() < 0.7) else None
    p.update({k: v for k, v in spec.items() if k != "seed"})
    return p


def _bystander(spec):
    """Second experiment (own scheduler, space, curves, trial ids from 0), unobserved."""
    q = expand({"seed": spec["seed"] * 31 + 977, "bystander": False})
    if q["type"] in ("cost_promotion", "rush_promotion"):
        q["type"] = "promotion"
    space = gen.build_space(q["space"])
    bp = dict(q)
    if q["use_mra"]:
        space["epochs"] = q["max_t"]
        bp["max_resource_attr"] = "epochs"
    sched = gen.build_hyperband(space, bp, seed=(spec["seed"] + 11) % (2**31))
    vp = {"n_workers": q["n_workers"], "max_t": q["max_t"], "metric": "loss", "resource_attr": "epoch", "policy": q["policy"],
          "seed": spec["seed"] + 12, "max_trials": q["max_trials"], "max_events": q["max_events"],
          "max_resource_attr": "epochs" if q["use_mra"] else None, "checkpointing": q["checkpointing"]}
    return VTuner(Port(sched), vp, gen.Curves(q["curves"], spec["seed"] + 13, q["max_t"]))


class Monitor:
    def __init__(self, o, p, sched, ref, sched_log, cost_fn):
        self.o, self.p, self.sched, self.ref, self.sched_log = o, p, sched, ref, sched_log
        self.cost_fn = cost_fn
        self.sig = []
        self.caps = []
        self.cap_before = None
        self.promotions = 0

    # -- PASHA cap, read-only
    def _cap(self, bracket=0):
        if self.p["type"] != "pasha":
            return self.p["max_t"]
        try:
            rs = self.sched.terminator._rung_systems[0]
            return rs.current_max_t
        except Exception:  # noqa: BLE001
            self.o.inconclusive("pasha_cap_not_observable")
            return None

    def pre_suggest(self, vt, next_id):
        self.cap_before = self._cap()
        if self.p["type"] == "pasha" and self.cap_before is not None:
            if self.caps and self.cap_before < self.caps[-1]:
                self.o.violate("pasha_cap_monotone", "pasha_cap_decreased", {"caps": self.caps[-5:] + [self.cap_before]})
            if self.caps and self.cap_before > self.caps[-1]:
                self.o.count("pasha_cap_increase")
            if not self.caps or self.cap_before != self.caps[-1]:
                self.caps.append(self.cap_before)
        self.sched_log.clear()

    def post_suggest(self, vt, next_id, sugg, t):
        o, p, ref = self.o, self.p, self.ref
        if sugg is None:
            o.violate("new_trial_if_none_eligible", "suggest_returned_None_on_infinite_space", {})
            return
        if not self.sched_log:
            o.inconclusive("bracket_not_observed")
            return
        b = self.sched_log[-1]["bracket"]
        cap = self.cap_before if self.cap_before is not None else p["max_t"]
        el = ref.eligible(b, cap)
        if el is not None and el.get("ambiguous"):
            o.count("cost_ties_ambiguous_skipped")
            self._apply_unchecked(vt, sugg, t, b)
            return
        mra = "epochs" if p["use_mra"] else None
        rush = p.get("rush_candidates", 0) > 0
        nonempty = any(len(v) >= 2 for v in ref.sys_of(b).values())
        if not sugg.spawn_new_trial_id:
            tid = str(sugg.checkpoint_trial_id)
            if t is None:
                st = vt.trials.get(sugg.checkpoint_trial_id)
                o.violate("only_paused_resumed", "resume_of_non_paused_trial", {"trial": tid, "status": None if st is None else st.status})
                return
            o.count("decided:resume_suggestion")
            # where does the trial sit?
            sysd = ref.sys_of(b)
            found = [(lv, e) for lv, es in sysd.items() for e in es if e["trial"] == tid and not e["promoted"]]
            prom_before = [(lv, e) for lv, es in sysd.items() for e in es if e["trial"] == tid and e["promoted"]]
            level = t.last_level  # the level it was paused at
            here = [x for x in found if x[0] == level]
            if not here:
                if any(lv == level for lv, _ in prom_before):
                    o.violate("not_promoted_before", "promoted_twice_from_same_rung", {"trial": tid, "level": level})
                else:
                    o.violate("eligibility", "resumed_trial_has_no_rung_entry_at_pause_level", {"trial": tid, "level": level, "bracket": b})
                ref.resume(tid, b, level, ref.next_level(level) if level in ref.levels else p["max_t"])
                return
            entries = sysd[level]
            nxt = ref.next_level(level)
            if not level < cap:
                o.violate("resource_cap", "promoted_from_rung_at_or_above_cap", {"level": level, "cap": cap})
            elif rush:
                # only: unpromoted (checked), passes quantile
                c = ref.cutoff(entries, level)
                from stv.refmodels.asha import in_band
                v = here[0][1]["value"]
                if c is None:
                    o.violate("eligibility", "promoted_with_fewer_than_two_entries", {"level": level})
                elif not in_band(v, c, scale=max(abs(e["value"]) for e in entries)) and not ref.better_or_equal(v, c):
                    o.violate("eligibility", f"promoted_below_quantile:{p['mode']}", {"value": v, "cutoff": c, "level": level})
                o.count("decided:rush_promotion_one_direction")
            elif el is None:
                c = ref.cutoff(entries, level)
                mech = "promoted_with_fewer_than_two_entries" if c is None else (
                    f"promoted_below_{'cost_threshold' if p['type'] == 'cost_promotion' else 'quantile'}:{p['mode']}")
                o.violate("eligibility", mech, {"trial": tid, "level": level, "value": here[0][1]["value"], "cutoff": c,
                                                 "values": [e["value"] for e in entries][:40]})
            elif el["level"] != level:
                if el["sure"]:
                    o.violate("highest_rung_first", "promoted_from_lower_rung_while_higher_rung_has_eligible",
                              {"got_level": level, "ref_level": el["level"], "accept": sorted(el["accept"])})
                else:
                    o.count("roundoff_band")
            elif tid not in el["accept"]:
                o.violate("best_unpromoted", f"promoted_trial_is_not_best_unpromoted:{p['mode']}",
                          {"trial": tid, "accept": sorted(el["accept"]), "level": level,
                           "entries": [(e["trial"], e["value"], e["promoted"]) for e in entries][:40]})
            else:
                o.count("decided:promotion_rule_full")
            if len(ref.levels) >= 2 and level >= ref.levels[1]:
                o.count("decided:promotion_beyond_second_rung")
            # target
            if mra is not None:
                o.count("target_checked_with_max_resource_attr")
                got = None if sugg.config is None else sugg.config.get(mra)
                if got != nxt:
                    o.violate("run_exactly_to_next_rung", "promotion_target_not_next_rung_level",
                              {"got": got, "next": nxt, "level": level, "cap": cap})
                elif got > p["max_t"] or (p["type"] == "pasha" and got > cap):
                    o.violate("resource_cap", "promotion_target_beyond_cap", {"got": got, "cap": cap})
                if sugg.config is not None:
                    hp = {k: v for k, v in sugg.config.items() if k != mra}
                    old = {k: v for k, v in t_prev_config(vt, t).items() if k != mra}
                    if hp != old:
                        o.violate("same_configuration", "promoted_trial_config_changed", {"old": old, "new": hp})
            ref.mark_promoted(b, level, tid)
            ref.resume(tid, b, level, nxt)
            if not p["checkpointing"]:
                o.count("resume_without_checkpointing")
            self.promotions += 1
            self.sig.append(("R", level))
        else:
            tid = str(t.trial_id)
            if el is not None and not rush:
                if el["sure"]:
                    o.violate("promote_if_eligible", f"eligible_trial_not_promoted:{p['type']}",
                              {"level": el["level"], "accept": sorted(el["accept"]), "bracket": b, "cap": cap,
                               "entries": [(e["trial"], e["value"], e["promoted"]) for e in ref.sys_of(b)[el["level"]]][:40]})
                else:
                    o.count("roundoff_band")
            elif nonempty:
                o.count("decided:no_eligible_new_trial_nonempty_rungs")
            fm = ref.first_milestone(b)
            if mra is not None:
                o.count("target_checked_with_max_resource_attr")
                got = sugg.config.get(mra)
                if got != fm:
                    o.violate("run_exactly_to_next_rung", "new_trial_target_not_first_milestone",
                              {"got": got, "first_milestone": fm, "bracket": b})
            ref.start(tid, b)
            self.sig.append(("S",))

    def _apply_unchecked(self, vt, sugg, t, b):
        """Keep the reference in step without judging (ambiguous documented order)."""
        ref = self.ref
        if t is None:
            return
        tid = str(t.trial_id)
        if sugg.spawn_new_trial_id:
            ref.start(tid, b)
        else:
            level = t.last_level
            if level in ref.sys_of(b):
                ref.mark_promoted(b, level, tid)
            ref.resume(tid, b, level, ref.next_level(level) if level in ref.levels else self.p["max_t"])

    def post_result(self, vt, t, result, decision):
        o, p, ref = self.o, self.p, self.ref
        tid = str(t.trial_id)
        level = result["epoch"]
        cost = self.cost_fn(t.trial_id, level) if p["type"] == "cost_promotion" else None
        exp, kind = ref.on_report(tid, level, result["loss"], cost)
        if kind == "max_t":
            o.count("decided:stop_at_max_t")
        elif kind == "milestone":
            o.count("decided:pause_at_milestone")
            self.sig.append(("P", level))
        elif kind == "before_milestone":
            o.count("decided:continue_before_milestone")
        if exp != "ANY" and decision != exp:
            o.violate("pause_exactly_at_next_rung" if kind != "max_t" else "max_resource",
                      f"decision_{decision}_expected_{exp}:{kind}",
                      {"trial": tid, "level": level, "milestone": ref.running.get(tid, {}).get("milestone"), "max_t": p["max_t"]})
        if decision in ("STOP", "PAUSE"):
            ref.remove(tid)
        if level > p["max_t"]:
            o.violate("max_resource", "trial_reported_beyond_max_t", {"level": level})

    def post_complete(self, vt, t):
        self.ref.remove(str(t.trial_id))


def t_prev_config(vt, t):
    # configuration the trial had before this resume: vtuner replaced t.config already, so look at
    # the trial object kept in the event-independent store
    return vt._prev_config.get(t.trial_id, t.config)


class CfgTrackingVTuner(VTuner):
    """Remembers each trial's previous configuration so that 'promotion changes only the resource
    target' can be checked."""

    def __init__(self, *a, **k):
        super().__init__(*a, **k)
        self._prev_config = {}

    def do_suggest(self):
        for tid, t in self.trials.items():
            self._prev_config[tid] = dict(t.config)
        return super().do_suggest()


def run_case(spec):
    from stv.contracts import rung_contract

    o = Obs()
    p = expand(spec)
    space = gen.build_space(p["space"])
    o.count("type:" + p["type"])
    kw = {}
    bp = dict(p)
    if p["use_mra"]:
        space["epochs"] = p["max_t"]
        bp["max_resource_attr"] = "epochs"
    if p["type"] == "cost_promotion":
        kw["cost_attr"] = "cost"
    if p["type"] == "rush_promotion":
        nc = p.get("rush_candidates", 0)
        kw["rung_system_kwargs"] = {"num_threshold_candidates": nc}
        if nc > 0:
            import numpy as np

            rr = random.Random(spec["seed"] + 5)
            names = [k for k, v in p["space"].items() if v[0] != "const"]
            kw["points_to_evaluate"] = [
                {k: space[k].sample(random_state=np.random.RandomState(rr.randint(0, 2**31 - 1))) for k in names}
                for _ in range(nc)
            ]
    try:
        sched = gen.build_hyperband(space, bp, seed=spec["seed"] % (2**31), **kw)
    except Exception as e:  # noqa: BLE001
        o.violate("construction", "constructor_raised:" + type(e).__name__,
                  {"args": {k: p.get(k) for k in ("type", "grace_period", "reduction_factor", "rung_increment", "rung_levels", "max_t", "brackets")}, "error": repr(e)[:300]})
        return o.result()
    ref_levels = gen.ref_rung_levels(p)
    if list(sched.rung_levels) != ref_levels:
        o.violate("rung_levels", "rung_levels_differ_from_documented_formula", {"got": list(sched.rung_levels), "ref": ref_levels})
        return o.result()
    ref = RefPromotion(ref_levels, p["max_t"], p["mode"], p["brackets"], p["rung_system_per_bracket"],
                       variant=p["type"], rush_candidates=p.get("rush_candidates", 0))
    sched_log = []
    term = sched.terminator
    orig = term.on_task_schedule

    def on_task_schedule(new_trial_id):
        r = orig(new_trial_id)
        try:
            sched_log.append({"trial": r[0], "bracket": r[1]["bracket"]})
        except Exception:  # noqa: BLE001
            pass
        return r

    term.on_task_schedule = on_task_schedule
    curves = gen.Curves(p["curves"], spec["seed"] + 1, p["max_t"])
    crng = random.Random(spec["seed"] + 9)
    cum = []
    for _ in range(64):
        acc, row = 0.0, []
        for _l in range(p["max_t"]):
            acc += crng.uniform(0.5, 3.0)
            row.append(acc)
        cum.append(row)

    def cost_fn(trial_id, level):
        return cum[trial_id % 64][level - 1]

    def extra_fn(trial_id, level, run_no, vt_):
        if p["type"] != "cost_promotion":
            return {}
        # cost since the last resume: with checkpointing the run started after start_level-1
        if p["checkpointing"] and run_no > 0:
            base_level = vt_.run_start_level - max(1, vt_.stride)  # the level the trial was paused at
            base = cost_fn(trial_id, base_level) if base_level >= 1 else 0.0
        else:
            base = 0.0
        return {"cost": cost_fn(trial_id, level) - base}

    mon = Monitor(o, p, sched, ref, sched_log, cost_fn)
    vp = {
        "n_workers": p["n_workers"], "max_t": p["max_t"], "metric": "loss", "resource_attr": "epoch",
        "policy": p["policy"], "seed": spec["seed"] + 2, "max_trials": p["max_trials"],
        "max_events": p["max_events"], "order": p.get("order"),
        "max_resource_attr": "epochs" if p["use_mra"] else None, "checkpointing": p["checkpointing"],
        "strides": p.get("strides"),
    }
    if p.get("strides"):
        o.count("schedules_reporting_every_gth_level_only")
        if p["type"] == "cost_promotion" and not p["checkpointing"]:
            o.count("schedules_reporting_every_gth_level_only:cost_promotion_without_checkpointing")
    with rung_contract(o):
        vt = CfgTrackingVTuner(Port(sched), vp, curves, extra_fn=extra_fn, monitors=[mon])
        if p.get("bystander"):
            try:
                vt.bystanders.append(_bystander(spec))
                o.count("second_experiment_interleaved_in_same_process")
            except Exception:  # noqa: BLE001
                o.count("bystander_not_built")
        vt.run()
        if vt.bystanders:
            o.count("second_experiment_events", vt.bystanders[0].n_events)
    if vt.raised:
        mech = f"raised:{vt.raised[0]}:{vt.raised[1]}:{p['type']}"
        if len(ref_levels) == 1:
            mech += ":single_rung_level"
        o.violate("no_raise", mech, {"raised": vt.raised, "rung_levels": ref_levels, "max_t": p["max_t"]})
    for ev in vt.events[-50:]:
        o.ev(*ev)
    o.set_sig(mon.sig, nontrivial=mon.promotions > 0)
    o.sample = {"params": {k: p.get(k) for k in ("type", "mode", "grace_period", "reduction_factor", "rung_increment", "rung_levels", "max_t", "brackets", "rung_system_per_bracket", "curves", "n_workers", "policy", "use_mra", "checkpointing")},
                "rung_levels": ref_levels, "events": len(vt.events), "promotions": mon.promotions, "trace": mon.sig[:16], "pasha_caps": mon.caps}
    return o.result()
