"""C05 — synchronous Hyperband fills rungs exactly and promotes exactly the top trials.

Engine A (exhaustive small scope, real objects): the real SynchronousHyperbandBracketManager (and the
DEHB manager) is walked over *all* sequences of {next_job, on_result(job, metric), on_result(job, NaN)}
with at most W outstanding jobs and at most D operations (states cloned with copy.deepcopy, visited
states de-duplicated by the validator's state + outstanding jobs + remaining depth), with a reference
validator (stv/refmodels/syncbracket.py) checking every job and every rung transition.

Engine B: SynchronousHyperbandScheduler / geometric variant / DEHB driven by the virtual tuner with
random interleavings across several open brackets and random failure subsets; ``next_job`` of the
public ``bracket_manager`` attribute is wrapped per instance (read-only) to learn which bracket/slot
a suggestion belongs to; suggestions, decisions and failures are validated.
"""
import copy
import math
import random

from stv import envshim  # noqa: F401
from stv import gen
from stv.obs import Obs
from stv.refmodels.syncbracket import BracketValidator
from stv.vtuner import Port, VTuner

ID = "C05"
LEVEL = "exploration"
RULE = (
    "engine A: one case = (rung systems, mode, metric table general/ties, W, D, manager kind) explored exhaustively over "
    "operation sequences; engine B: one case = scheduler kind (custom rung systems / geometric / DEHB / geometric DEHB) x "
    "mode x workers 1-8 x arrival policy x failure subset x with/without max_resource_attr x checkpointing. Distinct = "
    "digest of (engine A) the parameters plus number of states, (engine B) the sequence of (bracket, rung, kind) of all "
    "suggestions and failures; non-trivial = at least one rung completion with promotion."
)
ASSUMPTIONS = [
    "engine A is exhaustive only within its bounds (W outstanding jobs, D operations, the listed rung systems); states "
    "are de-duplicated by the reference validator's state, outstanding jobs and remaining depth",
    "which bracket/slot a suggestion belongs to is observed from the return value of the public bracket_manager.next_job",
    "ties at the promotion cut: any of the tied trials may be promoted",
    "DEHB rung systems are generated with at least 3 slots in the first bracket (the code asserts 'Cannot compose "
    "parent pool of size >= 3' otherwise: an explicit precondition of its mutation step)",
    "DEHB: rung sizes, rung order, bracket creation/cycling, pause/stop decisions and first-bracket promotions are checked; "
    "its evolutionary choice of new configurations is not part of C05",
]
CASE_TIMEOUT = 300
STEP_BUDGET_RERUN = 2_000_000  # interpreted lines per scheduler API call (normal calls: < 2e4)


def case_timeout(spec):
    return 600 if spec["engine"] == "A" else 8
EXHAUSTIVE = False  # only the engine-A sub-cases are; flagged per sample and in extra_coverage

SYSTEMS_A = [
    [[(3, 1), (1, 3)]],
    [[(2, 1), (1, 2)], [(1, 2)]],
    [[(4, 1), (2, 2), (1, 4)], [(2, 2), (1, 4)]],
    [[(4, 1), (2, 2), (1, 4)], [(2, 2), (1, 4)], [(1, 4)]],
    [[(3, 1), (2, 3), (1, 9)]],
    [[(3, 1), (2, 3), (1, 9)], [(3, 3), (1, 9)], [(2, 9)]],
    [[(2, 2), (1, 5)], [(2, 5)]],
    [[(1, 7)]],
    [[(5, 1), (2, 4)]],
    [[(3, 1), (1, 2)], [(2, 2)]],
]


def preload():
    import syne_tune.optimizer.schedulers.synchronous  # noqa: F401
    import syne_tune.optimizer.schedulers.synchronous.dehb_bracket_manager  # noqa: F401
    import syne_tune.optimizer.schedulers.searchers  # noqa: F401


def cases(tier, seed):
    out = []
    W, D = (4, 12) if tier == "quick" else (5, 16)
    for si in range(len(SYSTEMS_A)):
        for table in ("general", "ties"):
            for kind in ("hb", "dehb"):
                if kind == "dehb" and any(
                    SYSTEMS_A[si][k] != SYSTEMS_A[si][0][k:] for k in range(len(SYSTEMS_A[si]))
                ):
                    continue
                for mode in ("min", "max"):
                    out.append({"engine": "A", "system": si, "table": table, "kind": kind, "mode": mode, "W": W, "D": D,
                                "max_states": 40000 if tier == "quick" else 600000})
    n = 1000 if tier == "quick" else 25000
    for i in range(n):
        out.append({"engine": "B", "seed": seed * 15485863 + i * 11 + 5})
    return out


def floors(tier):
    k = 1 if tier == "quick" else 15
    return {
        "A:transitions": 100000 * k,
        "A:cases_fully_enumerated": 20,
        "B:rung_completions_with_promotion": 500 * k,
        "B:cases_with_failed_slot": 200 * k,
        "B:cases_with_>=3_open_brackets": 50 * k,
        "B:promotions_checked": 1000 * k,
        "B:kind:sync_custom": 100 * k,
        "B:kind:sync_geometric": 100 * k,
        "B:kind:dehb": 100 * k,
        "B:kind:dehb_geometric": 100 * k,
        "B:dehb_first_bracket_promotions": 100 * k,
        "B:dehb_first_bracket_promotions_as_new_trial": 50 * k,
        "B:schedules_with_infinite_metric_values": 150 * k,
        "B:slots_failed_for_lack_of_configurations": 20 * k,
        "B:promotions_after_space_ran_dry": 5 * k,
        "B:caller_modifies_its_rung_list_after_construction": 30 * k,
        "B:dehb_slot_metric_checked:target_won_selection": 2000 * k,
    }


def extra_coverage(tier, counters):
    return {
        "states": counters.get("A:states", 0),
        "transitions": counters.get("A:transitions", 0),
        "engine_A_exhaustive_within_bounds": counters.get("A:cases_fully_enumerated", 0),
        "engine_A_truncated_by_state_cap": counters.get("A:cases_truncated", 0),
    }


# ------------------------------------------------------------------------------------ engine A
def _metric(table, trial, rung):
    if table == "ties":
        return float((trial + rung) % 2)
    return ((trial * 7919 + rung * 104729 + 17) % 100003) / 100003.0


def run_engine_a(spec, o):
    from syne_tune.optimizer.schedulers.synchronous.hyperband_bracket_manager import (
        SynchronousHyperbandBracketManager,
    )
    from syne_tune.optimizer.schedulers.synchronous.dehb_bracket_manager import (
        DifferentialEvolutionHyperbandBracketManager,
    )

    systems = SYSTEMS_A[spec["system"]]
    mode, W, D, table = spec["mode"], spec["W"], spec["D"], spec["table"]
    dehb = spec["kind"] == "dehb"
    try:
        if dehb:
            mgr = DifferentialEvolutionHyperbandBracketManager(
                rungs_first_bracket=copy.deepcopy(systems[0]), mode=mode, num_brackets_per_iteration=len(systems))
        else:
            mgr = SynchronousHyperbandBracketManager(copy.deepcopy(systems), mode=mode)
    except Exception as e:  # noqa: BLE001
        o.violate("construction", "manager_constructor_raised:" + type(e).__name__, {"systems": systems, "error": repr(e)[:200]})
        return
    val = BracketValidator(systems, mode, dehb=dehb)
    root = (mgr, val, [], 0)
    stack = [(root, 0, [])]
    seen = {}
    states = transitions = 0
    truncated = False
    first_viol = None
    while stack:
        (m, v, outst, ntrial), depth, path = stack.pop()
        if depth >= D:
            continue
        sig = (v.state_sig(), tuple((k, t) for k, t, _, _ in outst), ntrial)
        rem = D - depth
        if seen.get(sig, -1) >= rem:
            continue
        seen[sig] = rem
        states += 1
        if states > spec["max_states"]:
            truncated = True
            break
        ops = []
        if len(outst) < W:
            ops.append(("N",))
        for j in range(len(outst)):
            ops.append(("R", j))
            ops.append(("F", j))
        for op in ops:
            m2, v2, o2 = copy.deepcopy((m, v, outst))
            nt2 = ntrial
            nv0 = len(v2.viol)
            try:
                if op[0] == "N":
                    job = m2.next_job()
                    if job is None or job[1] is None:
                        v2._v("never_blocks", "next_job_returned_no_job", {})
                        continue
                    b, slot = job
                    key = v2.on_job(b, slot.rung_index, slot.level, slot.slot_index, slot.trial_id)
                    if key is None:
                        pass
                    else:
                        trial = slot.trial_id
                        if trial is None:
                            trial = nt2
                            nt2 += 1
                        o2.append((key, trial, b, slot))
                else:
                    key, trial, b, slot = o2.pop(op[1])
                    metric = float("nan") if op[0] == "F" else _metric(table, trial, key[1])
                    slot.trial_id = trial
                    slot.metric_val = metric
                    m2.on_result((b, slot))
                    v2.on_result(key, trial, metric)
            except Exception as e:  # noqa: BLE001
                v2._v("no_raise", f"raised:{'next_job' if op[0] == 'N' else 'on_result'}:{type(e).__name__}",
                      {"error": repr(e)[:200]})
            transitions += 1
            if len(v2.viol) > nv0:
                if first_viol is None:
                    first_viol = (v2.viol[nv0], path + [op])
                continue  # do not explore beyond a violating state
            stack.append(((m2, v2, o2, nt2), depth + 1, path + [op]))
    o.count("A:states", states)
    o.count("A:transitions", transitions)
    o.count("A:cases_truncated" if truncated else "A:cases_fully_enumerated")
    if first_viol is not None:
        (clause, mech, detail), path = first_viol
        o.violate(clause, mech, {"detail": detail, "ops": path, "systems": systems, "mode": mode, "table": table, "kind": spec["kind"]})
    o.set_sig(("A", spec["system"], table, spec["kind"], mode, states, transitions), nontrivial=transitions > 100)
    o.sample = {"engine": "A", "systems": systems, "mode": mode, "table": table, "manager": spec["kind"], "W": W, "D": D,
                "states": states, "transitions": transitions, "exhaustive_within_bounds": not truncated}


# ------------------------------------------------------------------------------------ engine B
def expand_b(spec):
    rng = random.Random(spec["seed"])
    p = {"kind": rng.choice(["sync_custom", "sync_geometric", "dehb", "dehb_geometric"]),
         "mode": rng.choice(["min", "max"])}
    if p["kind"] in ("sync_custom", "dehb"):
        R = rng.randint(1, 4)
        levels = sorted(rng.sample(range(1, 20), R))
        sizes = sorted(rng.sample(range(1, 9), R), reverse=True)
        first = [[s, l] for s, l in zip(sizes, levels)]
        if p["kind"] == "dehb" and sum(sizes) < 3:
            first[0][0] = first[0][0] + 3  # DEHB asserts a parent pool of >= 3 evaluated trials
        if p["kind"] == "dehb":
            p["rungs_first_bracket"] = first
            # fewer brackets than rungs is a known-broken DEHB configuration (C05-K2): explored, but rarely
            p["num_brackets"] = R if rng.random() < 0.85 else rng.randint(1, R)
        else:
            nb = rng.randint(1, R)
            systems = [first]
            for off in range(1, nb):
                lv = levels[off:]
                sz = sorted(rng.sample(range(1, 9), len(lv)), reverse=True)
                systems.append([[s, l] for s, l in zip(sz, lv)])
            p["bracket_rungs"] = systems
        p["max_level"] = levels[-1]
    else:
        p["grace_period"] = rng.randint(1, 3)
        p["reduction_factor"] = rng.choice([2, 3, 4, 2.5])
        p["max_level"] = rng.choice([4, 8, 9, 16, 27, 30])
        if p["max_level"] <= p["grace_period"]:
            p["max_level"] = p["grace_period"] + 3
        p["brackets"] = rng.choice([None, 1, 2, 3])
        if p["kind"] == "dehb_geometric" and rng.random() < 0.8:
            p["brackets"] = None
    p["curves"] = rng.choice(["continuous", "continuous", "ties", "crossing"])
    p["n_workers"] = rng.randint(1, 8)
    p["policy"] = rng.choice(["uniform", "round_robin", "starve", "burst", "eager"])
    p["max_events"] = rng.randint(60, 500)
    p["use_mra"] = rng.random() < 0.6
    p["checkpointing"] = rng.random() < 0.6
    p["support_pause_resume"] = rng.random() < 0.7
    p["fail_rate"] = rng.choice([0.0, 0.0, 0.1, 0.3])
    p["space"] = gen.small_space(rng, ensure_infinite=True, ordinal_kinds=("equal",))
    # diverged trainings: some trials report +inf / -inf (legal metric values: they rank last / first, they are not failures)
    p["inf_frac"] = rng.choice([0.0, 0.0, 0.1, 0.3])
    p["caller_reuses_rungs"] = rng.random() < 0.4
    if p["kind"].startswith("sync") and rng.random() < 0.2:
        # a finite space that runs dry while a rung is only partly filled: the slot that cannot be filled counts as failed,
        # the trials already started go on and the best of them are promoted (the experiment is continued after the None)
        p["space"] = gen.small_space(rng, finite=True, ordinal_kinds=("equal",))
        p["suggest_after_none"] = rng.randint(2, 12)
        p["fail_rate"] = 0.0
    p.update({k: v for k, v in spec.items() if k not in ("seed", "engine") and not k.startswith("_")})
    return p


def build_sync(p, space, seed):
    from syne_tune.optimizer.schedulers import synchronous as sy

    kw = dict(metric="loss", mode=p["mode"], resource_attr="epoch", random_seed=seed)
    if p["use_mra"]:
        space = dict(space, epochs=p["max_level"])
        kw["max_resource_attr"] = "epochs"
    else:
        kw["max_resource_level"] = p["max_level"]
    if p["kind"] == "sync_custom":
        arg = [[tuple(x) for x in b] for b in p["bracket_rungs"]]
        s = sy.SynchronousHyperbandScheduler(space, bracket_rungs=arg, **kw)
        if p.get("caller_reuses_rungs"):
            # the caller goes on using its own list (e.g. to configure a second, larger experiment): none of the scheduler's business
            for b in arg:
                for i in range(len(b)):
                    b[i] = (b[i][0] + 2 + i, b[i][1] + 1 + i)
                b.append((1, b[-1][1] + 5))
            arg.append([(1, 99)])
    elif p["kind"] == "sync_geometric":
        s = sy.SynchronousGeometricHyperbandScheduler(
            space, grace_period=p["grace_period"], reduction_factor=p["reduction_factor"], brackets=p["brackets"], **kw)
    elif p["kind"] == "dehb":
        arg = [tuple(x) for x in p["rungs_first_bracket"]]
        s = sy.DifferentialEvolutionHyperbandScheduler(
            space, rungs_first_bracket=arg,
            num_brackets_per_iteration=p["num_brackets"], support_pause_resume=p["support_pause_resume"], **kw)
    else:
        s = sy.GeometricDifferentialEvolutionHyperbandScheduler(
            space, grace_period=p["grace_period"], reduction_factor=p["reduction_factor"], brackets=p["brackets"],
            support_pause_resume=p["support_pause_resume"], **kw)
    if p["kind"] == "dehb" and p.get("caller_reuses_rungs"):
        for i in range(len(arg)):
            arg[i] = (arg[i][0] + 2 + i, arg[i][1] + 1 + i)
        arg.append((1, arg[-1][1] + 5))
    return s


class MonitorB:
    def __init__(self, o, p, sched, val, joblog):
        self.o, self.p, self.sched, self.val, self.joblog = o, p, sched, val, joblog
        self.pending = {}  # trial id -> (key, bracket, level)
        self.sig = []
        self.dehb = p["kind"].startswith("dehb")
        self.nv = 0
        self.dehb_assigned = {}
        self.sfx = ""
        if self.dehb:
            nb = len(sched.bracket_manager.bracket_rungs)
            if nb < len(sched.bracket_manager.bracket_rungs[0]):
                self.sfx = ":fewer_brackets_than_rungs"

    def _flush(self):
        while self.nv < len(self.val.viol):
            c, m, d = self.val.viol[self.nv]
            self.o.violate(c, m, d)
            self.nv += 1

    def pre_suggest(self, vt, next_id):
        self.joblog.clear()

    def post_suggest(self, vt, next_id, sugg, t):
        o, p = self.o, self.p
        if sugg is None and p.get("suggest_after_none"):
            # finite space used up: legitimate. The slot handed out by next_job for this request cannot be filled and counts as
            # failed (documented in _suggest: 'the slot is reported as failed'), so that its rung can still complete.
            o.count("B:none_on_finite_space")
            if len(self.joblog) == 1:
                b, slot = self.joblog[0]
                key = self.val.on_job(b, slot["rung_index"], slot["level"], slot["slot_index"], slot["trial_id"])
                self._flush()
                if key is not None:
                    before = self.val.stats["rung_completions"]
                    self.val.on_result(key, None, float("nan"))
                    o.count("B:slots_failed_for_lack_of_configurations")
                    self._after_result(b, slot["rung_index"], before)
            return
        if sugg is None:
            ctx = "after_failed_slot" if self.val.stats["failed_slots"] > 0 else "no_failure_before"
            o.violate("never_blocks", f"{'dehb' if self.dehb else 'sync'}:suggest_returned_None_on_infinite_space:{ctx}{self.sfx}", {"next_id": next_id})
            vt.stop = True
            return
        if len(self.joblog) != 1:
            o.inconclusive("next_job_not_observed")
            return
        b, slot = self.joblog[0]
        key = self.val.on_job(b, slot["rung_index"], slot["level"], slot["slot_index"],
                              None if self.dehb else slot["trial_id"])
        self._flush()
        o.count("B:suggestions")
        if t is None:
            return
        tid = t.trial_id
        if key is None:
            return
        resume = not sugg.spawn_new_trial_id
        self.sig.append((b, slot["rung_index"], "R" if resume else "S"))
        if resume and getattr(vt, "none_seen", 0) > 0:
            o.count("B:promotions_after_space_ran_dry")
        if not self.dehb:
            if resume != (slot["trial_id"] is not None):
                o.violate("promotion_is_resume", "suggestion_kind_disagrees_with_job", {"resume": resume, "job_trial": slot["trial_id"]})
            if resume and tid != slot["trial_id"]:
                o.violate("promote_exactly_top", "resumed_trial_is_not_the_promoted_one", {"resumed": tid, "job_trial": slot["trial_id"]})
        else:
            # DEHB: in bracket 0, rung r>0, slot i is the i-th best of the rung below (documented:
            # 'trials are not paused and potentially promoted (except in the very first bracket)')
            if b == 0 and slot["rung_index"] > 0:
                allowed = self.val.brackets[0].get("allowed")
                if resume and allowed is not None:
                    o.count("B:dehb_first_bracket_promotions")
                    must, may = allowed
                    assigned = self.dehb_assigned.setdefault((b, slot["rung_index"]), set())
                    if tid in assigned:
                        o.violate("rung_filled_by_distinct_trials", "dehb_trial_promoted_twice_into_rung", {"trial": tid})
                    elif tid not in must and tid not in may:
                        o.violate("promote_exactly_top", "dehb_first_bracket_promotes_trial_not_among_top",
                                  {"resumed": tid, "must": sorted(must), "may": sorted(may),
                                   "previous": self.val.brackets[0].get("prev_results")})
                    assigned.add(tid)
                elif not resume and p["support_pause_resume"]:
                    o.count("B:dehb_first_bracket_new_trial_instead_of_resume")
                elif not resume and allowed is not None:
                    # support_pause_resume=False: 'promotion as in synchronous HB, but we assign new trial_id' -- the new
                    # trial evaluates the configuration of one of the top trials of the rung below
                    o.count("B:dehb_first_bracket_promotions_as_new_trial")
                    must, may = allowed
                    keys = [k for k, d in p["space"].items() if d[0] != "const"]
                    cfg = {k: t.config.get(k) for k in keys}
                    src = [x for x in list(must) + list(may) if x in vt.trials and {k: vt.trials[x].config.get(k) for k in keys} == cfg]
                    assigned = self.dehb_assigned.setdefault((b, slot["rung_index"]), set())
                    src = [x for x in src if x not in assigned] or src
                    if not src:
                        o.violate("promote_exactly_top", "dehb_first_bracket_new_trial_config_is_not_that_of_a_top_trial",
                                  {"config": cfg, "must": sorted(must), "may": sorted(may)})
                    else:
                        assigned.add(src[0])
            elif resume:
                o.violate("promotion_is_resume", "dehb_resumes_outside_first_bracket", {"bracket": b, "rung": slot["rung_index"]})
        if p["use_mra"]:
            cfg = sugg.config if sugg.config is not None else t.config
            if cfg.get("epochs") != slot["level"]:
                o.violate("resume_to_next_rung_level", "resource_target_differs_from_rung_level",
                          {"got": cfg.get("epochs"), "level": slot["level"]})
        self.pending[tid] = (key, b, slot["level"], slot["rung_index"])

    def post_result(self, vt, t, result, decision):
        o = self.o
        tid = t.trial_id
        pend = self.pending.get(tid)
        if pend is None:
            o.inconclusive("result_for_untracked_trial")
            return
        key, b, level, rung_index = pend
        r = result["epoch"]
        if r < level:
            if decision != "CONTINUE":
                o.violate("decision_at_rung_level_only", f"decision_{decision}_before_rung_level", {"resource": r, "level": level})
            return
        exp = "PAUSE"
        if self.dehb and not (self.p["support_pause_resume"] and b == 0):
            exp = "STOP"
        o.count("B:milestone_decisions")
        if decision != exp:
            o.violate("pause_at_rung_level", f"decision_{decision}_expected_{exp}_at_rung_level", {"resource": r, "level": level, "bracket": b})
        winner, metric = tid, result["loss"]
        if self.dehb:
            # DEHB's selection step may put an earlier trial (the target) into the slot; C05 does not
            # constrain that choice: read which trial/metric the bracket received (read-only)
            rec = self.slot_results.pop(0) if self.slot_results else None
            if rec is None:
                o.inconclusive("dehb_slot_result_not_observed")
                return
            winner, metric = rec
            # ... but whichever trial occupies the slot, the rung must rank it by a value that trial reported (the 'best ones
            # of the completed rung' are decided by these values). DEHB uses the slot trial's most recent value, which for a
            # target promoted in the first bracket meanwhile may stem from a higher level: counted, not judged.
            wt = vt.trials.get(winner)
            vals = [] if wt is None else [v for (_rn, lv, v, _d) in wt.reports]
            if vals and not any(metric == v for (_rn, lv, v, _d) in wt.reports if lv == level) and any(metric == v for v in vals):
                o.count("B:dehb_slot_ranked_by_value_from_another_level")
            if vals:
                o.count("B:dehb_slot_metric_checked")
                if winner != tid:
                    o.count("B:dehb_slot_metric_checked:target_won_selection")
                if not any(metric == v for v in vals):
                    o.violate("best_of_completed_rung", "dehb:slot_ranked_by_a_value_its_trial_did_not_report:"
                              + ("target_won_selection" if winner != tid else "new_trial_won"),
                              {"slot_trial": winner, "evaluated_trial": tid, "level": level, "slot_metric": metric, "reported_at_level": vals[:5]})
            else:
                o.count("B:dehb_slot_trial_without_report_at_level")
        before = self.val.stats["rung_completions"]
        self.val.on_result(key, winner, metric)
        self._after_result(b, rung_index, before)
        del self.pending[tid]

    def _after_result(self, b, rung_index, before):
        if self.val.stats["rung_completions"] > before:
            br = self.val.brackets[b]
            if br["cur"] < len(br["rungs"]):
                self.o.count("B:rung_completions_with_promotion")
        self._flush()

    def post_error(self, vt, t):
        tid = t.trial_id
        pend = self.pending.pop(tid, None)
        if pend is None:
            return
        key, b, level, rung_index = pend
        self.o.count("B:failures")
        if self.dehb and self.slot_results:
            self.slot_results.pop(0)
        before = self.val.stats["rung_completions"]
        self.val.on_result(key, tid, float("nan"))
        self._after_result(b, rung_index, before)


def run_engine_b(spec, o):
    p = expand_b(spec)
    space = gen.build_space(p["space"])
    try:
        sched = build_sync(p, space, spec["seed"] % (2**31))
    except Exception as e:  # noqa: BLE001
        mech = "constructor_raised:" + type(e).__name__
        if "are not increasing" in repr(e) and p["kind"].endswith("geometric"):
            mech += ":geometric_rung_level_rounds_to_max_level"
        o.violate("construction", mech, {"params": {k: v for k, v in p.items() if k != "space"}, "error": repr(e)[:300]})
        return
    o.count("B:kind:" + p["kind"])
    mgr = sched.bracket_manager
    systems = [[tuple(x) for x in b] for b in mgr.bracket_rungs]
    dehb = p["kind"].startswith("dehb")
    if p["kind"] == "sync_custom":
        # the rung systems the scheduler was configured with are the reference, not what the manager says they are now
        conf = [[tuple(x) for x in b] for b in p["bracket_rungs"]]
        o.count("B:configured_rung_systems_compared")
        if p.get("caller_reuses_rungs"):
            o.count("B:caller_modifies_its_rung_list_after_construction")
        if conf != systems:
            o.violate("brackets_cycle_through_configured_systems", "sync:rung_systems_in_use_differ_from_the_configured_ones"
                      + (":caller_modified_its_list_after_construction" if p.get("caller_reuses_rungs") else ""),
                      {"configured": conf, "in_use": systems})
            systems = conf
    val = BracketValidator(systems, p["mode"], dehb=dehb)
    joblog = []
    orig_next = mgr.next_job

    def next_job():
        r = orig_next()
        b, s = r
        joblog.append((b, {"rung_index": s.rung_index, "level": s.level, "slot_index": s.slot_index, "trial_id": s.trial_id}))
        return r

    mgr.next_job = next_job
    slot_results = []
    if dehb:
        orig_res = mgr.on_result

        def on_result(result):
            slot_results.append((result[1].trial_id, result[1].metric_val))
            return orig_res(result)

        mgr.on_result = on_result
    base_curves = gen.Curves(p["curves"], spec["seed"] + 1, p["max_level"])
    curves = base_curves
    if p.get("inf_frac"):
        inf_seed = spec["seed"] * 13 + 5

        def curves(tid, level, cfg=None, _f=p["inf_frac"]):
            rr = random.Random(inf_seed + tid * 7919)
            if rr.random() < _f:
                return rr.choice([float("inf"), float("-inf")])
            return base_curves(tid, level, cfg)

        o.count("B:schedules_with_infinite_metric_values")
    mon = MonitorB(o, p, sched, val, joblog)
    mon.slot_results = slot_results
    rng = random.Random(spec["seed"] + 3)
    fail = dict(p.get("fail") or {})
    if p["fail_rate"] > 0 and not fail:
        for tid in range(200):
            if rng.random() < p["fail_rate"]:
                fail[str(tid)] = [rng.choice([0, 0, 1]), rng.randint(0, 2)]
    vp = {"n_workers": p["n_workers"], "max_t": p["max_level"], "metric": "loss", "resource_attr": "epoch",
          "policy": p["policy"], "seed": spec["seed"] + 2, "max_events": p["max_events"],
          "max_resource_attr": "epochs" if p["use_mra"] else None, "checkpointing": p["checkpointing"],
          "fail": fail, "order": p.get("order"), "pbt_restart_levels": True, "suggest_after_none": p.get("suggest_after_none", 0)}
    vt = VTuner(Port(sched, step_budget=spec.get("_stepbudget")), vp, curves, monitors=[mon]).run()
    mon._flush()
    fam = "dehb" if dehb else "sync"
    ctx = "after_failed_slot" if val.stats["failed_slots"] > 0 else "no_failure_before"
    if vt.raised:
        if vt.raised[1] == "resume_of_non_paused" and vt.raised[3] == "failed" and not dehb:
            # documented in get_top_list: if fewer valid entries than slots, failed trials fill the next
            # rung (they rank last). Allowed by C05 (the validator has checked the trial is in the top
            # list); what a *tuner* can do with such a resume is C13's business. The run ends here.
            o.count("B:failed_trial_promoted_for_lack_of_valid_entries")
        else:
            if dehb and vt.raised[1] == "AssertionError" and "parent pool" in str(vt.raised[2]):
                # DEHB's mutation step needs 3 evaluated trials (its own TODO); the key names that assertion only
                mech = f"dehb:{vt.raised[0]}:AssertionError:parent_pool_too_small"
            else:
                mech = f"{fam}:{vt.raised[0]}:{vt.raised[1]}:{ctx}{mon.sfx}"
            o.violate("no_raise" if vt.raised[1] != "StepBudgetExceeded" else "never_blocks",
                      mech, {"raised": vt.raised, "kind": p["kind"], "systems": systems, "n_workers": p["n_workers"]})
    for ev in vt.events[-50:]:
        o.ev(*ev)
    st = val.stats
    o.count("B:promotions_checked", st["promotions_checked"])
    o.count("B:jobs", st["jobs"])
    if st["failed_slots"] > 0:
        o.count("B:cases_with_failed_slot")
    if st["max_open"] >= 3:
        o.count("B:cases_with_>=3_open_brackets")
    o.count("B:ties_at_cut", st["ties_at_cut"])
    o.set_sig(("B", p["kind"], mon.sig), nontrivial=st["rung_completions"] > 0 and len(mon.sig) > 2)
    o.sample = {"engine": "B", "params": {k: v for k, v in p.items() if k != "space"}, "systems": systems,
                "events": len(vt.events), "validator": st, "trace": mon.sig[:20]}


def run_case(spec):
    o = Obs()
    if spec["engine"] == "A":
        run_engine_a(spec, o)
    else:
        run_engine_b(spec, o)
    return o.result()
