"""C06 — suggestions are valid typed configurations; initial points first; no repeats; 'nothing left'
only once a finite space is used up.

Monitor: the real schedulers / searchers are driven along generated histories (virtual tuner: results,
failures, pending trials; plus direct use of RandomSearcher / GridSearcher) on configuration spaces
built from every public domain constructor for which C07 holds (plus constants and one-point domains).
Every ``TrialSuggestion`` returned by ``suggest`` is judged by an oracle written from the
documentation:

(1) keys / constants / type / membership (membership oracle imported from stv.props.c07);
(2) the first fresh suggestions equal an independent reference of the documented
    ``points_to_evaluate`` handling (given entries kept and cast, missing entries by the mid-point
    rule, later duplicates dropped, None => one default configuration, [] => none), in order;
(3) searchers which promise not to repeat themselves: a new-trial configuration never equals an
    earlier suggested (pending / failed / finished) one — exact tuple equality; the library's match
    string is evaluated as a secondary, counted-only signal;
(4) ``None`` only if the space is finite and every one of its configurations has been suggested;
    grid search: each grid point exactly once, then ``None`` (cycles when duplicates are allowed).
"""
import math
import random

from stv import envshim  # noqa: F401
from stv import gen
from stv.obs import Obs
from stv.props import c07
from stv.vtuner import Port, VTuner

import numpy as np

ID = "C06"
LEVEL = "exploration"
RULE = (
    "case = searcher/scheduler kind (FIFO random, FIFO grid, FIFO GP-BO, Hyperband+GP-BO, Hyperband+HyperTune, synchronous "
    "Hyperband+random, DEHB random_encoded, PBT, FIFO regularised evolution, RandomSearcher / GridSearcher used directly) x "
    "configuration space (1-4 domains from every public constructor for which C07 holds, generic and degenerate "
    "parameters, one-point domains, 0-2 constants, key order different from sorted order; small finite spaces for "
    "exhaustion) x points_to_evaluate (None, [], partial, full, duplicates incl. duplicates by imputation, values given "
    "in another numeric type) x allow_duplicates x history (1-4 workers, arrival policy, 5-60 events, failure plan; "
    "exhaustion cases up to 150 events; 30-40 % of the random / GP / synchronous-Hyperband histories use the search option "
    "restrict_configurations (3-12 members of the space; points_to_evaluate drawn from the list at shuffled positions, plus "
    "configurations outside it, duplicates, the default) and are driven until the list is used up; GP kinds, random, grid and regularised evolution also get NaN / +-inf metric "
    "values: 0-6 % of the reports and 0-40 % of the trials reporting nothing else, most on small finite spaces); 780 histories per quick run, 16 x in the thorough tier. Distinct = digest of (kind, sequence of suggestion tags "
    "initial/new/explore/resume/None with the status of repeated trials, space shape); non-trivial = at least one "
    "suggestion after the initial points."
)
ASSUMPTIONS = [
    "configuration spaces use only constructor arguments for which C07 holds: excluded are qrandint/qlograndint whose q does "
    "not divide the bounds (C07-F2), quniform/qloguniform whose bounds are not exact multiples of q (C07-F4), ordinal nn / "
    "nn-log with one category (C07-F6), uniform/loguniform with integer-typed lower == upper (C07-F10), tiny "
    "reverseloguniform (C07-F11), logfinrange cast_int with spacing comparable to the rounding (C07-F12); a space with a "
    "quantised domain always also has a plain continuous domain (whether a quantised domain is finite is not defined)",
    "member / right type as in C07: isinstance(value, domain.value_type) (numpy.float64 is a float, numpy integers are not "
    "int), inside the bounds / one of the listed values as given to the constructor; quantised: inside the bounds",
    "typing is judged on what scheduler.suggest returns (the statement: 'every configuration a scheduler suggests'); with "
    "direct searcher use numpy scalars are unwrapped first and counted (note:searcher_level_numpy_scalar)",
    "the entry named by max_resource_attr is the documented exception to 'constants unchanged' (TrialScheduler._suggest: "
    "values returned for constant parameters take precedence; used by promotion-type and synchronous Hyperband)",
    "mid-point rule (docs/source/schedulers.rst, searcher.py docstrings): float / int: middle of the range in linear or "
    "log scale (int: a tie x.5 may round either way); categorical: first entry; ordinal kind='equal': first entry (docs: "
    "categorical) or a middle entry (code comment) are both accepted; ordinal nn / finite range: the value nearest to the "
    "numeric mid-point (ties either way); quantised log domains: arithmetic or geometric mid-point accepted; float "
    "comparison band 1e-12 relative to the larger bound. Where two values are acceptable the one the library returns for "
    "the default configuration is used consistently in the reference",
    "given entries are exact members (possibly written in another numeric type: 2 for 2.0, 3.0 for 3); 'kept and cast' = "
    "value_type(given) compared exactly; DEHB documents that it stores encoded configurations: a continuous value may "
    "come back inside the C07 round-trip band (1e-7 relative), counted as roundoff_band",
    "clause 2 is evaluated on *fresh* new-trial suggestions: PBT exploit/explore suggestions (checkpoint_trial_id set) and "
    "DEHB first-bracket promotions that are issued under a new trial id (documented) are continuations, not draws",
    "clause 3 is evaluated for searchers created with allow_duplicates=False (default) and for DEHB; PBT and regularised "
    "evolution make no such promise (membership / typing / initial points / None only); equality is exact tuple equality of "
    "the hyperparameter values; equal match strings with different values are counted only",
    "clause 4: size of a finite space = product of the numbers of distinct values of its domains (float domain: 1 if lower == "
    "upper else infinite); grid: the grid is not compared point by point for float / sub-sampled integer dimensions "
    "(positions are not documented), but it must be a full Cartesian product with the documented number of values per "
    "dimension, each point exactly once, initial points excluded",
    "a space with a continuous domain of relative width <= 1e-4 is infinite by its constructor but has few configurations "
    "that the library's documented approximate equality (Domain.match_string, 7 significant digits) can tell apart: "
    "None on such a space and the [] check are counted (undecided:*), not judged; two different initial points with "
    "equal match strings make clause 2 undecided for that history",
    "DEHB is run with as many brackets as rungs and without failures (C05-K2, C05-K3); PASHA is not used (C04-K1)",
    "restricted search (restrict_configurations): the finite space is the list; documented: points_to_evaluate entries outside "
    "the list are removed; every suggestion must be a member of the list, the remaining initial points come first, each "
    "member at most once, None only once all members were suggested. The GP searchers raise when asked again after the list "
    "is used up (finding): most restricted GP histories stop asking then (stopping-type Hyperband, as many trials as members)",
    "non-finite metric values are not given to synchronous Hyperband / DEHB (NaN is their documented encoding of a failed "
    "slot: C05 / C13) and PBT; whatever happened to an earlier trial (failed, finished on NaN / inf, stopped), its "
    "configuration counts as suggested",
    "GP searchers are run with cheap fitting (opt_maxiter 5-10, num_init_random 2-3, opt_nstarts 1)",
    "a runtime contract runs on the real ExclusionList (patched in place during a case): contains() must agree with a shadow "
    "set of the configurations added, keyed as documented by Domain.match_string (exact for discrete values, 7 significant "
    "digits for floats); the private exclusion lists are additionally read when None is returned, only to choose between the "
    "mechanism keys ':retries_exhausted' and ':exclusion_list_full' (degrades to ':unknown')",
    "direct face of clause 1: for the space of every case, cube corners and vectors with coordinates exactly 0.0 / 1.0 are "
    "decoded through the public HyperparameterRanges.from_ndarray (the path the GP searchers and DEHB use) and must be "
    "members, bounds exact; about 30 % of the unrestricted GP histories use log / reverse-log scaled boxes with bounds that "
    "do not survive exp(log(b)) and a metric monotone in every parameter, so that local optimisation ends on the boundary",
    "an exception out of suggest() is a violation; an exception out of another scheduler API ends the history and is "
    "counted (other_api_raised:*), it belongs to other properties",
]
CASE_TIMEOUT = 240
SHARDS_PER_JOB = 4

KINDS = ["random", "grid", "bayesopt", "hb_bayesopt", "hypertune", "sync_hb", "dehb", "pbt", "regevo",
         "direct_random", "direct_grid"]
GP_KINDS = ("bayesopt", "hb_bayesopt", "hypertune")
# 780 histories (quick); thorough: 16 x
PLAN = {"random": 100, "grid": 100, "bayesopt": 44, "hb_bayesopt": 60, "hypertune": 52, "sync_hb": 76, "dehb": 90,
        "pbt": 80, "regevo": 48, "direct_random": 80, "direct_grid": 50}


def preload():
    import syne_tune.optimizer.schedulers  # noqa: F401
    import syne_tune.optimizer.schedulers.searchers  # noqa: F401
    import syne_tune.optimizer.schedulers.synchronous  # noqa: F401
    import syne_tune.optimizer.schedulers.pbt  # noqa: F401
    import syne_tune.optimizer.schedulers.searchers.regularized_evolution  # noqa: F401
    import syne_tune.optimizer.schedulers.searchers.gp_fifo_searcher  # noqa: F401
    import syne_tune.optimizer.schedulers.searchers.gp_multifidelity_searcher  # noqa: F401
    import syne_tune.optimizer.schedulers.searchers.hypertune  # noqa: F401


def cases(tier, seed):
    mult = 1 if tier == "quick" else 16
    out = []
    i = 0
    for rep in range(mult):
        for kind in KINDS:
            for _ in range(PLAN[kind]):
                out.append({"kind": kind, "seed": seed * 7368787 + i * 29 + 11})
                i += 1
    # interleave kinds so that every shard gets a similar mix (GP cases are the expensive ones)
    random.Random(seed).shuffle(out)
    return out


def floors(tier):
    k = 1 if tier == "quick" else 12
    f = {f"post_initial:{kind}": 200 * k for kind in KINDS}
    f.update({f"restricted_sets_fully_suggested:{kind}": 5 * k for kind in RC_KINDS})
    f.update({
        "pbt_explore_suggestions": 200 * k,
        "gp_model_based_suggestions": 60 * (1 if tier == "quick" else 25),
        "exhausted_spaces": 30 * k,
        "exhausted_grids": 30 * k,
        "decided:membership": 8000 * k,
        "decided:config_keys": 5000 * k,
        "decided:initial_point": 800 * k,
        "decided:midpoint_rule": 500 * k,
        "decided:no_repeat": 3000 * k,
        "decided:exclusion_contains": 100000 * k,
        "decided:none": 60 * k,
        "no_repeat_with_pending_trial": 1000 * k,
        "no_repeat_with_failed_trial": 500 * k,
        "initial:partial": 50 * k,
        "initial:duplicates_dropped": 30 * k,
        "initial:none_default": 80 * k,
        "initial:empty": 40 * k,
        "histories_with_failure": 60 * k,
        "initial_points_with_conflicting_constant": 100 * k,
        "initial_points_with_key_outside_space": 60 * k,
        "restricted_lists_with_duplicate_entries": 25 * k,
        "exhaustion_decided_on_restricted_list_with_duplicates": 8 * k,
        "restricted_lists_with_duplicates_fully_suggested": 20 * k,
        "dehb_with_searcher:random": 8 * k,
        "dehb_with_searcher:bayesopt": 3 * k,
        "dehb_suggestions_beyond_first_bracket_with_searcher": 100 * k,
        "decided:cube_corner_decode": 15000 * k,
        "cube_corner_decode_clipped_onto_log_bound": 150 * k,
        "gp_suggestion_clipped_onto_non_round_tripping_log_bound": 8 * k,
        "nearly_exhausted_medium_space:bayesopt": 2 * k,
        "nearly_exhausted_medium_space:hb_bayesopt": 2 * k,
        "nearly_exhausted_medium_space:hypertune": 2 * k,
        "restricted_sets_fully_suggested": 60 * k,
        "exhausted_restricted_sets": 20 * k,
        "decided:in_restricted_set": 400 * k,
        "initial_from_restricted_list_at_other_position": 80 * k,
        "initial_outside_restricted_list_dropped": 15 * k,
        "nonfinite_reports": 150 * k,
        "trials_finished_with_nonfinite_metric": 60 * k,
        "no_repeat_after_trial_finished_on_nonfinite_metric": 300 * k,
    })
    return f


# ------------------------------------------------------------------------------------------ spaces

CONST = "const"


def c07_holds(P):
    """Constructor arguments for which C07 holds (open C07 findings are not re-reported here)."""
    ctor = P["ctor"]
    cond = c07._cond(P)
    if ctor in ("qrandint", "qlograndint") and cond == "q_not_dividing":
        return False  # C07-F2
    if ctor in ("quniform", "qloguniform") and cond == "q_divides_inexactly":
        return False  # C07-F4
    if ctor in ("ordinal_nn", "ordinal_nnlog") and len(P["categories"]) < 2:
        return False  # C07-F6
    if ctor in ("uniform", "loguniform") and P["lower"] == P["upper"] and isinstance(P["lower"], int):
        return False  # C07-F10
    if ctor == "reverseloguniform" and cond == "tiny":
        return False  # C07-F11
    if ctor == "logfinrange_int" and cond in ("cast_int_dense", "cast_int_collision"):
        return False  # C07-F12
    return True


def _is_quantised(P):
    return P["ctor"] in ("quniform", "qloguniform", "qrandint", "qlograndint")


def _is_plain_continuous(P):
    return P["ctor"] in ("uniform", "loguniform", "reverseloguniform") and P["lower"] < P["upper"]


def _small_finite(rng, allow_collision=True):
    """One small finite domain (1-4 values), incl. one-point domains."""
    k = rng.choice(["randint", "randint", "lograndint", "choice", "choice", "ordinal_equal", "ordinal_nn", "ordinal_nnlog",
                    "finrange", "logfinrange", "finrange_int", "logfinrange_int", "one_float"])
    if k == "randint":
        lo = rng.randint(-3, 5)
        return {"ctor": "randint", "lower": lo, "upper": lo + rng.choice([0, 0, 1, 2, 3])}
    if k == "lograndint":
        lo = rng.randint(1, 4)
        return {"ctor": "lograndint", "lower": lo, "upper": lo + rng.choice([0, 1, 2, 3])}
    if k in ("choice", "ordinal_equal"):
        n = rng.choice([1, 1, 2, 3, 4])
        tp = rng.choice(["str", "str", "int", "float"])
        if tp == "str":
            cats = rng.sample(["a", "b", "relu", "tanh", "", " ", "A", "0", "1.0", "None", "x y"], n)
        elif tp == "int":
            cats = rng.sample(range(-9, 30), n)
        else:
            cats = [round(rng.uniform(-5, 5), 3) for _ in range(n)]
            cats = list(dict.fromkeys(cats))
        P = {"ctor": k, "categories": cats}
        if k == "ordinal_equal":
            inc = not isinstance(cats[0], str) and len(cats) > 1 and all(x < y for x, y in zip(cats, cats[1:]))
            P["via"] = "ordinal" if inc else rng.choice(["ordinal", "default"])
        return P
    if k in ("ordinal_nn", "ordinal_nnlog"):
        n = rng.randint(2, 4)
        if rng.random() < 0.6:
            cats = sorted(rng.sample(range(1, 60), n))
        else:
            cats = sorted({round(rng.uniform(0.01, 9.0), 3) for _ in range(n + 2)})[:n]
            if len(cats) < 2:
                cats = [0.5, 2.0]
        P = {"ctor": k, "categories": cats}
        P["via"] = rng.choice(["ordinal", "logordinal"]) if k == "ordinal_nnlog" else rng.choice(["ordinal", "default"])
        return P
    if k == "one_float":
        x = rng.choice([0.0, 0.25, 1.5, -2.0, 1e-3])
        if rng.random() < 0.5 and x > 0:
            return {"ctor": "loguniform", "lower": x, "upper": x}
        return {"ctor": "uniform", "lower": x, "upper": x}
    size = rng.choice([1, 2, 2, 3, 4])
    if k == "finrange":
        lo = rng.choice([0.0, -1.0, 0.1, 2.5])
        return {"ctor": k, "lower": lo, "upper": lo + rng.choice([1.0, 0.5, 3.0]), "size": size}
    if k == "logfinrange":
        lo = rng.choice([1e-3, 0.1, 1.0])
        return {"ctor": k, "lower": lo, "upper": lo * rng.choice([10.0, 100.0, 2.0]), "size": size}
    if k == "finrange_int":
        lo = rng.randint(-3, 6)
        if allow_collision and rng.random() < 0.12 and size >= 3:
            return {"ctor": k, "lower": lo, "upper": lo + rng.randint(1, size - 2), "size": size}  # rounding collides
        return {"ctor": k, "lower": lo, "upper": lo + (size - 1) * rng.randint(1, 4) if size > 1 else lo + 2, "size": size}
    lo = rng.randint(2, 6)  # logfinrange_int: ratio >= 2 between neighbours (C07-F12 excluded)
    return {"ctor": k, "lower": lo, "upper": lo * 2 ** max(size - 1, 1) * rng.randint(1, 2), "size": size}


def _any_domain(rng, max_cats=8, max_fin=12):
    """One domain from the C07 generator, restricted to arguments for which C07 holds."""
    for _ in range(50):
        ctor = rng.choice(c07.CTORS)
        cell = "generic" if rng.random() < 0.7 else "degenerate"
        P = c07._gen_params(rng, ctor, cell)
        if "categories" in P and len(P["categories"]) > max_cats:
            P["categories"] = P["categories"][:max_cats]
            if len(P["categories"]) == 1 and ctor in ("ordinal_nn", "ordinal_nnlog"):
                continue
        if "size" in P and P["size"] > max_fin:
            continue
        try:
            if not c07_holds(P):
                continue
            if ctor.endswith("_int") and (P["lower"] != round(P["lower"]) or P["upper"] != round(P["upper"])) \
                    and rng.random() < 0.85:
                continue  # cast_int ranges with non-integer bounds: a given member can be rejected (see findings): rarely
        except Exception:  # noqa: BLE001 - condition not computable for a truncated parameter set
            continue
        return P
    return {"ctor": "uniform", "lower": 0.0, "upper": 1.0}


_NAMES = ["lr", "b", "Z", "a2", "width", "h0", "_x", "m"]
_CONSTS = [["dataset", "abc"], ["n_layers", 7], ["scale", 0.5], ["tag", ""]]


def dom_count(P):
    """Number of distinct values of a domain as documented (None = infinite)."""
    ctor = P["ctor"]
    fam = c07.FAM[ctor]
    if fam == "float":
        return 1 if P["lower"] == P["upper"] else None
    if fam == "int":
        return P["upper"] - P["lower"] + 1
    if fam == "cat":
        return len(set(P["categories"]))
    return len(set(c07._ref_values(P)[0]))


def space_size(desc):
    size = 1
    for P in desc.values():
        if P["ctor"] == CONST:
            continue
        n = dom_count(P)
        if n is None:
            return None
        size *= n
    return size


def _gen_format(desc):
    """The same space in the description format of stv.gen (None if not expressible): used to cross-check space_size
    against gen.space_size."""
    out = {}
    for k, P in desc.items():
        c = P["ctor"]
        if c == CONST:
            out[k] = ["const", P["value"]]
        elif c in ("randint", "lograndint"):
            out[k] = [c, P["lower"], P["upper"]]
        elif c in ("uniform", "loguniform") and P["lower"] < P["upper"]:
            out[k] = [c, P["lower"], P["upper"]]
        elif c in ("choice", "ordinal_equal", "ordinal_nn", "ordinal_nnlog") and len(set(P["categories"])) == len(P["categories"]):
            out[k] = ["choice", list(P["categories"])]
        elif c in ("finrange", "logfinrange") and len(set(c07._ref_values(P)[0])) == P["size"]:
            out[k] = [c, P["lower"], P["upper"], P["size"]]
        else:
            return None
    return out


def gen_space(rng, profile):
    """JSON description of a configuration space: name -> C07 parameter dict | {'ctor': 'const', 'value': v}."""
    names = list(_NAMES)
    rng.shuffle(names)
    desc = {}
    if profile == "finite":
        for _ in range(8):
            n = rng.randint(1, 3)
            doms = [_small_finite(rng) for _ in range(n)]
            sz = 1
            for P in doms:
                sz *= dom_count(P)
            if 2 <= sz <= 40:
                break
        else:
            doms = [{"ctor": "randint", "lower": 0, "upper": 3}, {"ctor": "choice", "categories": ["a", "b"]}]
    elif profile == "gp":
        n = rng.randint(1, 3)
        doms = [(_small_finite(rng) if rng.random() < 0.3 else _any_domain(rng, max_cats=5, max_fin=8)) for _ in range(n)]
    else:
        n = rng.randint(1, 4)
        doms = [(_small_finite(rng) if rng.random() < 0.35 else _any_domain(rng)) for _ in range(n)]
    for P in doms:
        desc[names.pop()] = P
    if profile != "finite":
        if any(_is_quantised(P) for P in doms) and not any(_is_plain_continuous(P) for P in doms):
            desc[names.pop()] = {"ctor": "uniform", "lower": 0.0, "upper": 1.0}
    consts = list(_CONSTS)
    rng.shuffle(consts)
    for j in range(rng.choice([0, 0, 1, 1, 2])):
        # constants are inserted at random positions of the dict order
        name, val = consts[j]
        items = list(desc.items())
        pos = rng.randint(0, len(items))
        items.insert(pos, (name, {"ctor": CONST, "value": val}))
        desc = dict(items)
    return desc


def gen_grid_space(rng):
    """Space for grid search: small finite domains plus up to two float / integer dimensions with num_samples."""
    names = list(_NAMES)
    rng.shuffle(names)
    for _ in range(20):
        desc, ns, total = {}, {}, 1
        for _i in range(rng.randint(1, 3)):
            r = rng.random()
            name = names[len(desc)]
            if r < 0.55:
                P = _small_finite(rng)
                n = dom_count(P)
                if P["ctor"] in ("randint", "lograndint") and rng.random() < 0.3 and n > 1:
                    ns[name] = rng.randint(1, n)
                    n = ns[name]
            elif r < 0.8:
                P = _any_domain(rng)
                for _j in range(20):
                    if c07.FAM[P["ctor"]] == "float":
                        break
                    P = _any_domain(rng)
                else:
                    P = {"ctor": "uniform", "lower": 0.0, "upper": 1.0}
                if rng.random() < 0.8:
                    ns[name] = rng.randint(1, 4)
                n = ns.get(name, 5)
            else:
                lo = rng.randint(-20, 20) if rng.random() < 0.7 else rng.randint(1, 20)
                P = {"ctor": rng.choice(["randint", "lograndint"]) if lo > 0 else "randint", "lower": lo,
                     "upper": lo + rng.randint(0, 30)}
                ln = P["upper"] - P["lower"] + 1
                if rng.random() < 0.7:
                    ns[name] = rng.randint(1, min(ln, 4))
                n = ns.get(name, min(ln, 5))
            desc[name] = P
            total *= n
        if total <= 60:
            break
    if rng.random() < 0.5:
        name, val = rng.choice(_CONSTS)
        items = list(desc.items())
        items.insert(rng.randint(0, len(items)), (name, {"ctor": CONST, "value": val}))
        desc = dict(items)
    return desc, ns


def build_space(desc):
    return {k: (P["value"] if P["ctor"] == CONST else c07._build(P)) for k, P in desc.items()}


# ------------------------------------------------------------------------------------------ reference: mid-point rule


def _plain(v):
    return v.item() if isinstance(v, np.generic) else v


def _is_log_ctor(ctor):
    return ctor in ("loguniform", "lograndint", "logfinrange", "logfinrange_int", "ordinal_nnlog")


def midpoint_how(P, v, values):
    """None if ``v`` is an acceptable default of domain P under the documented mid-point rule, else how it is not."""
    ctor = P["ctor"]
    fam = c07.FAM[ctor]
    v = _plain(v)
    if fam == "float":
        lo, up = float(P["lower"]), float(P["upper"])
        cands = []
        if ctor in ("loguniform", "qloguniform"):
            cands.append(math.sqrt(lo) * math.sqrt(up))
        if ctor != "loguniform":
            cands.append(0.5 * lo + 0.5 * up)
        if not isinstance(v, (int, float)) or isinstance(v, bool):
            return "type:" + type(v).__name__
        tol = 1e-12 * max(abs(lo), abs(up))
        if any(abs(v - c) <= tol for c in cands) and lo - tol <= v <= up + tol:
            return None
        alt = math.sqrt(lo) * math.sqrt(up) if lo > 0 else None
        if alt is not None and abs(v - alt) <= tol:
            return "geometric_instead_of_arithmetic"
        if abs(v - (0.5 * lo + 0.5 * up)) <= tol:
            return "arithmetic_instead_of_geometric"
        if v == lo or v == up:
            return "a_bound"
        return "other_value"
    if fam == "int":
        lo, up = P["lower"], P["upper"]
        ok = set()
        mids = []
        if ctor in ("lograndint", "qlograndint"):
            mids.append(math.sqrt(lo) * math.sqrt(up))
        if ctor != "lograndint":
            mids.append((lo + up) / 2)
        for m in mids:
            fl = math.floor(m)
            if abs(m - fl - 0.5) <= 1e-9 * max(1.0, abs(m)):
                ok.update((fl, fl + 1))
            else:
                ok.add(int(round(m)))
        if v in ok:
            return None
        if v in (lo, up):
            return "a_bound"
        if ctor == "lograndint" and abs(v - (lo + up) / 2) <= 1:
            return "arithmetic_instead_of_geometric"
        if ctor == "randint" and lo > 0 and abs(v - math.sqrt(lo * up)) <= 1:
            return "geometric_instead_of_arithmetic"
        return "other_value"
    if fam == "cat":
        cats = P["categories"]
        n = len(cats)
        if ctor == "choice":
            return None if v == cats[0] else "not_first_entry"
        if ctor == "ordinal_equal":
            return None if v in (cats[0], cats[n // 2], cats[(n - 1) // 2]) else "not_first_or_middle_entry"
        xs = [math.log(float(c)) for c in cats] if ctor == "ordinal_nnlog" else [float(c) for c in cats]
        mid = 0.5 * (xs[0] + xs[-1])
        d = [abs(x - mid) for x in xs]
        dmin = min(d)
        ok = [cats[i] for i in range(n) if d[i] <= dmin + 1e-9 * max(abs(xs[0]), abs(xs[-1]), 1e-300)]
        if v in ok:
            return None
        if v == cats[0]:
            return "first_entry"
        return "not_nearest_to_midpoint"
    size = P["size"]
    idx = {0} if size == 1 else ({(size - 1) // 2} if size % 2 == 1 else {size // 2 - 1, size // 2})
    if any(v == values[i] for i in idx):
        return None
    if v in (values[0], values[-1]):
        return "a_bound"
    return "not_middle_of_range"


# ------------------------------------------------------------------------------------------ points_to_evaluate


def _member(rng, P, values):
    """A documented member of domain P, possibly written in another numeric type (JSON-able)."""
    ctor = P["ctor"]
    fam = c07.FAM[ctor]
    if fam == "float":
        lo, up = float(P["lower"]), float(P["upper"])
        r = rng.random()
        if r < 0.15:
            x = lo
        elif r < 0.3:
            x = up
        else:
            t = rng.random()
            if ctor in ("loguniform", "qloguniform") and lo > 0:
                x = math.exp(math.log(lo) * (1 - t) + math.log(up) * t)
            else:
                x = lo * (1 - t) + up * t
            x = min(max(x, lo), up)
        if rng.random() < 0.25:
            k = math.ceil(lo)
            if k <= up and abs(k) < 2 ** 52:
                x = int(k) if rng.random() < 0.5 else float(k)  # e.g. 2 for a float domain
        return x
    if fam == "int":
        lo, up = P["lower"], P["upper"]
        x = rng.choice([lo, up, rng.randint(lo, up)])
        if rng.random() < 0.3 and abs(x) < 2 ** 52:
            return float(x)  # 3.0 for an integer domain
        return x
    if fam == "cat":
        return rng.choice(P["categories"])
    return rng.choice(values)


def _other_value(rng, v):
    """A value different from constant ``v``: same type (another study's epochs / dataset) or another type."""
    if rng.random() < 0.3:
        return str(v) + "_" if not isinstance(v, str) else 3
    if isinstance(v, str):
        return v + "2"
    if isinstance(v, bool):
        return not v
    if isinstance(v, int):
        return v + rng.choice([-4, -1, 1, 20])
    return v * 2 + 1.5


def decorate_points(rng, pts, desc, rate=0.3):
    """points_to_evaluate entries copied from elsewhere: they may also carry keys which are constants of the space (same
    value, a different value, another type) or which are not in the space at all. Documented (_impute_default_config):
    entries whose config-space value is not a Domain are not included."""
    consts = [k for k, P in desc.items() if P["ctor"] == CONST]
    for pt in pts:
        if rng.random() >= rate:
            continue
        for c in consts:
            r = rng.random()
            if r < 0.3:
                pt[c] = desc[c]["value"]
            elif r < 0.8:
                pt[c] = _other_value(rng, desc[c]["value"])
        if rng.random() < 0.4 or not consts:
            pt[rng.choice(["epochs_old", "st_checkpoint_dir", "trial_id", "note"])] = rng.choice([3, "x", 0.5])
    return pts


def gen_pte(rng, desc, values, lib_mid):
    """points_to_evaluate: None | [] | list of partial configurations with exact members."""
    hp = [k for k, P in desc.items() if P["ctor"] != CONST]
    consts = [k for k, P in desc.items() if P["ctor"] == CONST]
    mode = rng.choice(["none", "none", "none", "empty", "partial", "partial", "full", "dups", "dups"])
    if mode == "none":
        return None
    if mode == "empty":
        return []
    pts = []
    n = rng.randint(1, 5)
    for _ in range(n):
        p_inc = 1.0 if mode == "full" else rng.choice([0.0, 0.3, 0.5, 0.8, 1.0])
        pt = {}
        for k in hp:
            if rng.random() < p_inc:
                pt[k] = _member(rng, desc[k], values.get(k))
        if consts and rng.random() < 0.15:
            c = rng.choice(consts)
            pt[c] = desc[c]["value"]
        pts.append(pt)
    if mode == "dups":
        for _ in range(rng.randint(1, 3)):
            src = dict(rng.choice(pts))
            r = rng.random()
            if r < 0.4 and lib_mid is not None:
                # duplicate by imputation: spell out the default of a missing key
                missing = [k for k in hp if k not in src]
                if missing:
                    k = rng.choice(missing)
                    src[k] = _plain(lib_mid[k])
            elif r < 0.6:
                # same value in another numeric type
                for k in list(src):
                    if k in desc and c07.FAM.get(desc[k]["ctor"]) == "int" and isinstance(src[k], int) and abs(src[k]) < 2 ** 52:
                        src[k] = float(src[k])
            pts.insert(rng.randint(0, len(pts)), src)
    return decorate_points(rng, pts, desc)


RC_KINDS = ("random", "bayesopt", "hb_bayesopt", "hypertune", "sync_hb", "direct_random")


def gen_rc(seed, desc, space, matchstr):
    """restrict_configurations: 3-12 different members of the space over the hyperparameter keys (drawn with the
    domains' own samplers; different also under the library's match string)."""
    rng = random.Random(seed)
    hp = [k for k, P in desc.items() if P["ctor"] != CONST]
    n = rng.randint(3, 12)
    rs = np.random.RandomState(rng.randrange(2 ** 31))
    out, seen, seen_ms = [], set(), set()
    for _ in range(6 * n):
        cfg = {k: _plain(space[k].sample(random_state=rs)) for k in hp}
        t = tuple(cfg[k] for k in sorted(hp))
        ms = matchstr(cfg)
        if t in seen or ms is None or ms in seen_ms:
            continue
        seen.add(t)
        seen_ms.add(ms)
        out.append(cfg)
        if len(out) == n:
            break
    if out and rng.random() < 0.5:
        # rows drawn with replacement from a table: 10-50 % of the entries appear more than once (legal input: the twin is
        # rejected through the exclusion list); the finite space is the set of DISTINCT entries
        for _ in range(max(1, int(len(out) * rng.uniform(0.1, 0.5)))):
            out.insert(rng.randint(0, len(out)), dict(rng.choice(out)))
    return out


def gen_pte_rc(rng, rc, desc, values):
    """points_to_evaluate for a restricted search: entries of the list at shuffled positions, some configurations
    outside the list (documented: removed), duplicates, the default (None)."""
    hp = [k for k, P in desc.items() if P["ctor"] != CONST]
    mode = rng.choice(["none", "empty", "rc", "rc", "rc", "rc", "mixed", "mixed"])
    if mode == "none":
        return None
    if mode == "empty":
        return []
    k = rng.randint(1, min(4, len(rc)))
    if k == len(rc) > 1 and rng.random() < 0.9:
        k -= 1  # every entry of the list an initial point: rarely (the GP searchers cannot start then, see findings)
    pts = [dict(c) for c in rng.sample(rc, k)]
    if len(rc) > 1 and rng.random() < 0.7 and pts[0] == rc[0]:
        pts[0] = dict(rc[rng.randrange(1, len(rc))])  # an initial point whose position in the list differs from its own
    for pt in pts:
        for key in hp:
            if c07.FAM[desc[key]["ctor"]] == "int" and rng.random() < 0.2 and abs(pt[key]) < 2 ** 52:
                pt[key] = float(pt[key])  # same configuration, value written as 3.0
    if mode == "mixed":
        for _ in range(rng.randint(1, 2)):
            outside = {key: _member(rng, desc[key], values.get(key)) for key in hp} if rng.random() < 0.7 else {}
            pts.insert(rng.randint(0, len(pts)), outside)
        if rng.random() < 0.5:
            pts.insert(rng.randint(0, len(pts)), dict(rng.choice(pts)))
    return decorate_points(rng, pts, desc)


def cast_given(P, g):
    fam = c07.FAM[P["ctor"]]
    if fam == "float":
        return float(g)
    if fam == "int":
        return int(g)
    if fam == "fin":
        return int(g) if P["ctor"].endswith("_int") else float(g)
    return g


def reference_initial(pte, desc, lib_mid):
    """Reference of the documented points_to_evaluate handling: list of (config over hp keys, set of given keys)."""
    hp = sorted(k for k, P in desc.items() if P["ctor"] != CONST)
    if pte is None:
        pte = [dict()]
    out, seen = [], set()
    for pt in pte:
        cfg = {}
        for k in hp:
            cfg[k] = cast_given(desc[k], pt[k]) if k in pt else cast_given(desc[k], _plain(lib_mid[k]))
        tpl = tuple(cfg[k] for k in hp)
        if tpl in seen:
            continue
        seen.add(tpl)
        out.append((cfg, {k for k in hp if k in pt}))
    return out


# ------------------------------------------------------------------------------------------ oracle

_STATUS_RANK = {"failed": 0, "running": 1, "paused": 2, "stopped": 3, "completed": 4}
_STATUS_NAME = {"running": "pending"}


class Oracle:
    """Judges the suggestions of one history."""

    def __init__(self, o, kind, desc, space, pte, promise, mra_key=None, scheduler_level=True, grid=None):
        self.o, self.kind, self.desc, self.space, self.pte = o, kind, desc, space, pte
        self.promise = promise
        self.mra_key = mra_key
        self.scheduler_level = scheduler_level
        self.hp = sorted(k for k, P in desc.items() if P["ctor"] != CONST)
        self.values = {k: list(space[k].values) for k in self.hp if c07.FAM[desc[k]["ctor"]] == "fin"}
        self.size = space_size(desc)
        self.continuous = any(dom_count(desc[k]) is None for k in self.hp)
        # a continuous domain narrower than what the library's 7-digit match string resolves: the space is infinite
        # by its constructor, but has few distinguishable configurations under the library's documented notion of
        # (approximate) equality; 'None' on such a space is counted, not judged
        self.below_resolution = any(
            desc[k]["ctor"] in ("uniform", "loguniform", "reverseloguniform", "quniform", "qloguniform", "finrange",
                                "logfinrange")
            and desc[k]["lower"] < desc[k]["upper"]
            and (desc[k]["upper"] - desc[k]["lower"]) <= 1e-4 * max(abs(desc[k]["lower"]), abs(desc[k]["upper"]))
            for k in self.hp)
        self.by_tpl = {}  # tuple -> [trial ids]
        self.by_ms = {}
        self.tags = []
        self.n_new = 0
        self.n_fresh = 0
        self.post_initial = 0
        self.ref = None
        self.ref_ok = True
        self.lib_mid = None
        self.initial_done = False
        self.viol_keys = set()
        self.grid = grid  # dict(num_samples, allow_duplicates) for grid kinds
        self.grid_seq = []  # non-initial grid suggestions (keyed tuples)
        self._float_dim = [c07.FAM[desc[k]["ctor"]] == "float" and not self.below_resolution for k in self.hp]
        self.none_seen = False
        self.hp_ranges = None
        self.init_path = "initial_points:dehb" if kind == "dehb" else "initial_points"
        self.dehb_base = None  # size of the base rung of DEHB's first bracket
        self.nonfinite_done = set()  # trials that finished (or were stopped / paused) on a NaN / inf metric value
        self.rc_set = None  # restrict_configurations (tuples): the finite set the searcher is restricted to
        self.rc_has_duplicates = False
        # a finite range whose rounded values collide lists the same value twice (FiniteRange.values)
        self.grid_sfx = ":finite_range_lists_a_value_twice" if any(len(set(v)) < len(v) for v in self.values.values()) else ""

    def set_restricted(self, rc):
        self.rc_set = {tuple(cast_given(self.desc[k], c[k]) for k in self.hp) for c in rc}
        self.rc_list = [tuple(cast_given(self.desc[k], c[k]) for k in self.hp) for c in rc]
        self.size = len(self.rc_set)
        self.rc_has_duplicates = len(self.rc_list) > len(self.rc_set)
        if self.rc_has_duplicates:
            self.o.count("restricted_lists_with_duplicate_entries")
        self.continuous = False
        self.below_resolution = False

    # -- helpers
    def viol(self, clause, mech, detail):
        if mech in self.viol_keys:
            self.o.count("violations_repeated_in_case")
            return
        self.viol_keys.add(mech)
        d = {"kind": self.kind, "space": self.desc, "points_to_evaluate": self.pte}
        d.update(detail or {})
        self.o.ev("violation", mech)
        self.o.violate(clause, mech, d)

    def tpl(self, cfg):
        return tuple(_plain(cfg[k]) for k in self.hp)

    def matchstr(self, cfg):
        if self.hp_ranges is None:
            from syne_tune.optimizer.schedulers.searchers.utils.hp_ranges_factory import make_hyperparameter_ranges

            self.hp_ranges = make_hyperparameter_ranges(self.space)
        try:
            return self.hp_ranges.config_to_match_string({k: cfg[k] for k in self.hp})
        except Exception:  # noqa: BLE001 - secondary signal only
            return None

    # -- clause 2 preparation: probe of the public imputation function + reference
    def prepare_initial(self):
        from syne_tune.optimizer.schedulers.searchers.searcher import impute_points_to_evaluate

        o = self.o
        try:
            lib = impute_points_to_evaluate(None, self.space)
            self.lib_mid = lib[0]
        except Exception as e:  # noqa: BLE001
            self.viol("initial_points", f"raised:impute_points_to_evaluate:{type(e).__name__}", {"error": repr(e)[:300]})
            self.ref_ok = False
            return
        if len(lib) != 1 or set(self.lib_mid) != set(self.hp):
            self.viol("initial_points", "initial_points:none_is_not_one_default_config", {"got": lib})
            self.ref_ok = False
            return
        for k in self.hp:
            P = self.desc[k]
            o.count("decided:midpoint_rule")
            how = midpoint_how(P, self.lib_mid[k], self.values.get(k))
            if how is not None:
                self.viol("initial_points", f"initial_points:midpoint_rule:{P['ctor']}:{how}",
                          {"key": k, "domain": P, "default": self.lib_mid[k]})
                self.ref_ok = False
            elif P["ctor"] in ("qloguniform", "qlograndint"):
                o.count("note:quantised_log_midpoint_either_scale")

    def make_reference(self):
        if not self.ref_ok:
            self.ref = None
            return
        self.ref = reference_initial(self.pte, self.desc, self.lib_mid)
        o = self.o
        if self.rc_set is not None:
            # documented (StochasticAndFilterDuplicatesSearcher): points_to_evaluate is filtered to entries of the list
            full = self.ref
            self.ref = [(c, g) for c, g in full if tuple(c[k] for k in self.hp) in self.rc_set]
            o.count("initial_outside_restricted_list_dropped", len(full) - len(self.ref))
            for j, (c, _) in enumerate(self.ref):
                t_ = tuple(c[k] for k in self.hp)
                if self.rc_list.index(t_) != j:
                    o.count("initial_from_restricted_list_at_other_position")
                if self.rc_list.count(t_) > 1:
                    o.count("initial_point_with_twin_in_restricted_list")
        if self.continuous and len(self.ref) > 1:
            # two different initial points that agree to 7 significant digits: equal under the library's documented
            # notion of (approximate) equality (Domain.match_string) - whether the later one is a duplicate is
            # not defined by the statement
            ms = [self.matchstr(c) for c, _ in self.ref]
            if None in ms or len(set(ms)) < len(ms):
                o.count("undecided:near_duplicate_initial_points")
                self.ref = None
                return
        if self.pte is None:
            o.count("initial:none_default")
        elif len(self.pte) == 0:
            o.count("initial:empty")
        else:
            if any(len([k for k in self.hp if k in pt]) < len(self.hp) for pt in self.pte):
                o.count("initial:partial")
            if len(self.ref) < len(self.pte):
                o.count("initial:duplicates_dropped")
            o.count("initial:given_points", len(self.pte))
            for pt in self.pte:
                if any(k in pt and (type(pt[k]) is not type(P["value"]) or pt[k] != P["value"])
                       for k, P in self.desc.items() if P["ctor"] == CONST):
                    o.count("initial_points_with_conflicting_constant")
                if any(k not in self.desc for k in pt):
                    o.count("initial_points_with_key_outside_space")

    # -- clause 1
    def check_config(self, cfg, what):
        o, desc = self.o, self.desc
        o.count("decided:config_keys")
        for k, P in desc.items():
            if k not in cfg:
                self.viol("typed_member", f"{self.kind}:missing_key:{'const' if P['ctor'] == CONST else 'hp'}",
                          {"key": k, "config": cfg, "suggestion": what})
                continue
            v = cfg[k]
            if P["ctor"] == CONST:
                if k == self.mra_key:
                    continue
                if type(v) is not type(P["value"]) or v != P["value"]:
                    self.viol("typed_member", f"{self.kind}:constant_changed", {"key": k, "value": v, "config": cfg})
                continue
            if not self.scheduler_level and isinstance(v, np.generic):
                o.count("note:searcher_level_numpy_scalar")
                v = v.item()
            o.count("decided:membership")
            if P["ctor"] in ("loguniform", "reverseloguniform") and P["lower"] < P["upper"] and isinstance(v, float):
                for which in ("lower", "upper"):
                    if v == P[which] and non_round_tripping_bound(P, which):
                        o.count("suggested_value_on_non_round_tripping_log_bound")
                        o.count("suggested_value_on_non_round_tripping_log_bound:" + self.kind)
            how = c07._nonmember(P, v, self.values.get(k))
            if how is not None:
                if how.startswith("type:"):
                    mech = f"{self.kind}:value_wrong_type:{P['ctor']}:{how[5:]}"
                else:
                    mech = f"{self.kind}:value_outside_domain:{P['ctor']}:{how}"
                self.viol("typed_member", mech, {"key": k, "value": v, "domain": P, "suggestion": what})
        if self.rc_set is not None and all(k in cfg for k in self.hp):
            o.count("decided:in_restricted_set")
            if self.tpl(cfg) not in self.rc_set:
                self.viol("typed_member", f"{self.kind}:suggestion_outside_restrict_configurations",
                          {"config": cfg, "restrict_configurations": sorted(self.rc_set, key=repr)[:20]})

    # -- clauses 2, 3 on a new-trial suggestion
    def on_new(self, tid, cfg, status_of, fresh=True, exempt_repeat=False, tag=None):
        """status_of: trial id -> status of earlier trials (running / paused / stopped / completed / failed)."""
        o = self.o
        self.n_new += 1
        if any(k not in cfg for k in self.hp):
            return  # reported by clause 1
        t = self.tpl(cfg)
        is_initial = False
        if fresh:
            j = self.n_fresh
            self.n_fresh += 1
            if self.ref is not None and j < len(self.ref) and not self.initial_done:
                is_initial = True
                self.check_initial(j, cfg, t)
            elif self.ref is not None and j == 0 and self.pte == [] and self.continuous and self.lib_mid is not None \
                    and self.grid is None and not self.below_resolution:
                o.count("decided:empty_list")
                if all(cfg[k] == _plain(self.lib_mid[k]) for k in self.hp):
                    self.viol("initial_points", f"{self.init_path}:empty_list_gives_default_config", {"config": cfg})
        if not is_initial:
            self.post_initial += 1
            o.count(f"post_initial:{self.kind}")
        self.tags.append(tag or ("I" if is_initial else "N"))
        # clause 3
        earlier = self.by_tpl.get(t)
        if self.grid is not None:
            self.grid_new(t, cfg, is_initial, earlier)
        elif self.promise and not exempt_repeat:
            o.count("decided:no_repeat")
            sts = list(status_of.values())
            if "running" in sts:
                o.count("no_repeat_with_pending_trial")
            if "failed" in sts:
                o.count("no_repeat_with_failed_trial")
            if self.nonfinite_done:
                o.count("no_repeat_after_trial_finished_on_nonfinite_metric")
            if earlier:
                st = min((status_of.get(x, "completed") for x in earlier), key=lambda s: _STATUS_RANK.get(s, 9))
                name = _STATUS_NAME.get(st, st)
                self.tags[-1] += "!" + name
                self.viol("no_repeat", f"{self.kind}:repeat_of_{name}_config",
                          {"config": cfg, "earlier_trials": earlier, "status": {str(x): status_of.get(x) for x in earlier},
                           "new_trial": tid, "n_distinct_so_far": len(self.by_tpl), "space_size": self.size})
            elif self.continuous:
                ms = self.matchstr(cfg)
                if ms is not None:
                    if ms in self.by_ms:
                        o.count("note:equal_match_string_different_values")
                    self.by_ms[ms] = tid
        elif earlier:
            o.count("note:repeat_without_promise")
        self.by_tpl.setdefault(t, []).append(tid)

    def check_initial(self, j, cfg, t):
        o = self.o
        ref_cfg, given = self.ref[j]
        o.count("decided:initial_point")
        diff = []
        band = False
        for k in self.hp:
            a, b = _plain(cfg[k]), ref_cfg[k]
            if a == b:
                continue
            P = self.desc[k]
            if self.kind == "dehb" and c07.FAM[P["ctor"]] == "float" and isinstance(a, float) \
                    and abs(a - b) <= c07._tol(P, b):
                band = True
                continue
            diff.append(k)
        if not diff:
            if band:
                o.count("roundoff_band")
            return
        self.initial_done = True  # one report per history
        ref_tpls = [tuple(c[k] for k in self.hp) for c, _ in self.ref]
        detail = {"position": j, "suggested": cfg, "reference": [c for c, _ in self.ref], "differs_in": diff}
        if self.kind == "dehb" and self.dehb_base is not None and j >= self.dehb_base:
            # only the base rung of the first bracket is guaranteed to draw from points_to_evaluate
            self.viol("initial_points", f"{self.init_path}:point_beyond_first_rung_displaced",
                      dict(detail, first_rung_size=self.dehb_base))
            return
        if t in ref_tpls:
            jj = ref_tpls.index(t)
            self.viol("initial_points", f"{self.init_path}:{'order_changed' if jj > j else 'initial_point_repeated'}", detail)
            return
        # a later duplicate that should have been dropped shows up as a repetition of an earlier reference entry
        k0 = diff[0]
        ctor = self.desc[k0]["ctor"]
        if len(diff) == len(self.hp) >= 2:
            self.viol("initial_points", f"{self.init_path}:not_suggested_first", detail)
        elif all(k in given for k in diff):
            self.viol("initial_points", f"{self.init_path}:given_value_changed:{ctor}", detail)
        elif all(k not in given for k in diff):
            self.viol("initial_points", f"{self.init_path}:missing_entry_not_midpoint:{ctor}", detail)
        else:
            self.viol("initial_points", f"{self.init_path}:not_suggested_first", detail)

    # -- clause 4
    def on_none(self, context=None, why="unknown"):
        """why: read-only probe of the library's own exclusion list at the time of the None (secondary; only used to
        tell 'the retry loop gave up' from 'the library believes the space is used up' in the mechanism key)."""
        o = self.o
        self.none_seen = True
        self.tags.append("X")
        o.count("decided:none")
        if self.grid is not None:
            self.grid_none()
            return
        distinct = len(self.by_tpl)
        detail = {"distinct_suggested": distinct, "space_size": self.size, "new_trials": self.n_new, "context": context,
                  "library_exclusion_list": why}
        if self.size is None and self.below_resolution:
            o.count("undecided:none_on_space_below_match_string_resolution")
        elif self.size is None:
            self.viol("none_only_when_exhausted", f"{self.kind}:none_on_infinite_space", detail)
        elif distinct < self.size and self.below_resolution:
            o.count("undecided:none_on_space_below_match_string_resolution")
        elif distinct < self.size and self.rc_set is not None:
            self.viol("none_only_when_exhausted", f"{self.kind}:none_before_exhaustion:restricted_set:{why}",
                      dict(detail, never_suggested=sorted(self.rc_set - set(self.by_tpl), key=repr)[:10]))
        elif distinct < self.size and why == "model_based_search_gave_up":
            # documented scheme of the BO step: num_init_candidates = 250 random candidates, re-drawn for up to 20 rounds
            pm = 1.0
            for k in self.hp:
                q = dom_min_prob(self.desc[k])
                pm = None if (pm is None or q is None) else pm * q
            left = self.size - distinct
            p_fail = None if pm is None else (1.0 - min(1.0, left * pm)) ** 5000
            detail.update({"configurations_left": left, "probability_documented_scheme_finds_none": p_fail})
            if p_fail is not None and p_fail <= 1e-4:
                self.viol("none_only_when_exhausted", f"{self.kind}:none_before_exhaustion:finite_space:{why}", detail)
            else:
                o.count("undecided:model_based_none_within_probability_budget")
        elif distinct < self.size:
            self.viol("none_only_when_exhausted", f"{self.kind}:none_before_exhaustion:finite_space:{why}", detail)
        else:
            o.count("exhausted_spaces")
            o.count(f"exhausted:{self.kind}")
            if self.rc_set is not None:
                o.count("exhausted_restricted_sets")
                if self.rc_has_duplicates:
                    o.count("exhaustion_decided_on_restricted_list_with_duplicates")

    # -- grid
    def grid_dims(self):
        """per hp key: (exact set of values | None, max number of values, exact number | None)"""
        out = {}
        ns = self.grid["num_samples"]
        for k in self.hp:
            P = self.desc[k]
            fam = c07.FAM[P["ctor"]]
            if fam == "cat":
                vals = list(dict.fromkeys(P["categories"]))
                out[k] = (set(vals), len(vals), len(vals))
            elif fam == "fin":
                vals = set(self.values[k])
                out[k] = (vals, len(vals), len(vals))
            elif fam == "int":
                ln = P["upper"] - P["lower"] + 1
                n = min(ln, ns.get(k, 5))
                if n == ln and P["ctor"] == "randint":  # log-scaled integers: equally spaced in log scale, may collide
                    out[k] = (set(range(P["lower"], P["upper"] + 1)), n, n)
                else:
                    out[k] = (None, n, None)
            else:
                n = ns.get(k, 5)
                exact = n if (P["lower"] < P["upper"] and c07._cond(P) == "generic" and not _is_quantised(P)) else None
                if P["lower"] == P["upper"]:
                    exact = 1
                out[k] = (None, n, exact)
        return out

    def gkey(self, t):
        """An initial point and a grid point are the same configuration under the library's documented equality:
        exact for discrete values, 7 significant digits (Float.match_string) for float values. Only used to decide
        which grid points count as already suggested initial points; repetitions inside the grid are exact."""
        return tuple(f"{v:.6e}" if fl and isinstance(v, float) else v for v, fl in zip(t, self._float_dim))

    def grid_new(self, t, cfg, is_initial, earlier):
        o = self.o
        if is_initial:
            return
        self.grid_seq.append(t)
        if not self.grid["allow_duplicates"]:
            o.count("decided:no_repeat")
            if earlier:
                self.tags[-1] += "!twice"
                self.viol("grid_once", f"{self.kind}:point_suggested_twice{self.grid_sfx}",
                          {"config": cfg, "earlier_trials": earlier, "n_grid_suggestions": len(self.grid_seq)})

    def _grid_values(self, tuples, init_tpls, label):
        """Values per dimension of the grid as far as observable: exact sets where documented, else the values
        seen in ``tuples`` (completed by values of initial points when exactly the documented number is reached).
        Returns list of sets, or None after reporting a violation / when undecidable."""
        dims = self.grid_dims()
        V = [set() for _ in self.hp]
        for t in tuples:
            for i, v in enumerate(t):
                V[i].add(v)
        for i, k in enumerate(self.hp):
            exact_set, nmax, nexact = dims[k]
            ctor = self.desc[k]["ctor"]
            if len(V[i]) > nmax:
                self.viol("grid_once", f"{self.kind}:too_many_values:{ctor}",
                          {"key": k, "values": sorted(V[i], key=repr)[:20], "max": nmax})
                return None
            if exact_set is not None:
                if not V[i] <= exact_set:
                    return None  # reported by the membership clause
                if not init_tpls and V[i] != exact_set:
                    self.viol("grid_once", f"{self.kind}:{label}:values_missing:{ctor}",
                              {"key": k, "seen": sorted(V[i], key=repr)[:20], "expected": sorted(exact_set, key=repr)[:20]})
                    return None
                V[i] = set(exact_set)
            elif nexact is not None and len(V[i]) != nexact:
                extra = {t[i] for t in init_tpls} - V[i]
                if len(V[i]) + len(extra) == nexact:
                    V[i] |= extra  # grid values only reachable through excluded initial points
                elif len(V[i]) + len(extra) < nexact:
                    self.viol("grid_once", f"{self.kind}:{label}:number_of_values:{ctor}",
                              {"key": k, "seen": sorted(V[i], key=repr)[:20], "expected_number": nexact})
                    return None
                else:
                    self.o.count("undecided:grid_values_vs_initial_points")
                    return None
        return V

    def _grid_excluded(self, V, init_tpls):
        """Points of the product that count as already suggested initial points."""
        import itertools

        total = 1
        for s in V:
            total *= len(s)
        if not init_tpls or total > 5000:
            return total, set()
        keys = {self.gkey(t) for t in init_tpls}
        return total, {g for g in itertools.product(*[sorted(s, key=repr) for s in V]) if self.gkey(g) in keys}

    def _first_pass_ok(self, block, V, init_tpls, label="first_pass"):
        total, excluded = self._grid_excluded(V, init_tpls)
        bs = set(block)
        self.o.count("decided:grid_product")
        detail = {"n_suggested": len(block), "distinct": len(bs), "product_size": total,
                  "initial_points_on_grid": len(excluded),
                  "values_per_dim": {k: sorted(V[i], key=repr)[:12] for i, k in enumerate(self.hp)}}
        if len(bs) != len(block):
            self.viol("grid_once", f"{self.kind}:{label}:point_twice_in_one_pass{self.grid_sfx}", detail)
            return None
        if bs & excluded:
            self.viol("grid_once", f"{self.kind}:{label}:initial_point_suggested_again", detail)
            return None
        expected = total - len(excluded)
        if len(bs) != expected:
            how = "points_missing" if len(bs) < expected else "points_outside_product"
            self.viol("grid_once", f"{self.kind}:{label}:{how}", detail)
            return None
        return total

    def _init_tpls(self):
        return [tuple(c[k] for k in self.hp) for c, _ in (self.ref or [])][: self.n_fresh]

    def grid_none(self):
        o = self.o
        if self.grid["allow_duplicates"]:
            self.viol("grid_once", f"{self.kind}:none_with_allow_duplicates", {"n_grid_suggestions": len(self.grid_seq)})
            return
        if self.ref is None:
            o.count("undecided:grid_without_reference")
            return
        init_tpls = self._init_tpls()
        if init_tpls and self.below_resolution:
            o.count("undecided:grid_below_match_string_resolution_with_initial_points")
            return
        V = self._grid_values(self.grid_seq, init_tpls, "first_pass")
        if V is not None and self._first_pass_ok(self.grid_seq, V, init_tpls) is not None:
            o.count("exhausted_grids")
            o.count("exhausted_spaces")
            o.count(f"exhausted:{self.kind}")

    def grid_finish(self):
        """allow_duplicates=True: a first pass (product minus initial points) followed by full passes, never None."""
        if self.grid is None or not self.grid["allow_duplicates"] or self.ref is None or self.none_seen:
            return
        seq = self.grid_seq
        if len(set(seq)) == len(seq):
            return  # no cycle entered yet
        init_tpls = self._init_tpls()
        if init_tpls and self.below_resolution:
            self.o.count("undecided:grid_below_match_string_resolution_with_initial_points")
            return
        V = self._grid_values(seq, init_tpls, "cycle")
        if V is None:
            return
        total, excluded = self._grid_excluded(V, init_tpls)
        L1 = total - len(excluded)
        if self._first_pass_ok(seq[:L1], V, init_tpls) is None:
            return
        self.o.count("exhausted_grids")
        self.o.count("grid_cycles_checked")
        pos = L1
        while pos < len(seq):
            block = seq[pos: pos + total]
            if len(set(block)) != len(block):
                self.viol("grid_once", f"{self.kind}:cycle:pass_is_not_a_permutation_of_the_grid{self.grid_sfx}",
                          {"pass_length": total, "block": len(block), "distinct_in_block": len(set(block))})
                return
            self.o.count("decided:grid_cycle_pass")
            pos += total


# ------------------------------------------------------------------------------------------ case expansion

CHEAP_GP = {"opt_maxiter": 6, "num_init_random": 2, "opt_nstarts": 1, "debug_log": False}


def expand(spec):
    """All generator parameters derive from the seed; explicit keys in the spec override (reproducers)."""
    rng = random.Random(spec["seed"])
    kind = spec["kind"]
    p = {"kind": kind}
    exhaust = False
    num_samples = {}
    if kind in ("grid", "direct_grid"):
        desc, num_samples = gen_grid_space(rng)
    elif kind in ("random", "direct_random"):
        exhaust = rng.random() < 0.5
        desc = gen_space(rng, "finite" if exhaust else "mixed")
    elif kind in GP_KINDS:
        exhaust = rng.random() < 0.3
        desc = gen_space(rng, "finite" if exhaust else "gp")
    elif kind in ("sync_hb", "pbt"):
        exhaust = rng.random() < 0.3
        desc = gen_space(rng, "finite" if exhaust else "mixed")
    elif kind == "dehb":
        exhaust = rng.random() < 0.25
        for _ in range(30):
            desc = gen_space(rng, "finite" if exhaust else "mixed")
            # nearest-neighbour ordinals with int categories: known DEHB failure (numpy default value reaches the
            # encoder, see findings): explored, but rarely
            if not any(P["ctor"] in ("ordinal_nn", "ordinal_nnlog") and isinstance(P["categories"][0], int)
                       for P in desc.values()) or rng.random() < 0.03:
                break
    else:
        desc = gen_space(rng, "mixed")
    if "space" in spec:
        desc = spec["space"]
    p["space"] = desc
    p["num_samples"] = num_samples
    p["exhaust"] = exhaust
    p["allow_duplicates"] = rng.random() < (0.25 if kind in ("random", "grid", "direct_random", "direct_grid") else 0.0)
    p["shuffle_config"] = rng.random() < 0.6
    p["mode"] = rng.choice(["min", "max"])
    p["n_workers"] = rng.randint(1, 4)
    p["policy"] = rng.choice(["uniform", "round_robin", "starve", "burst", "eager"])
    p["max_events"] = rng.randint(40, 150) if (exhaust or kind == "grid") else rng.randint(5, 60)
    p["fail_rate"] = rng.choice([0.0, 0.0, 0.15, 0.3])
    p["curves"] = rng.choice(["continuous", "continuous", "ties", "crossing"])
    p["max_t"] = rng.randint(1, 3)
    p["use_mra"] = False
    if kind in GP_KINDS:
        p["search_options"] = dict(CHEAP_GP, opt_maxiter=rng.randint(5, 10), num_init_random=rng.randint(2, 3))
        p["max_events"] = rng.randint(30, 60) if not exhaust else rng.randint(40, 110)
        if kind != "bayesopt":
            p["max_events"] += 25  # multi-fidelity: several reports per trial
        p["fail_rate"] = rng.choice([0.0, 0.15, 0.3])
    if kind in ("hb_bayesopt", "hypertune"):
        hp_ = gen.hyperband_params(rng, ["stopping", "promotion"], allow_brackets=True)
        if hp_["max_t"] > 16:  # keeps the number of GP fits per history small
            hp_["max_t"] = rng.randint(6, 16)
            if hp_.get("rung_levels"):
                hp_["rung_levels"] = sorted(rng.sample(range(1, hp_["max_t"]), rng.randint(2, 4)))
        if hp_.get("rung_levels") and len(hp_["rung_levels"]) < 2:
            hp_["rung_levels"] = None  # an explicit list needs >= 2 levels (documented assertion)
            hp_["grace_period"], hp_["reduction_factor"] = 1, 2
        if hp_.get("grace_period") and hp_["grace_period"] >= hp_["max_t"]:
            hp_["grace_period"] = 1
        if kind == "hypertune":
            hp_["brackets"] = rng.choice([2, 3])
        hp_["mode"] = p["mode"]
        p["hb"] = hp_
        p["max_t"] = hp_["max_t"]
        p["use_mra"] = hp_["type"] == "promotion" and rng.random() < 0.4
        p["checkpointing"] = rng.random() < 0.7
    if kind in ("sync_hb", "dehb"):
        R = rng.randint(1, 3)
        levels = sorted(rng.sample(range(1, 10), R))
        sizes = sorted(rng.sample(range(1, 7), R), reverse=True)
        first = [[s, l] for s, l in zip(sizes, levels)]
        if kind == "dehb":
            if sum(sizes) < 3:
                first[0][0] += 3
            p["rungs_first_bracket"] = first
            p["support_pause_resume"] = rng.random() < 0.7
            p["fail_rate"] = 0.0
            p["dehb_searcher"] = None
        else:
            nb = rng.randint(1, R)
            systems = [first]
            for off in range(1, nb):
                lv = levels[off:]
                sz = sorted(rng.sample(range(1, 7), len(lv)), reverse=True)
                systems.append([[s, l] for s, l in zip(sz, lv)])
            p["bracket_rungs"] = systems
            p["fail_rate"] = rng.choice([0.0, 0.0, 0.15])
        p["max_t"] = levels[-1]
        p["use_mra"] = rng.random() < 0.4
        p["checkpointing"] = rng.random() < 0.6
        p["max_events"] = rng.randint(30, 90) if not exhaust else rng.randint(60, 150)
    if kind == "pbt":
        p["population_size"] = rng.randint(2, 5)
        p["n_workers"] = p["population_size"]
        p["max_t"] = rng.randint(4, 10)
        p["perturbation_interval"] = rng.randint(1, 3)
        p["quantile_fraction"] = rng.choice([0.25, 0.4, 0.5])
        p["resample_probability"] = rng.choice([0.0, 0.25, 0.5, 1.0])
        p["max_events"] = rng.randint(30, 60) if not exhaust else rng.randint(60, 150)
        p["fail_rate"] = rng.choice([0.0, 0.0, 0.1])
    if kind == "regevo":
        p["population_size"] = rng.randint(2, 5)
        p["sample_size"] = rng.randint(1, 3)
        p["max_events"] = rng.randint(30, 60)
    if kind.startswith("direct"):
        p["steps"] = rng.randint(40, 150) if (exhaust or kind == "direct_grid") else rng.randint(5, 60)
    p["pte_seed"] = rng.randrange(2 ** 31)
    # restricted search (search option restrict_configurations): separate stream, not for reproducer specs
    r3 = random.Random(spec["seed"] * 40503 % (2 ** 32) + 29)
    p["restrict"] = kind in RC_KINDS and "space" not in spec and r3.random() < (0.4 if kind in GP_KINDS else 0.3)
    p["rc_seed"] = r3.randrange(2 ** 31)
    p["rc_ask_beyond"] = r3.random() < 0.15  # GP kinds: keep asking after the list is used up (see findings)
    if p["restrict"]:
        if kind in ("hb_bayesopt", "hypertune") and not p["rc_ask_beyond"]:
            # pause / resume would ask the searcher again while trials are paused; the GP searchers raise when asked after
            # the list is used up (see findings), so most restricted histories use the stopping type
            p["hb"] = dict(p["hb"], type="stopping")
            p["use_mra"] = False
        p["max_events"] = max(p["max_events"], r3.randint(50, 150))
        if kind.startswith("direct"):
            p["steps"] = max(p["steps"], r3.randint(40, 120))
    # non-finite metric values (NaN / +-inf): a few per cent of the reports and whole trials that report nothing else.
    # Drawn from a separate stream; reproducer specs (explicit space) default to finite metrics unless they say otherwise.
    r2 = random.Random(spec["seed"] * 2654435761 % (2 ** 32) + 17)
    p["nonfinite_rate"], p["nonfinite_trials"], p["nonfinite_plan"] = 0.0, 0.0, None
    if "space" not in spec:
        if kind in GP_KINDS:
            p["nonfinite_rate"] = r2.choice([0.0, 0.03, 0.06])
            p["nonfinite_trials"] = r2.choice([0.1, 0.25, 0.4]) if exhaust else r2.choice([0.0, 0.1, 0.2])
        elif kind in ("random", "grid", "regevo"):
            p["nonfinite_rate"] = r2.choice([0.0, 0.0, 0.03])
            p["nonfinite_trials"] = r2.choice([0.0, 0.0, 0.15])
    # medium-sized finite space (100-1000 configurations) driven close to exhaustion before the model-based step
    r4 = random.Random(spec["seed"] * 69069 % (2 ** 32) + 41)
    p["medium"] = kind in GP_KINDS and "space" not in spec and not p["restrict"] and r4.random() < 0.3
    if p["medium"]:
        n1 = r4.randint(10, 30)
        n2 = r4.randint(max(4, -(-100 // n1)), min(40, 1000 // n1))
        lo = r4.randint(-5, 5)
        md = {"a": {"ctor": "randint", "lower": lo, "upper": lo + n1 - 1}}
        if n2 <= 8 and r4.random() < 0.5:
            md["c"] = {"ctor": "choice", "categories": [f"k{j}" for j in range(n2)]}
        else:
            md["b"] = {"ctor": "randint", "lower": 1, "upper": n2}
        if r4.random() < 0.6:
            md["dataset"] = {"ctor": CONST, "value": "abc"}
        if r4.random() < 0.4:
            md["n_layers"] = {"ctor": CONST, "value": 7}
        p.update({"space": md, "medium_remaining": r4.randint(1, 5), "medium_seed": r4.randrange(2 ** 31), "exhaust": True,
                  "allow_duplicates": False, "use_mra": False, "nonfinite_rate": 0.0, "nonfinite_trials": 0.0, "fail_rate": 0.0,
                  "max_t": 1 if kind == "bayesopt" else 2, "checkpointing": True,
                  "hb": {"type": "stopping", "mode": p["mode"], "grace_period": 1, "reduction_factor": 2, "max_t": 2,
                         "brackets": 2 if kind == "hypertune" else 1, "rung_system_per_bracket": False}})
    # DEHB with a searcher object (documented option; default is the built-in 'random_encoded' sampler): small discrete
    # space, long enough to leave the first bracket, so that mutation / cross-over offspring (which often decode to an
    # earlier configuration) meet configurations drawn by the searcher
    r6 = random.Random(spec["seed"] * 134775813 % (2 ** 32) + 3)
    if kind == "dehb" and "space" not in spec and r6.random() < 0.4:
        n1, n2 = r6.randint(4, 7), r6.randint(3, 6)
        dd = {"k": {"ctor": "randint", "lower": 1, "upper": n1}}
        if r6.random() < 0.6:
            dd["c"] = {"ctor": "choice", "categories": ["a", "b", "c", "d", "e", "f"][:n2]}
        else:
            dd["m"] = {"ctor": "finrange", "lower": 0.0, "upper": 1.0, "size": n2}
        if r6.random() < 0.3:
            dd["u"] = {"ctor": "uniform", "lower": 0.25, "upper": 0.25}
        if r6.random() < 0.5:
            dd["dataset"] = {"ctor": CONST, "value": "abc"}
        first = r6.choice([[[9, 1], [3, 3], [1, 9]], [[4, 1], [2, 2], [1, 4]], [[3, 1], [1, 3]], [[6, 1], [2, 3]]])
        p.update({"space": dd, "dehb_searcher": r6.choice(["random", "random", "bayesopt"]), "rungs_first_bracket": first,
                  "max_t": first[-1][1], "exhaust": True, "max_events": r6.randint(150, 320), "n_workers": r6.randint(1, 3),
                  "use_mra": r6.random() < 0.3, "support_pause_resume": r6.random() < 0.7, "fail_rate": 0.0,
                  "search_options": dict(CHEAP_GP)})
    # optimum in a corner of a log / reverse-log scaled box whose bounds do not survive exp(log(b)): the local
    # optimisation of the acquisition function ends on the box boundary and the decoded value must still be a member
    r5 = random.Random(spec["seed"] * 22695477 % (2 ** 32) + 7)
    p["corner"] = kind in GP_KINDS and "space" not in spec and not p["restrict"] and not p["medium"] and r5.random() < 0.3
    if p["corner"]:
        cd = {}
        for name in r5.sample(["lr", "wd", "mom", "b2"], r5.randint(2, 3)):
            if r5.random() < 0.7:
                lo = r5.choice([1e-6, 1e-5, 1e-4, 1e-3, 1e-2, 0.1])
                up = r5.choice([u for u in (1e-2, 0.1, 3, 5.0, 7, 10, 20, 100, 1000) if u > lo])
                cd[name] = {"ctor": "loguniform", "lower": lo, "upper": up}
            else:
                cd[name] = {"ctor": "reverseloguniform", "lower": r5.choice([0.0, 0.1, 0.3, 0.5]),
                            "upper": r5.choice([0.7, 0.9, 0.99, 0.999])}
        if r5.random() < 0.4:
            cd["width"] = {"ctor": "randint", "lower": 1, "upper": r5.randint(2, 64)}
        if r5.random() < 0.5:
            cd["dataset"] = {"ctor": CONST, "value": "abc"}
        p.update({"space": cd, "corner_signs": {k: r5.choice([-1.0, 1.0]) for k in cd}, "exhaust": False,
                  "allow_duplicates": False, "use_mra": False, "nonfinite_rate": 0.0, "nonfinite_trials": 0.0, "fail_rate": 0.0,
                  "n_workers": r5.randint(1, 2), "max_t": 1 if kind == "bayesopt" else 2, "checkpointing": True,
                  "max_events": r5.randint(45, 70) if kind == "bayesopt" else r5.randint(60, 90),
                  "search_options": dict(CHEAP_GP, opt_maxiter=r5.randint(5, 10), num_init_random=2),
                  "hb": {"type": "stopping", "mode": p["mode"], "grace_period": 1, "reduction_factor": 2, "max_t": 2,
                         "brackets": 2 if kind == "hypertune" else 1, "rung_system_per_bracket": False}})
    p.update({k: v for k, v in spec.items() if k not in ("seed", "kind") and not k.startswith("_")})
    return p


class CornerMetric:
    """Metric monotone in every (log / reverse-log scaled) hyperparameter: the optimum is a corner of the box."""

    def __init__(self, desc, signs, mode):
        self.desc, self.signs, self.mode = desc, signs, mode

    def __call__(self, tid, level, config=None):
        v = 0.0
        for k, sg in self.signs.items():
            P = self.desc.get(k)
            if P is None or P["ctor"] == CONST or config is None or k not in config:
                continue
            x, lo, up = float(config[k]), float(P["lower"]), float(P["upper"])
            if P["ctor"] == "loguniform":
                t = (math.log(x) - math.log(lo)) / (math.log(up) - math.log(lo))
            elif P["ctor"] == "reverseloguniform":
                t = (math.log1p(-lo) - math.log1p(-x)) / (math.log1p(-lo) - math.log1p(-up))
            else:
                t = (x - lo) / max(up - lo, 1e-300)
            v += sg * t
        return (v if self.mode == "min" else -v) + 0.01 * level


def non_round_tripping_bound(P, which):
    """Does the bound of a log / reverse-log scaled float domain change under decode(encode(bound))?"""
    b = float(P[which])
    if P["ctor"] in ("loguniform", "qloguniform"):
        return b > 0 and float(np.exp(np.log(b))) != b
    if P["ctor"] == "reverseloguniform":
        return float(1.0 - np.exp(np.log(1.0 - b))) != b
    return False


def decode_cube_corners(orc, seed):
    """Direct face: the searchers legitimately produce encoded coordinates that are exactly 0.0 or 1.0 (local
    optimisation ending on the box boundary, DEHB's clipped mutations); decoding them through the public
    HyperparameterRanges.from_ndarray must give members of the domains (exact bounds, no tolerance)."""
    o = orc.o
    if not orc.hp:
        return
    try:
        orc.matchstr({k: None for k in orc.hp})  # builds orc.hp_ranges through the public factory
    except Exception:  # noqa: BLE001
        pass
    hpr = orc.hp_ranges
    if hpr is None:
        return
    rng = random.Random(seed)
    n = hpr.ndarray_size
    vecs = [np.zeros(n), np.ones(n)]
    for _ in range(6):
        vecs.append(np.array([float(rng.random() < 0.5) for _ in range(n)]))
    for _ in range(2):
        vecs.append(np.array([rng.choice([0.0, 1.0, rng.random()]) for _ in range(n)]))
    for u in vecs:
        try:
            cfg = hpr.from_ndarray(u)
        except Exception as e:  # noqa: BLE001
            orc.viol("typed_member", f"raised:from_ndarray:cube_corner:{type(e).__name__}", {"vector": u.tolist(), "error": repr(e)[:200]})
            return
        for k in orc.hp:
            P = orc.desc[k]
            o.count("decided:cube_corner_decode")
            if P["ctor"] in ("loguniform", "qloguniform", "reverseloguniform") and P["lower"] < P["upper"]:
                for which in ("lower", "upper"):
                    if cfg[k] == P[which] and non_round_tripping_bound(P, which):
                        # exp(log(b)) != b and the decoded value is the bound: the clip of the decoded value was needed
                        o.count("cube_corner_decode_clipped_onto_log_bound")
            how = c07._nonmember(P, cfg[k], orc.values.get(k))
            if how is not None:
                kind_ = "value_wrong_type" if how.startswith("type:") else "value_outside_domain"
                orc.viol("typed_member", f"decode_cube_corner:{kind_}:{P['ctor']}:{how[5:] if how.startswith('type:') else how}",
                         {"key": k, "value": cfg[k], "domain": P, "vector": u.tolist()})


def medium_plan(p, desc, values):
    """All configurations of a medium finite space except a handful as points_to_evaluate (shuffled); the first trials
    complete with results, a few stay pending, the rest fail at once (failed trials are excluded but not modelled, which
    keeps the surrogate small); then the searcher is asked until it answers None."""
    import itertools

    rng = random.Random(p["medium_seed"])
    hp = [k for k, P in desc.items() if P["ctor"] != CONST]
    dom = []
    for k in hp:
        P = desc[k]
        dom.append(list(range(P["lower"], P["upper"] + 1)) if P["ctor"] == "randint" else list(P["categories"]))
    allc = [dict(zip(hp, t)) for t in itertools.product(*dom)]
    rng.shuffle(allc)
    r = min(p["medium_remaining"], len(allc) - 6)
    pts = decorate_points(rng, allc[r:], desc, rate=0.1)
    n = len(pts)
    done = set(range(0, min(4, n)))
    pending = set(rng.sample(range(4, n), min(3, n - 4)))
    fail = {str(i): [0, 0] for i in range(n) if i not in done and i not in pending}
    order = []
    for i in range(n):
        order.append("s")
        if i in done:
            order += [i] * (p["max_t"] + 1)
        elif i not in pending:
            order.append(i)
    order += ["s"] * (r + 1)
    return pts, fail, order, r, len(allc)


def dom_min_prob(P):
    """Smallest probability with which the domain's documented sampler returns any one of its values (None: not computed)."""
    ctor = P["ctor"]
    n = dom_count(P)
    if n is None:
        return None
    if n == 1:
        return 1.0
    if ctor in ("randint", "choice", "ordinal_equal", "finrange", "logfinrange", "finrange_int", "logfinrange_int"):
        return 1.0 / (P["size"] if "size" in P else (P["upper"] - P["lower"] + 1 if "lower" in P else len(P["categories"])))
    if ctor == "lograndint":
        lo, up = P["lower"], P["upper"]
        w = math.log(up) - math.log(lo)
        pr = []
        for v in range(lo, up + 1):
            a, b = max(lo, v - 0.5), min(up, v + 0.5)
            pr.append((math.log(b) - math.log(a)) / w)
        return min(pr)
    if ctor in ("ordinal_nn", "ordinal_nnlog"):
        xs = [math.log(float(c)) for c in P["categories"]] if ctor == "ordinal_nnlog" else [float(c) for c in P["categories"]]
        half = 0.5 * sum(b - a for a, b in zip(xs, xs[1:])) / (len(xs) - 1)
        lo, up = xs[0] - half, xs[-1] + half
        edges = [lo] + [0.5 * (a + b) for a, b in zip(xs, xs[1:])] + [up]
        return min(b - a for a, b in zip(edges, edges[1:])) / (up - lo)
    return None


# ------------------------------------------------------------------------------------------ scheduler construction


def _search_options(p, extra=None):
    so = {"debug_log": False}
    if p.get("rc") is not None:
        so["restrict_configurations"] = [dict(c) for c in p["rc"]]
    if p.get("allow_duplicates"):
        so["allow_duplicates"] = True
    so.update(extra or {})
    return so


def build_scheduler(p, space, pte, seed):
    from syne_tune.optimizer.schedulers import FIFOScheduler

    kind = p["kind"]
    common = dict(metric="loss", mode=p["mode"], random_seed=seed, points_to_evaluate=pte)
    if kind == "random":
        return FIFOScheduler(space, searcher="random", search_options=_search_options(p), **common)
    if kind == "grid":
        so = _search_options(p, {"num_samples": dict(p["num_samples"]), "shuffle_config": p["shuffle_config"],
                                 "allow_duplicates": bool(p["allow_duplicates"])})
        return FIFOScheduler(space, searcher="grid", search_options=so, **common)
    if kind == "bayesopt":
        return FIFOScheduler(space, searcher="bayesopt", search_options=_search_options(p, p["search_options"]), **common)
    if kind in ("hb_bayesopt", "hypertune"):
        hb = dict(p["hb"])
        if p["use_mra"]:
            hb["max_resource_attr"] = "epochs"
        return gen.build_hyperband(space, hb, seed, searcher="bayesopt" if kind == "hb_bayesopt" else "hypertune",
                                   search_options=_search_options(p, p["search_options"]), points_to_evaluate=pte)
    if kind in ("sync_hb", "dehb"):
        from syne_tune.optimizer.schedulers import synchronous as sy

        kw = dict(metric="loss", mode=p["mode"], resource_attr="epoch", random_seed=seed, points_to_evaluate=pte,
                  search_options=_search_options(p))
        if p["use_mra"]:
            kw["max_resource_attr"] = "epochs"
        else:
            kw["max_resource_level"] = p["max_t"]
        if kind == "sync_hb":
            return sy.SynchronousHyperbandScheduler(
                space, bracket_rungs=[[tuple(x) for x in b] for b in p["bracket_rungs"]], searcher="random", **kw)
        if p.get("dehb_searcher"):
            kw["searcher"] = p["dehb_searcher"]
            if p["dehb_searcher"] == "bayesopt":
                kw["search_options"] = _search_options(p, p.get("search_options") or CHEAP_GP)
        return sy.DifferentialEvolutionHyperbandScheduler(
            space, rungs_first_bracket=[tuple(x) for x in p["rungs_first_bracket"]],
            support_pause_resume=p["support_pause_resume"], **kw)
    if kind == "pbt":
        from syne_tune.optimizer.schedulers.pbt import PopulationBasedTraining

        return PopulationBasedTraining(
            space, resource_attr="epoch", max_t=p["max_t"], population_size=p["population_size"],
            perturbation_interval=p["perturbation_interval"], quantile_fraction=p["quantile_fraction"],
            resample_probability=p["resample_probability"], search_options=_search_options(p), **common)
    if kind == "regevo":
        from syne_tune.optimizer.schedulers.searchers.regularized_evolution import RegularizedEvolution

        searcher = RegularizedEvolution(space, metric="loss", points_to_evaluate=pte, mode=p["mode"],
                                        population_size=p["population_size"], sample_size=p["sample_size"],
                                        random_seed=seed)
        return FIFOScheduler(space, searcher=searcher, metric="loss", mode=p["mode"], random_seed=seed)
    raise ValueError(kind)


def _ctor_raise(orc, kind, e, desc):
    msg = str(e)
    mech = f"constructor_raised:{kind}:{type(e).__name__}"
    if "default_config[" in msg:
        key = msg.split("default_config[", 1)[1].split("]", 1)[0]
        P = desc.get(key)
        if P is not None and P["ctor"] != CONST:
            given = [pt[key] for pt in (orc.pte or []) if key in pt and isinstance(pt[key], (int, float))]
            outside = "lower" in P and any(not (P["lower"] <= g <= P["upper"]) for g in given)
            how = "member_outside_unrounded_bounds" if outside else c07._mcond(P)
            mech = f"initial_points:given_member_rejected:{P['ctor']}:{how}"
    orc.viol("construction", mech, {"error": repr(e)[:300]})


def _raise_key(kind, api, exc_name, msg):
    disc = ""
    if "must be str, int, or float" in msg:
        disc = ":numpy_scalar_reaches_encoder"
    elif "not contained in categories" in msg or "not in" in msg and "categories" in msg:
        disc = ":value_not_in_categories"
    return f"raised:{api}:{kind}:{exc_name}{disc}"


def why_none(obj, kind, restricted=False):
    """Does the library's own exclusion list consider the finite space used up? (read-only probe of private state;
    degrades to 'unknown'). Restricted search: is the library's working copy of the list empty?"""
    try:
        lists = []
        s = obj if kind.startswith("direct") else getattr(obj, "searcher", None)
        if restricted:
            return "restricted_list_empty" if not s._restrict_configurations else "restricted_list_not_empty"
        if kind == "dehb":
            lists.append(obj._excl_list)
        elif kind in GP_KINDS:
            excl = s._get_exclusion_candidates()
            lists.append(excl)
            if s._random_searcher is not None:
                lists.append(s._random_searcher._excl_list)
            if not any(x.config_space_exhausted() for x in lists) and not s._points_to_evaluate \
                    and not s._should_pick_random_config(excl):
                return "model_based_search_gave_up"  # the None came from the BO step, not from random sampling
        else:
            lists.append(s._excl_list)
        return "exclusion_list_full" if any(x.config_space_exhausted() for x in lists) else "retries_exhausted"
    except Exception:  # noqa: BLE001
        return "unknown"


class exclusion_contract:
    """Runtime contract on the real ExclusionList (patched in place for the duration of one case): a shadow set of the
    configurations added, keyed as documented (Domain.match_string: exact for discrete values, 7 significant digits for
    Float); contains() must agree with the shadow, add() must make contains() true."""

    def __init__(self, report, o):
        self.report, self.o = report, o

    def __enter__(self):
        from syne_tune.config_space import Float
        from syne_tune.optimizer.schedulers.searchers.utils.exclusion_list import ExclusionList as E

        self.E = E
        self.orig = {n: E.__dict__[n] for n in ("__init__", "add", "contains", "copy")}
        o_init, o_add, o_contains, o_copy = (self.orig[n] for n in ("__init__", "add", "contains", "copy"))
        report, o = self.report, self.o

        def key(self_, config):
            cs = self_.hp_ranges.config_space
            out = []
            for k in self_.keys:
                v = _plain(config[k])
                out.append(f"{v:.6e}" if isinstance(cs[k], Float) else v)
            return tuple(out)

        def __init__(self_, hp_ranges, configurations=None):
            o_init(self_, hp_ranges, configurations)
            self_._stv_shadow = None
            if configurations is None or isinstance(configurations, list):
                try:
                    self_._stv_shadow = {key(self_, c) for c in (configurations or [])}
                except Exception:  # noqa: BLE001
                    self_._stv_shadow = None

        def add(self_, config):
            o_add(self_, config)
            sh = getattr(self_, "_stv_shadow", None)
            if sh is not None:
                sh.add(key(self_, config))
            o.count("decided:exclusion_add")
            if not o_contains(self_, config):
                report("exclusion_list", "exclusion_list:add_without_contains", {"config": config})

        def contains(self_, config):
            r = o_contains(self_, config)
            sh = getattr(self_, "_stv_shadow", None)
            if sh is not None:
                o.count("decided:exclusion_contains")
                exp = key(self_, config) in sh
                if bool(r) != exp:
                    report("exclusion_list", "exclusion_list:contains_true_for_config_never_added" if r
                           else "exclusion_list:contains_false_for_added_config", {"config": config, "n_added": len(sh)})
            return r

        def copy(self_):
            c = o_copy(self_)
            sh = getattr(self_, "_stv_shadow", None)
            c._stv_shadow = None if sh is None else set(sh)
            return c

        E.__init__, E.add, E.contains, E.copy = __init__, add, contains, copy
        return self

    def __exit__(self, *a):
        for n, f in self.orig.items():
            setattr(self.E, n, f)
        return False


_NONFINITE = {"nan": float("nan"), "inf": float("inf"), "-inf": float("-inf")}


class NonFiniteMetrics:
    """Metric table with NaN / +-inf entries: isolated reports (rate) and whole trials (trial_prob), or an explicit plan
    {'<trial id>': v, '<trial id>@<level>': v} with v in 'nan' | 'inf' | '-inf'."""

    def __init__(self, curves, seed, rate, trial_prob, plan=None):
        self.curves, self.seed, self.rate, self.trial_prob = curves, seed, rate, trial_prob
        plan = plan or {}
        self.plan = {int(k): v for k, v in plan.items() if "@" not in str(k)}
        self.plan_at = {(int(str(k).split("@")[0]), int(str(k).split("@")[1])): v for k, v in plan.items() if "@" in str(k)}
        self.active = rate > 0 or trial_prob > 0 or bool(plan)

    def whole(self, tid):
        if tid in self.plan:
            return _NONFINITE[self.plan[tid]]
        if self.trial_prob > 0:
            r = random.Random(self.seed * 1000003 + tid * 7 + 1)
            if r.random() < self.trial_prob:
                return _NONFINITE[r.choice(["nan", "nan", "inf", "-inf"])]
        return None

    def __call__(self, tid, level, config=None):
        if self.active:
            if (tid, level) in self.plan_at:
                return _NONFINITE[self.plan_at[(tid, level)]]
            w = self.whole(tid)
            if w is not None:
                return w
            if self.rate > 0:
                r = random.Random(self.seed * 1000003 + tid * 1009 + level * 13 + 5)
                if r.random() < self.rate:
                    return _NONFINITE[r.choice(["nan", "inf", "-inf"])]
        return self.curves(tid, level, config)


# ------------------------------------------------------------------------------------------ vtuner monitor


class Monitor:
    def __init__(self, orc, p, sched, joblog):
        self.orc, self.p, self.sched, self.joblog = orc, p, sched, joblog
        self.kind = p["kind"]

    def pre_suggest(self, vt, next_id):
        if self.joblog is not None:
            self.joblog.clear()

    def post_result(self, vt, t, result, decision):
        v = result.get("loss")
        if isinstance(v, float) and (v != v or v in (float("inf"), float("-inf"))):
            self.orc.o.count("nonfinite_reports")
            if decision in ("STOP", "PAUSE"):
                self.orc.nonfinite_done.add(t.trial_id)
        else:
            self.orc.nonfinite_done.discard(t.trial_id)

    def post_complete(self, vt, t):
        v = (t.last_result or {}).get("loss")
        if isinstance(v, float) and (v != v or v in (float("inf"), float("-inf"))):
            self.orc.nonfinite_done.add(t.trial_id)
            self.orc.o.count("trials_finished_with_nonfinite_metric")

    def _gp_model_based(self):
        s = getattr(self.sched, "searcher", None)
        try:
            return s is not None and len(s.state_transformer.state.trials_evaluations) > 0
        except Exception:  # noqa: BLE001 - read-only probe for a counter
            return False

    def post_suggest(self, vt, next_id, sugg, t):
        orc, o = self.orc, self.orc.o
        if sugg is None:
            orc.on_none({"running": len(vt.running)}, why_none(self.sched, self.kind, orc.rc_set is not None))
            return
        if sugg.config is not None:
            orc.check_config(sugg.config, "new" if sugg.spawn_new_trial_id else "resume")
        o.count("suggestions")
        if not sugg.spawn_new_trial_id:
            orc.tags.append("R")
            o.count("resume_suggestions")
            return
        status_of = {tid: tr.status for tid, tr in vt.trials.items() if tid != next_id}
        fresh, exempt, tag = True, False, None
        if self.kind == "pbt" and sugg.checkpoint_trial_id is not None:
            fresh, tag = False, "E"
            o.count("pbt_explore_suggestions")
            if orc.ref is not None and orc.n_fresh < len(orc.ref):
                o.count("note:pbt_explore_before_initial_points_done")
        if self.kind == "dehb":
            if self.joblog is None or len(self.joblog) != 1:
                o.inconclusive("dehb_next_job_not_observed")
            else:
                b, rung = self.joblog[0]
                if self.p.get("dehb_searcher"):
                    o.count("dehb_suggestions_with_searcher")
                    if b > 0:
                        o.count("dehb_suggestions_beyond_first_bracket_with_searcher")
                if b == 0 and rung > 0:
                    fresh, exempt, tag = False, True, "P"  # first-bracket promotion issued under a new trial id
                    o.count("dehb_promotion_as_new_trial")
        before = orc.post_initial
        orc.on_new(next_id, sugg.config, status_of, fresh=fresh, exempt_repeat=exempt, tag=tag)
        if self.kind in GP_KINDS and orc.post_initial > before and self._gp_model_based():
            o.count("gp_model_based_suggestions")
            for k in orc.hp:
                P, v = orc.desc[k], sugg.config.get(k)
                if P["ctor"] in ("loguniform", "reverseloguniform") and P["lower"] < P["upper"] and isinstance(v, float):
                    for which in ("lower", "upper"):
                        if v == P[which] and non_round_tripping_bound(P, which):
                            o.count("gp_suggestion_clipped_onto_non_round_tripping_log_bound")


def run_scheduler_case(spec, p, o):
    desc = p["space"]
    kind = p["kind"]
    use_mra = p["use_mra"]
    if use_mra:
        desc = dict(desc)
        desc["epochs"] = {"ctor": CONST, "value": p["max_t"]}
    space = build_space(desc)
    promise = (not p["allow_duplicates"]) and kind not in ("pbt", "regevo")
    grid = {"num_samples": p["num_samples"], "allow_duplicates": bool(p["allow_duplicates"])} if kind == "grid" else None
    if kind == "regevo" and space_size(desc) == 1:
        desc = dict(desc)
        desc["extra_u"] = {"ctor": "uniform", "lower": 0.0, "upper": 1.0}
        space = build_space(desc)
    orc_probe = Oracle(o, kind, desc, space, None, promise, mra_key="epochs" if use_mra else None, grid=grid)
    orc_probe.prepare_initial()
    rc = p.get("rc")
    if rc is None and p.get("restrict"):
        rc = gen_rc(p["rc_seed"], desc, space, orc_probe.matchstr)
        if len(rc) < 1 or orc_probe.below_resolution:
            rc = None  # members could not be told apart from other points by the library's match string
    p["rc"] = rc
    if rc is not None:
        orc_probe.set_restricted(rc)
        o.count("restricted_histories:" + kind)
    medium = None
    if p.get("medium"):
        medium = medium_plan(p, desc, orc_probe.values)
    if "pte" in p:
        pte = p["pte"]
    elif medium is not None:
        pte = medium[0]
    elif rc is not None:
        pte = gen_pte_rc(random.Random(p["pte_seed"]), rc, desc, orc_probe.values)
    else:
        pte = gen_pte(random.Random(p["pte_seed"]), {k: v for k, v in desc.items()}, orc_probe.values,
                      orc_probe.lib_mid if orc_probe.ref_ok else None)
        if kind == "dehb" and pte and random.Random(p["pte_seed"] + 1).random() < 0.9:
            pte = pte[: p["rungs_first_bracket"][0][0]]  # more initial points than base-rung slots: rarely (see findings)
    orc = orc_probe
    orc.pte = pte
    if kind == "dehb":
        orc.dehb_base = p["rungs_first_bracket"][0][0]
        if p.get("dehb_searcher"):
            o.count("dehb_with_searcher:" + p["dehb_searcher"])
    orc.make_reference()
    seed = spec["seed"] % (2 ** 31)
    try:
        sched = build_scheduler(p, space, pte, seed)
    except Exception as e:  # noqa: BLE001
        _ctor_raise(orc, kind, e, desc)
        return orc, None
    o.count("kind:" + kind)
    joblog = None
    if kind == "dehb":
        joblog = []
        mgr = sched.bracket_manager
        orig_next = mgr.next_job

        def next_job():
            r = orig_next()
            joblog.append((r[0], r[1].rung_index))
            return r

        mgr.next_job = next_job
    rng = random.Random(spec["seed"] + 3)
    fail = dict(p.get("fail") or {})
    if p["fail_rate"] > 0 and not fail:
        for tid in range(200):
            if rng.random() < p["fail_rate"]:
                fail[str(tid)] = [0, rng.randint(0, max(0, min(p["max_t"], 3) - 1))]
    base_metric = CornerMetric(desc, p["corner_signs"], p["mode"]) if p.get("corner") else \
        gen.Curves(p["curves"], spec["seed"] + 1, p["max_t"])
    curves = NonFiniteMetrics(base_metric, spec["seed"] + 4,
                              p["nonfinite_rate"], p["nonfinite_trials"], p.get("nonfinite_plan"))
    vp = {"n_workers": p["n_workers"], "max_t": p["max_t"], "metric": "loss", "resource_attr": "epoch",
          "policy": p["policy"], "seed": spec["seed"] + 2, "max_events": p["max_events"],
          "max_resource_attr": "epochs" if use_mra else None, "checkpointing": p.get("checkpointing", True),
          "fail": fail, "order": p.get("order"), "pbt_restart_levels": True}
    if medium is not None and not p.get("order"):
        vp.update({"fail": medium[1], "order": medium[2], "max_events": len(medium[2]) + 5, "n_workers": 10 ** 6})
    if rc is not None and kind in GP_KINDS and not p.get("rc_ask_beyond"):
        # the GP searchers raise when asked again after the list is used up (see findings): mostly not asked
        vp["max_trials"] = len(orc.rc_set)
    mon = Monitor(orc, p, sched, joblog)
    vt = VTuner(Port(sched), vp, curves, monitors=[mon]).run()
    if vt.raised:
        api, exc_name = vt.raised[0], vt.raised[1]
        if api == "suggest" and exc_name != "resume_of_non_paused":
            key = _raise_key(kind, api, exc_name, str(vt.raised[2]))
            if orc.rc_set is not None:
                used_up = len(orc.by_tpl) >= orc.size
                if orc.n_new == 0 and orc.ref is not None and len(orc.ref) >= orc.size:
                    key += ":every_restricted_configuration_is_an_initial_point"
                else:
                    key += ":restricted_set_used_up" if used_up else ":restricted_set_not_used_up"
                if used_up:
                    o.count("restricted_set_used_up_then_raised")
            elif o.counters.get("nonfinite_reports"):
                key += ":after_nonfinite_metric_report"
            orc.viol("no_raise", key, {"raised": vt.raised, "n_suggestions": orc.n_new})
        elif api == "suggest":
            o.count("other:resume_of_non_paused_trial")
        else:
            o.count(f"other_api_raised:{api}:{exc_name}")
    orc.grid_finish()
    if medium is not None and orc.ref is not None and orc.n_fresh >= len(orc.ref):
        # the model-based searcher was asked with only a handful of configurations left
        o.count("nearly_exhausted_medium_space:" + kind)
        o.count(f"medium_space_remaining:{medium[3]}")
        o.count("medium_space_configurations", medium[4])
    if p.get("corner"):
        o.count("corner_optimum_histories:" + kind)
    if any(e[0] == "error" for e in vt.events):
        o.count("histories_with_failure")
    for ev in vt.events[-50:]:
        o.ev(*ev)
    return orc, vt


# ------------------------------------------------------------------------------------------ direct searcher use


def run_direct_case(spec, p, o):
    from syne_tune.optimizer.schedulers.searchers import RandomSearcher, GridSearcher

    desc = p["space"]
    kind = p["kind"]
    space = build_space(desc)
    grid = {"num_samples": p["num_samples"], "allow_duplicates": bool(p["allow_duplicates"])} if kind == "direct_grid" else None
    orc = Oracle(o, kind, desc, space, None, not p["allow_duplicates"], scheduler_level=False, grid=grid)
    orc.prepare_initial()
    rc = p.get("rc")
    if rc is None and p.get("restrict"):
        rc = (gen_rc(p["rc_seed"], desc, space, orc.matchstr) or None) if not orc.below_resolution else None
    if rc is not None:
        orc.set_restricted(rc)
        o.count("restricted_histories:" + kind)
    if "pte" in p:
        pte = p["pte"]
    elif rc is not None:
        pte = gen_pte_rc(random.Random(p["pte_seed"]), rc, desc, orc.values)
    else:
        pte = gen_pte(random.Random(p["pte_seed"]), desc, orc.values, orc.lib_mid if orc.ref_ok else None)
    orc.pte = pte
    orc.make_reference()
    seed = spec["seed"] % (2 ** 31)
    try:
        if kind == "direct_random":
            s = RandomSearcher(space, metric="loss", points_to_evaluate=pte, random_seed=seed,
                               allow_duplicates=bool(p["allow_duplicates"]),
                               restrict_configurations=None if rc is None else [dict(c) for c in rc])
        else:
            s = GridSearcher(space, metric="loss", points_to_evaluate=pte, random_seed=seed,
                             num_samples=dict(p["num_samples"]), shuffle_config=p["shuffle_config"],
                             allow_duplicates=bool(p["allow_duplicates"]))
    except Exception as e:  # noqa: BLE001
        _ctor_raise(orc, kind, e, desc)
        return orc
    o.count("kind:" + kind)
    rng = random.Random(spec["seed"] + 5)
    status = {}
    cfgs = {}
    n = 0
    steps = p["steps"]
    actions = p.get("order")
    for step in range(steps):
        pend = [t for t, st in status.items() if st == "running"]
        if actions is not None:
            if step >= len(actions):
                break
            a = actions[step]
        else:
            a = "s" if (not pend or len(pend) < p["n_workers"] and rng.random() < 0.6) else rng.choice(["c", "c", "f"])
        if a == "s":
            try:
                cfg = s.get_config(trial_id=str(n))
            except Exception as e:  # noqa: BLE001
                orc.viol("no_raise", _raise_key(kind, "get_config", type(e).__name__, str(e)), {"error": repr(e)[:300]})
                break
            o.ev("get_config", n, None if cfg is None else "config")
            if cfg is None:
                orc.on_none({"pending": len(pend)}, why_none(s, kind, orc.rc_set is not None))
                break
            o.count("suggestions")
            orc.check_config(dict({k: P["value"] for k, P in desc.items() if P["ctor"] == CONST}, **cfg), "new")
            orc.on_new(n, cfg, dict(status))
            status[n] = "running"
            cfgs[n] = cfg
            try:
                s.register_pending(trial_id=str(n), config=cfg)
            except Exception as e:  # noqa: BLE001
                o.count(f"other_api_raised:register_pending:{type(e).__name__}")
                break
            n += 1
        elif pend:
            t = rng.choice(pend)
            try:
                if a == "c":
                    r_ = rng.random()
                    val = rng.random() if r_ > 0.08 else rng.choice([float("nan"), float("inf"), float("-inf")])
                    if r_ <= 0.08:
                        o.count("nonfinite_reports")
                        orc.nonfinite_done.add(t)
                    s.on_trial_result(str(t), cfgs[t], result={"loss": val}, update=True)
                    status[t] = "completed"
                else:
                    s.evaluation_failed(str(t))
                    status[t] = "failed"
                    o.ev("failed", t)
            except Exception as e:  # noqa: BLE001
                o.count(f"other_api_raised:{'on_trial_result' if a == 'c' else 'evaluation_failed'}:{type(e).__name__}")
                break
    orc.grid_finish()
    if any(st == "failed" for st in status.values()):
        o.count("histories_with_failure")
    return orc


def run_case(spec):
    o = Obs()
    p = expand(spec)
    contract_viol = []
    with exclusion_contract(lambda c, m, d: contract_viol.append((c, m, d)), o):
        if p["kind"].startswith("direct"):
            orc = run_direct_case(spec, p, o)
            vt = None
        else:
            orc, vt = run_scheduler_case(spec, p, o)
    for c, m, d in contract_viol:
        orc.viol(c, m, d)
    decode_cube_corners(orc, spec["seed"] + 9)
    if orc.rc_set is not None and len(orc.by_tpl) >= orc.size and not orc.viol_keys - {
            m for m in orc.viol_keys if m.endswith(":restricted_set_used_up")}:
        o.count("restricted_sets_fully_suggested")
        if orc.rc_has_duplicates:
            o.count("restricted_lists_with_duplicates_fully_suggested")
        o.count("restricted_sets_fully_suggested:" + p["kind"])
    gdesc = _gen_format(orc.desc)
    if gdesc is not None:
        o.count("space_size_crosschecked_with_gen")
        if gen.space_size(gdesc) != orc.size:
            o.inconclusive("space_size_differs_from_gen_space_size")
    shape = sorted((P["ctor"], (dom_count(P) or -1) if P["ctor"] != CONST else 0) for P in orc.desc.values())
    o.set_sig((p["kind"], orc.tags, shape, p["allow_duplicates"], None if orc.rc_set is None else len(orc.rc_set)),
              nontrivial=orc.post_initial > 0)
    o.sample = {
        "kind": p["kind"], "space": orc.desc, "points_to_evaluate": orc.pte, "allow_duplicates": p["allow_duplicates"],
        "restrict_configurations": p.get("rc"),
        "space_size": orc.size, "reference_initial_points": None if orc.ref is None else len(orc.ref),
        "suggestion_tags": "".join(x[0] for x in orc.tags)[:80], "new_trials": orc.n_new,
        "distinct_configs": len(orc.by_tpl), "events": None if vt is None else len(vt.events),
        "n_workers": p["n_workers"], "policy": p["policy"],
    }
    return o.result()
