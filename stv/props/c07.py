"""C07 — domains: samples and decoded vectors are members; encoding round-trips.

Monitor: domains are built through every public constructor of ``syne_tune.config_space`` from
generated, hostile but *legal* parameters; the real samplers, ``cast``, and the real
``HyperparameterRanges`` (``make_hyperparameter_ranges``) encoder/decoder are executed on them.
Membership is decided by an oracle written from the documentation (bounds / listed values / type as
*given to the constructor*, not ``Domain.is_valid``). Each domain is probed alone (so that every
failure is attributed to one constructor + degenerate condition + clause) and then the domains of a
case are combined into one space and the composition is checked against the single-domain results.
"""
import json
import math
import random

from stv import envshim  # noqa: F401
from stv.obs import Obs

import numpy as np

ID = "C07"
LEVEL = "exploration"
RULE = (
    "case = a configuration space of 1..6 domains, each (constructor, cell) with cell in {generic, degenerate}; "
    "parameters are drawn inside the constructor's documented preconditions: magnitudes 1e-12..1e12, lower==upper, "
    "upper=nextafter(lower), narrow intervals, log-integer ranges up to 1e12, 1..64 categories / range sizes, "
    "quantisation dividing / not dividing integer bounds, decimal-literal float bounds for quantised floats, "
    "cast_int with collisions / non-integer bounds, one category. Each domain gets >= 40 probes: samples of size 1 "
    "and k under several RandomStates, cast of members, decoding of unit-cube points (random, corners, edge "
    "midpoints, bin borders k/n +- 1e-9), encoding + decoding of members, bounds, active sub-range, fixed last "
    "position, JSON round trip; then the space as a whole is checked against the per-domain results. "
    "Naming / ordering: 3 ranges per space with random key names, name_last_pos on a first / middle / last key "
    "combined with prefix_keys (often a key sorting after it), an active sub-space and a fixed value; internal_keys "
    "vs the documented order, encoded_ranges, bound blocks, encoded / decoded column blocks per key vs the "
    "single-domain ranges of that key, config_to_tuple / tuple_to_config / config_to_match_string (default, "
    "skip_last, keys=...). "
    "Multi-step histories on ONE live ranges object (single domain, whole space, ExtendedConfiguration's "
    "hp_ranges_ext): value_for_last_pos is re-assigned 3..7 times (other member, same, earlier value, None) and "
    "after every assignment, in random order, get_ndarray_bounds / vectors inside the bounds / random_config(s) / "
    "to_ndarray / from_ndarray are re-checked against the current fixed value and against a freshly built object. "
    "Distinct = digest of the tuple of (constructor, degenerate condition, encoded size, outcome flags); "
    "non-trivial = at least one domain had members encoded and decoded back."
)
ASSUMPTIONS = [
    "legal parameters only: what the constructor docstrings / asserts / ValueErrors allow (quantised floats: q divides "
    "the bounds in the constructor's own isclose sense; lograndint/loguniform/logfinrange/nn-log: positive; "
    "reverseloguniform: 0 <= lower <= upper < 1; ordinal nn: strictly increasing int/float); size-1 finite ranges are "
    "treated as legal (FiniteRange asserts size >= 1 and the repository's own tests use finrange(0.1, 1.0, 1))",
    "bounds and values have magnitude in [1e-12, 1e12] (integers |x| <= 1e12, so they are exact in float64)",
    "member of a quantised domain = right type and inside [lower, upper] (the property does not demand a multiple of q)",
    "member of a finite range = one of domain.values; domain.values itself is compared with an independent "
    "computation (equal spacing in linear / log scale, ends are lower and upper, rint for cast_int; values whose "
    "pre-image is within 1e-9 of a .5 rounding border are counted as roundoff_band, not judged)",
    "continuous round-trip band: |decoded - x| <= 1e-7 * |x| for log-scaled floats (loguniform), "
    "<= 1e-7 * max(|x|, upper - lower) for linearly / reverse-log encoded floats (a [0,1] coordinate resolves the "
    "width, not the value, when the interval contains values much smaller than its width)",
    "ordinal nn / nn-log categories: (largest - smallest) / (smallest gap) <= 1e9 in the (log) value space, so that "
    "neighbours differ by far more than float64 round-off in the single encoded coordinate",
    "right type = isinstance(value, domain.value_type) (numpy.float64 is a float; numpy integer types are not int)",
    "vectors passed to from_ndarray have every coordinate in [0, 1] exactly",
    "ordering rule taken from the HyperparameterRanges docstring: keys sorted; prefix_keys first in the given order; "
    "the name_last_pos key moved to the end; prefix_keys never contains the name_last_pos key (the two documented "
    "rules would contradict each other there)",
    "histories: value_for_last_pos is a public attribute that callers re-assign on a live object (the multi-fidelity "
    "GP searcher does before every get_config); only members whose plain round trip held are assigned; what a live "
    "object returns must equal what a freshly constructed object with the same arguments returns (exact equality of "
    "bounds, encodings, decoded and sampled configurations under the same RandomState)",
    "cast(member) only has to be a member (the statement does not demand cast(member) == member); a cast that moves a "
    "member to another member is counted (note:cast_changes_member), not judged",
    "active sub-ranges are legal domains of the same constructor inside the full range (choice: any non-empty subset, "
    "ordinals: contiguous subsequence, finite ranges: not applicable - documented assert); for continuous domains a "
    "vector inside the active bounds may decode outside the active interval by at most the round-trip band",
    "a violation in the sampler of a domain is reported once per domain under one key whether it was seen through "
    "Domain.sample, random_config of the single-domain ranges (active space) or random_config of the whole space, "
    "provided the value equals what the domain's own sampler returns for the same RandomState",
]
CASE_TIMEOUT = 120
SHARDS_PER_JOB = 4

CTORS = [
    "uniform", "loguniform", "reverseloguniform", "randint", "lograndint",
    "quniform", "qloguniform", "qrandint", "qlograndint",
    "choice", "ordinal_equal", "ordinal_nn", "ordinal_nnlog",
    "finrange", "logfinrange", "finrange_int", "logfinrange_int",
]
FAM = {
    "uniform": "float", "loguniform": "float", "reverseloguniform": "float", "quniform": "float",
    "qloguniform": "float", "randint": "int", "lograndint": "int", "qrandint": "int", "qlograndint": "int",
    "choice": "cat", "ordinal_equal": "cat", "ordinal_nn": "cat", "ordinal_nnlog": "cat",
    "finrange": "fin", "logfinrange": "fin", "finrange_int": "fin", "logfinrange_int": "fin",
}
CELLS = ("generic", "degenerate")


def preload():
    import syne_tune.config_space  # noqa: F401
    import syne_tune.optimizer.schedulers.searchers.utils.hp_ranges_factory  # noqa: F401


def cases(tier, seed):
    n = 2000 if tier == "quick" else 28000
    plan_cells = [(c, cell) for c in CTORS for cell in CELLS]
    out = []
    pos = 0
    for i in range(n):
        rng = random.Random(f"plan:{seed}:{i}")
        k = 1 + (i % 6)
        plan = []
        for _ in range(k):
            # round-robin over the 34 cells guarantees the per-cell floor; order inside a space is shuffled
            plan.append(list(plan_cells[pos % len(plan_cells)]))
            pos += 1
        rng.shuffle(plan)
        out.append({"seed": seed * 1000003 + i, "plan": plan})
    return out


def floors(tier):
    c = 50 if tier == "quick" else 2000
    f = {f"cell:{ct}:{cell}": c for ct in CTORS for cell in CELLS}
    m = 1 if tier == "quick" else 25
    f.update({
        "decided:roundtrip": 10000 * m,
        "decided:sample_member": 20000 * m,
        "decided:decode_member": 20000 * m,
        "decided:cast_member": 10000 * m,
        "decided:encode_shape_range": 10000 * m,
        "decided:bounds": 2000 * m,
        "decided:active_decode": 5000 * m,
        "decided:active_random_config": 2000 * m,
        "decided:fixed_last_pos": 2000 * m,
        "decided:json_roundtrip": 2000 * m,
        "decided:json_encodes_identically": 5000 * m,
        "decided:finite_values": 500 * m,
        "decided:space_composition": 500 * m,
        "decided:space_json": 500 * m,
        # histories on one live ranges object (value_for_last_pos re-assigned between calls)
        "decided:history_step": 10000 * m,
        "decided:history_bounds": 10000 * m,
        "decided:history_decode": 20000 * m,
        "decided:history_random_config": 5000 * m,
        "decided:history_encode": 3000 * m,
        "history:value_changed": 5000 * m,
        "history:unfixed": 1000 * m,
        "history:value_changed:single": 2000 * m,
        "history:value_changed:space": 500 * m,
        "history:value_changed:ext": 500 * m,
        "history:value_changed:onehot_last_pos": 250 * m,
        "history:value_changed:int_last_pos": 1000 * m,
        "history:value_changed:float_last_pos": 500 * m,
        "history:value_changed:cat_last_pos": 300 * m,
        "history:value_changed:fin_last_pos": 300 * m,
        # naming / ordering under name_last_pos combined with the other ordering features
        "decided:order_variant": 2000 * m,
        "decided:order_bounds": 2000 * m,
        "decided:order_columns": 15000 * m,
        "decided:order_tuple": 5000 * m,
        "decided:order_sampling": 2000 * m,
        "order:last_moved+prefix_any": 1000 * m,
        "order:last_moved+prefix_key_sorting_after_last": 800 * m,
        "order:last_is_first_key+prefix": 300 * m,
        "order:last_moved_3plus_keys": 1000 * m,
        "order:last_moved+prefix+active": 100 * m,
        "order:last_moved+prefix+fixed": 100 * m,
        "order:last_moved+prefix+active+fixed": 50 * m,
        "order:last_moved+active": 30 * m,
        "order:prefix": 60 * m,
    })
    return f


# --------------------------------------------------------------------------- parameter generation


def _mag(rng, lo=-12.0, hi=12.0):
    return 10.0 ** rng.uniform(lo, hi)


def _nxt(x):
    return float(np.nextafter(x, math.inf))


def _gen_float_bounds(rng, ctor, cell):
    """(lower, upper) for uniform / loguniform / reverseloguniform."""
    if ctor == "uniform":
        if cell == "generic":
            m = _mag(rng, -6, 6)
            lower = rng.choice([-1, 1, 1, 0]) * m * rng.uniform(0.1, 1)
            upper = lower + m * rng.uniform(0.01, 10)
            if rng.random() < 0.15:  # integer-typed arguments, as in the documentation: uniform(0, 1)
                lower = int(rng.randint(-5, 5))
                upper = lower + rng.randint(1, 10)
            return lower, upper
        kind = rng.choice(["eq", "eq_int", "adjacent", "narrow", "huge", "tiny", "zero_span"])
        m = _mag(rng)
        s = rng.choice([-1, 1])
        if kind == "eq":
            x = s * m
            return x, x
        if kind == "eq_int":
            x = rng.randint(-3, 3)
            return x, x
        if kind == "adjacent":
            x = s * m
            return x, _nxt(x)
        if kind == "narrow":
            x = s * m
            return x, x + abs(x) * 10.0 ** rng.uniform(-14, -9.5)
        if kind == "huge":
            m = _mag(rng, 9, 12)
            return -m * rng.random(), m * rng.uniform(0.5, 1)
        if kind == "tiny":
            m = _mag(rng, -12, -9.5)
            lower = s * m * rng.uniform(0.1, 0.5)
            return lower, lower + m * rng.uniform(0.1, 0.5)
        m = _mag(rng, 3, 12)  # interval around 0 that is many orders wider than small members
        return -m, m
    if ctor == "loguniform":
        if cell == "generic":
            lower = _mag(rng, -6, 3)
            return lower, min(lower * 10.0 ** rng.uniform(0.01, 5), 9e8)
        kind = rng.choice(["eq", "eq_int", "adjacent", "narrow", "huge", "tiny", "full"])
        m = _mag(rng)
        if kind == "eq":
            return m, m
        if kind == "eq_int":  # as in the repository's own tests: loguniform(1, 1)
            x = rng.randint(1, 5)
            return x, x
        if kind == "adjacent":
            return m, _nxt(m)
        if kind == "narrow":
            return m, m * (1 + 10.0 ** rng.uniform(-14, -9.5))
        if kind == "huge":
            lower = _mag(rng, 0, 11)
            return lower, 10.0 ** rng.uniform(max(9.0, math.log10(lower) + 0.1), 12)
        if kind == "tiny":
            lower = _mag(rng, -12, -10)
            return lower, min(lower * rng.uniform(1.5, 20), 9.9e-10)
        return 1e-12, 1e12
    # reverseloguniform: 0 <= lower <= upper < 1
    if cell == "generic":
        lower = rng.choice([0.0, rng.uniform(0, 0.99), 1 - 10.0 ** rng.uniform(-4, -1)])
        upper = 1 - (1 - lower) * 10.0 ** (-rng.uniform(0.01, 3))
        upper = min(upper, 1 - 2e-9)
        if not lower < upper:
            lower, upper = 0.5, 0.99
        return lower, upper
    kind = rng.choice(["eq", "eq0", "adjacent", "narrow", "near1", "tiny", "full"])
    if kind == "eq":
        x = rng.choice([rng.random(), 1 - _mag(rng, -12, -1), _mag(rng, -12, -1)])
        return x, x
    if kind == "eq0":
        return 0.0, 0.0
    if kind == "adjacent":
        x = rng.choice([rng.random() * 0.99, 1 - _mag(rng, -12, -1), _mag(rng, -12, -1)])
        return x, _nxt(x)
    if kind == "narrow":
        x = rng.uniform(0.01, 0.98)
        return x, x * (1 + 10.0 ** rng.uniform(-14, -9.5))
    if kind == "near1":
        upper = rng.choice([float(np.nextafter(1.0, 0.0)), 1 - _mag(rng, -12, -9.5)])
        return rng.choice([0.0, rng.random() * 0.9, 1 - 1e-6]), upper
    if kind == "tiny":
        m = _mag(rng, -12, -10)
        return rng.choice([0.0, m]), m * rng.uniform(1.5, 9)
    return 0.0, float(np.nextafter(1.0, 0.0))


def _gen_int_bounds(rng, ctor, cell):
    log = ctor in ("lograndint", "qlograndint")
    if cell == "generic":
        lower = rng.randint(1, 100) if log else rng.randint(-1000, 1000)
        return lower, lower + rng.choice([1, 2, 3, rng.randint(4, 100), rng.randint(100, 100000)])
    kind = rng.choice(["eq", "eq", "huge", "huge_range", "huge_offset"])
    if kind == "eq":
        x = rng.randint(1, 10 ** rng.randint(1, 12)) if log else rng.randint(-(10 ** 6), 10 ** 6)
        return x, x
    if kind == "huge":
        lower = rng.randint(1, 10 ** 6) if log else -rng.randint(10 ** 9, 10 ** 12)
        return lower, rng.randint(10 ** 9, 10 ** 12)
    if kind == "huge_range":
        return (1, 10 ** 12) if log else (-(10 ** 12), 10 ** 12)
    lower = rng.randint(10 ** 9, 10 ** 12 - 100) * (1 if log else rng.choice([-1, 1]))
    return lower, lower + rng.randint(1, 50)


def _gen_categories(rng, ctor, cell):
    n = 1 if cell == "degenerate" and rng.random() < 0.7 else rng.randint(2, 64)
    if rng.random() < 0.25:
        n = min(n, rng.randint(2, 4)) if n > 1 else 1
    if ctor in ("choice", "ordinal_equal"):
        tp = rng.choice(["str", "str", "int", "float"])
        if cell == "degenerate" and n > 1:
            n = 2  # binary encoding of choice; the other degenerate cell besides one category
        if tp == "str":
            pool = ["a", "b", "relu", "tanh", "", " ", "é", "A", "0", "1", "1.0", "None", "x y", "日本"]
            cats = list(dict.fromkeys(rng.choice(pool) + (str(j) if j >= 3 else "") for j in range(n * 2)))[:n]
            while len(cats) < n:
                cats.append(f"c{len(cats)}")
        elif tp == "int":
            cats = rng.sample(range(-200, 200), n)
            if rng.random() < 0.3:
                cats = [c * 10 ** 9 for c in cats]
        else:
            cats = list(dict.fromkeys(rng.choice([-1, 1]) * _mag(rng, -6, 6) for _ in range(n)))
            while len(cats) < n:
                cats.append(float(len(cats)))
        return cats
    log = ctor == "ordinal_nnlog"
    as_int = rng.random() < 0.5
    # gaps in the (log) value space; degenerate (n > 1): very uneven gaps (ratio up to 1e9 overall)
    if cell == "generic":
        gaps = [rng.uniform(0.2, 3.0) for _ in range(n - 1)]
    else:
        gaps = [10.0 ** rng.uniform(-3.0, 3.0) for _ in range(n - 1)]
    if n > 1:
        mn = min(gaps)
        gaps = [min(g, mn * 1e9 / n) for g in gaps]
    if log:
        if as_int:
            x = rng.randint(1, 50)
            cats = [x]
            for g in gaps:
                x = max(x + 1, int(round(x * math.exp(min(g, 3.0)))))
                if x > 10 ** 12:
                    break
                cats.append(x)
            return cats
        x = _mag(rng, -12, 0) if cell == "degenerate" else _mag(rng, -4, 1)
        cats = [x]
        for g in gaps:
            x = x * math.exp(min(g, 3.0) * 0.3)
            if x > 1e12:
                break
            cats.append(x)
        return cats
    scale = _mag(rng, -12, 9) if cell == "degenerate" else _mag(rng, -3, 3)
    if as_int:
        x = rng.randint(-100, 100) if cell == "generic" else rng.choice([-1, 1]) * rng.randint(1, 10 ** 11)
        cats = [x]
        for g in gaps:
            x = x + max(1, int(round(g * (3 if cell == "generic" else 1))))
            cats.append(x)
        return cats
    x = rng.choice([-1, 1, 0]) * scale * rng.random()
    cats = [x]
    for g in gaps:
        nx = x + g * scale
        if not nx > x or abs(nx) > 1e12:
            break
        x = nx
        cats.append(x)
    return cats


def _gen_params(rng, ctor, cell):
    """JSON parameter dict of one domain; only arguments the constructor documents as legal."""
    fam = FAM[ctor]
    if ctor in ("uniform", "loguniform", "reverseloguniform"):
        lower, upper = _gen_float_bounds(rng, ctor, cell)
        return {"ctor": ctor, "lower": lower, "upper": upper}
    if ctor in ("randint", "lograndint"):
        lower, upper = _gen_int_bounds(rng, ctor, cell)
        return {"ctor": ctor, "lower": lower, "upper": upper}
    if ctor in ("quniform", "qloguniform"):
        log = ctor == "qloguniform"
        if cell == "generic":
            q = rng.choice([0.5, 0.25, 0.125, 1.0, 2.0, 4.0, 0.1, 0.01, 0.2, 0.3, 0.005, 10.0, 1])
            a = rng.randint(1, 20) if log else rng.randint(-20, 20)
            b = a + rng.randint(1, 200)
            return {"ctor": ctor, "lower": a * q, "upper": b * q, "q": q}
        kind = rng.choice(["eq", "literal", "literal", "huge_q", "tiny_q", "one_step"])
        if kind == "eq":
            q = rng.choice([0.5, 0.25, 0.1, 0.3, 2.0, 1e-3])
            a = rng.randint(1, 50)
            return {"ctor": ctor, "lower": a * q, "upper": a * q, "q": q}
        if kind == "literal":  # bounds written as decimal literals, q a decimal fraction: 3 * 0.1 != 0.3
            digits = rng.randint(1, 4)
            q = round(rng.randint(1, 9) * 10.0 ** (-digits), digits)
            a = rng.randint(1, 30) if log else rng.randint(-30, 30)
            b = a + rng.randint(0, 40)
            return {"ctor": ctor, "lower": round(a * q, digits), "upper": round(b * q, digits), "q": q}
        if kind == "huge_q":
            q = float(2 ** rng.randint(30, 36))
            a = rng.randint(1, 8)
            return {"ctor": ctor, "lower": a * q, "upper": (a + rng.randint(1, 5)) * q, "q": q}
        if kind == "tiny_q":
            q = 2.0 ** (-rng.randint(30, 39))
            a = rng.randint(1, 8)
            return {"ctor": ctor, "lower": a * q, "upper": (a + rng.randint(1, 5)) * q, "q": q}
        q = rng.choice([0.5, 0.1, 3.0])
        a = rng.randint(1, 9)
        return {"ctor": ctor, "lower": a * q, "upper": (a + 1) * q, "q": q}
    if ctor in ("qrandint", "qlograndint"):
        log = ctor == "qlograndint"
        if cell == "generic":
            q = rng.randint(1, 10)
            a = rng.randint(1, 20) if log else rng.randint(-20, 20)
            return {"ctor": ctor, "lower": a * q, "upper": (a + rng.randint(1, 100)) * q, "q": q}
        kind = rng.choice(["not_dividing", "not_dividing", "eq", "huge", "q_gt_range"])
        if kind == "not_dividing":
            q = rng.randint(2, 12)
            lower = rng.randint(1, 60) if log else rng.randint(-60, 60)
            upper = lower + rng.randint(0, 40)
            if lower % q == 0 and upper % q == 0:
                upper += 1
            return {"ctor": ctor, "lower": lower, "upper": upper, "q": q}
        if kind == "eq":
            q = rng.randint(1, 9)
            a = rng.randint(1, 100)
            return {"ctor": ctor, "lower": a * q, "upper": a * q, "q": q}
        if kind == "huge":
            q = rng.choice([1, 10, 1000, 10 ** 6])
            a = rng.randint(1, 10 ** 3)
            return {"ctor": ctor, "lower": a * q, "upper": (10 ** 12 // q) * q, "q": q}
        q = rng.randint(5, 50)
        a = rng.randint(1, 5)
        return {"ctor": ctor, "lower": a * q, "upper": (a + 1) * q, "q": q}
    if fam == "cat":
        cats = _gen_categories(rng, ctor, cell)
        P = {"ctor": ctor, "categories": cats}
        if ctor == "ordinal_nnlog":
            P["via"] = rng.choice(["ordinal", "logordinal"])
        elif ctor == "ordinal_nn":
            P["via"] = "ordinal" if len(cats) == 1 else rng.choice(["ordinal", "default"])
        elif ctor == "ordinal_equal":
            numeric_increasing = (
                not isinstance(cats[0], str) and len(cats) > 1 and all(x < y for x, y in zip(cats, cats[1:]))
            )
            P["via"] = "ordinal" if numeric_increasing else rng.choice(["ordinal", "default"])
        return P
    # finite ranges
    log = ctor.startswith("log")
    cast_int = ctor.endswith("_int")
    if cell == "generic":
        size = rng.randint(2, 64)
        if cast_int:
            lower = rng.randint(2, 50) if log else rng.randint(-100, 100)
            if log:
                # ratio between neighbours >= 2, spacing >= 2: rounding to int cannot collide or reorder
                upper = lower * 2 ** (size - 1) * rng.randint(1, 3)
                while upper > 10 ** 12:
                    size -= 1
                    upper = lower * 2 ** (size - 1)
            else:
                upper = lower + (size - 1) * rng.randint(2, 20)
            return {"ctor": ctor, "lower": lower, "upper": upper, "size": size}
        if log:
            lower = _mag(rng, -6, 3)
            upper = min(lower * 10.0 ** rng.uniform(0.05, 5), 9e8)
        else:
            m = _mag(rng, -6, 6)
            lower = rng.choice([-1, 1, 0]) * m * rng.random()
            upper = lower + m * rng.uniform(0.05, 10)
        return {"ctor": ctor, "lower": lower, "upper": upper, "size": size}
    kinds = ["size1", "eq", "huge", "tiny" if not cast_int else "collide", "adjacent" if not cast_int else "nonint",
             "size2"]
    if cast_int:
        kinds += ["dense", "dense", "dense"]
    kind = rng.choice(kinds)
    size = rng.randint(2, 64)
    if kind == "size1":
        lower = rng.randint(1, 100) if cast_int else _mag(rng, -6, 6)
        upper = lower if rng.random() < 0.5 else lower * rng.randint(2, 9)
        return {"ctor": ctor, "lower": lower, "upper": upper, "size": 1}
    if kind == "eq":
        lower = rng.randint(1, 10 ** 6) if cast_int else _mag(rng)
        return {"ctor": ctor, "lower": lower, "upper": lower, "size": size}
    if kind == "huge":
        if cast_int:
            lower = rng.randint(1, 1000)
            return {"ctor": ctor, "lower": lower, "upper": rng.randint(10 ** 9, 10 ** 12), "size": size}
        lower = _mag(rng, -12, 3) if log else -_mag(rng, 9, 12)
        return {"ctor": ctor, "lower": lower, "upper": _mag(rng, 9, 12), "size": size}
    if kind == "tiny":
        lower = _mag(rng, -12, -10)
        return {"ctor": ctor, "lower": lower, "upper": lower * rng.uniform(1.5, 50), "size": size}
    if kind == "dense":  # small integer bounds, spacing of the same order as the rounding to int
        lower = 1 if rng.random() < 0.7 else rng.randint(2, 6)
        return {"ctor": ctor, "lower": lower, "upper": lower + rng.randint(2, 70), "size": rng.randint(3, 13)}
    if kind == "collide":  # cast_int with spacing < 1: several range positions round to the same int
        lower = rng.randint(1, 20)
        return {"ctor": ctor, "lower": lower, "upper": lower + rng.randint(1, max(1, size - 2)), "size": size}
    if kind == "adjacent":
        lower = _mag(rng)
        return {"ctor": ctor, "lower": lower, "upper": _nxt(lower), "size": rng.randint(2, 5)}
    if kind == "nonint":  # cast_int with non-integer bounds
        lower = rng.uniform(0.6, 30)
        if rng.random() < 0.5:
            upper = lower + rng.uniform(0.1, 40) if not log else lower * rng.uniform(1.05, 40)
        else:
            upper = lower * rng.uniform(1.05, 3) ** rng.randint(1, 4)
        return {"ctor": ctor, "lower": lower, "upper": upper, "size": rng.randint(2, 12)}
    if cast_int:
        lower = rng.randint(1, 100)
        return {"ctor": ctor, "lower": lower, "upper": lower + rng.randint(1, 1000), "size": 2}
    lower = _mag(rng, -6, 6)
    return {"ctor": ctor, "lower": lower, "upper": lower * rng.uniform(1.001, 100), "size": 2}


def _q_divides(x, q):
    return math.isclose(x / q, round(x / q))


_COND_CACHE = {}


def _cond(P):
    """Primary degenerate condition of a parameter set ('generic' if none): part of the mechanism key."""
    key = json.dumps({k: v for k, v in P.items() if k != "active"}, sort_keys=True)
    c = _COND_CACHE.get(key)
    if c is None:
        if len(_COND_CACHE) > 5000:
            _COND_CACHE.clear()
        c = _COND_CACHE[key] = _cond_uncached(P)
    return c


def _cond_uncached(P):
    ctor = P["ctor"]
    fam = FAM[ctor]
    if fam == "cat":
        cats = P["categories"]
        if len(cats) == 1:
            return "one_category"
        if ctor in ("choice", "ordinal_equal"):
            return "two_categories" if len(cats) == 2 else "generic"
        vals = [math.log(float(c)) for c in cats] if ctor == "ordinal_nnlog" else [float(c) for c in cats]
        gaps = [b - a for a, b in zip(vals, vals[1:])]
        if max(abs(float(c)) for c in cats) >= 1e9:
            return "huge"
        if max(abs(float(c)) for c in cats) <= 1e-9:
            return "tiny"
        if max(gaps) / min(gaps) > 20:
            return "uneven_gaps"
        return "generic"
    lower, upper = P["lower"], P["upper"]
    mx = max(abs(lower), abs(upper))
    if fam == "int":
        q = P.get("q")
        if q is not None and (lower % q or upper % q):
            return "q_not_dividing"
        if lower == upper:
            return "lower==upper"
        if mx >= 10 ** 9:
            return "huge"
        return "generic"
    if fam == "fin":
        size = P["size"]
        if size == 1:
            return "size1"
        if lower == upper:
            return "lower==upper"
        if ctor.endswith("_int"):
            ref, _ = _ref_values(P)
            if len(set(ref)) < len(ref):
                return "cast_int_collision"
            pre = _ref_values(dict(P, ctor=ctor[:-4]))[0]
            if min(b - a for a, b in zip(pre, pre[1:])) < 2.0:
                return "cast_int_dense"  # rounding to int moves values by an amount comparable to their spacing
            if float(lower) != round(lower) or float(upper) != round(upper):
                return "noninteger_bounds"
        elif upper == _nxt(lower):
            return "adjacent"
        if mx >= 1e9:
            return "huge"
        if mx <= 1e-9:
            return "tiny"
        return "generic"
    # float family
    q = P.get("q")
    if q is not None and (round(lower / q) * q != lower or round(upper / q) * q != upper):
        return "q_divides_inexactly"  # legal (the constructor's isclose test passes), but k * q != bound in float64
    if lower == upper:
        return "lower==upper"
    if upper == _nxt(float(lower)):
        return "adjacent"
    if (upper - lower) <= 1e-9 * mx:
        return "narrow"
    if ctor == "reverseloguniform" and upper > 1 - 1e-9:
        return "upper_near_1"
    if mx >= 1e9:
        return "huge"
    if mx <= 1e-9:
        return "tiny"
    if q is not None and (q >= 2.0 ** 30 or q <= 2.0 ** -30):
        return "extreme_q"
    return "generic"


def _mcond(P):
    """Condition as used in mechanism keys: 'adjacent' (upper = nextafter(lower)) is the extreme of 'narrow'."""
    c = _cond(P)
    return {"adjacent": "narrow", "cast_int_collision": "cast_int_dense"}.get(c, c)


def _cond_struct(P):
    """Reduced condition for type / shape / serialisation clauses (magnitudes cannot change a Python type)."""
    c = _cond(P)
    return c if c in ("lower==upper", "one_category", "size1") else "any"


def _build(P):
    """Build the domain through the public constructor."""
    from syne_tune import config_space as cs

    ctor = P["ctor"]
    if ctor in ("uniform", "loguniform", "reverseloguniform", "randint", "lograndint"):
        return getattr(cs, ctor)(P["lower"], P["upper"])
    if ctor in ("quniform", "qloguniform", "qrandint", "qlograndint"):
        return getattr(cs, ctor)(P["lower"], P["upper"], P["q"])
    if ctor == "choice":
        return cs.choice(list(P["categories"]))
    if ctor == "ordinal_equal":
        if P.get("via") == "default":
            return cs.ordinal(list(P["categories"]))
        return cs.ordinal(list(P["categories"]), kind="equal")
    if ctor == "ordinal_nn":
        if P.get("via") == "default":
            return cs.ordinal(list(P["categories"]))
        return cs.ordinal(list(P["categories"]), kind="nn")
    if ctor == "ordinal_nnlog":
        if P.get("via") == "logordinal":
            return cs.logordinal(list(P["categories"]))
        return cs.ordinal(list(P["categories"]), kind="nn-log")
    f = cs.logfinrange if ctor.startswith("log") else cs.finrange
    return f(P["lower"], P["upper"], P["size"], cast_int=ctor.endswith("_int"))


def _expected_class(P):
    return {
        "float": "Float", "int": "Integer", "fin": "FiniteRange",
    }.get(FAM[P["ctor"]]) or {
        "choice": "Categorical", "ordinal_equal": "Ordinal", "ordinal_nn": "OrdinalNearestNeighbor",
        "ordinal_nnlog": "OrdinalNearestNeighbor",
    }[P["ctor"]]


# --------------------------------------------------------------------------- reference (oracle side)


def _ref_values(P):
    """Independent listing of a finite range: equal spacing in linear / log scale, ends lower / upper,
    rint for cast_int. Returns (values, near_half) where near_half[i] says that rounding is within the band."""
    lower, upper, size = P["lower"], P["upper"], P["size"]
    log = P["ctor"].startswith("log")
    cast_int = P["ctor"].endswith("_int")
    vals, band = [], []
    for i in range(size):
        t = i / (size - 1) if size > 1 else 0.0
        if log:
            y = math.exp(math.log(lower) * (1 - t) + math.log(upper) * t)
        else:
            y = lower * (1 - t) + upper * t
        y = min(max(y, lower), upper)
        if i == 0:
            y = float(lower)
        elif i == size - 1:
            y = float(upper)
        if cast_int:
            fr = abs(y - math.floor(y) - 0.5)
            band.append(fr <= 1e-9 * max(1.0, abs(y)))
            vals.append(int(np.rint(y)))
        else:
            band.append(False)
            vals.append(float(y))
    return vals, band


def _nonmember(P, v, values=None):
    """None if v is a member of the domain described by P (documentation oracle), else a 'how' string."""
    fam = FAM[P["ctor"]]
    if fam == "float":
        if isinstance(v, bool) or not isinstance(v, float):
            return "type:" + type(v).__name__
        if v != v:
            return "nan"
        lower, upper = P["lower"], P["upper"]
        if lower <= v <= upper:
            return None
        b = lower if v < lower else upper
        how = "by_roundoff" if abs(v - b) <= 1e-12 * max(abs(b), upper - lower) else "far"
        q = P.get("q")
        if how == "far" and q and abs(v / q - round(v / q)) <= 1e-9:
            how = "multiple_of_q"
        return "outside:" + how
    if fam == "int":
        if isinstance(v, bool) or not isinstance(v, int):
            return "type:" + type(v).__name__
        lower, upper = P["lower"], P["upper"]
        if lower <= v <= upper:
            return None
        b = lower if v < lower else upper
        q = P.get("q")
        if q and q > 1 and v % q == 0:
            return "outside:multiple_of_q"
        return "outside:by_1" if abs(v - b) == 1 else "outside:far"
    if fam == "cat":
        cats = P["categories"]
        tp = type(cats[0])
        if not isinstance(v, tp) or (tp is not bool and isinstance(v, bool)):
            return "type:" + type(v).__name__
        return None if v in cats else "not_listed"
    tp = int if P["ctor"].endswith("_int") else float
    if isinstance(v, bool) or not isinstance(v, tp):
        return "type:" + type(v).__name__
    return None if v in values else "not_listed"


def _tol(P, x):
    if P["ctor"] == "loguniform":
        return 1e-7 * abs(x)
    return 1e-7 * max(abs(x), P["upper"] - P["lower"])


def _same(P, m, back):
    """None if ``back`` is the same configuration value as member ``m`` (exact for finite / integer
    domains, inside the documented band for continuous ones), else a 'how' string."""
    fam = FAM[P["ctor"]]
    if fam == "float":
        if not isinstance(back, float):
            return "type:" + type(back).__name__
        err = abs(back - m)
        if err <= _tol(P, m):
            return None
        return "imprecise" if err <= 1e-2 * max(abs(m), P["upper"] - P["lower"]) else "far"
    if isinstance(back, bool) or type(back).__name__ != type(m).__name__ and not isinstance(back, type(m)):
        return "type:" + type(back).__name__
    if back == m:
        return None
    if fam == "int":
        return "off_by_1" if abs(back - m) == 1 else "far"
    if fam == "cat":
        cats = P["categories"]
        if back in cats and abs(cats.index(back) - cats.index(m)) == 1:
            return "neighbour"
        return "other_value"
    return "other_value"


# --------------------------------------------------------------------------- the per-domain monitor


class _Dom:
    """One domain under observation."""

    def __init__(self, o, P, idx, seed):
        self.o = o
        self.P = P
        self.idx = idx
        self.ctor = P["ctor"]
        self.fam = FAM[self.ctor]
        self.cond = _cond(P)  # fine-grained (coverage counters)
        self.mcond = _mcond(P)  # as used in mechanism keys
        self.scond = _cond_struct(P)
        self.rng = random.Random(f"dom:{seed}:{idx}")
        self.seed = seed
        self.flags = set()
        self.seen = set()
        self.clean = True  # no violation attributed to this domain
        self.bad_clauses = set()
        self._members_rt = None
        self.d = None
        self.hp = None
        self.n = None
        self.values = None
        self.members = []
        self.enc = {}  # member index -> encoded vector (plain ranges)
        self.back = {}
        self.bounds = None
        self.Pa = None
        self.Ad = None
        self.bounds_active = None
        self.json_ok = False

    # -- reporting ------------------------------------------------------------------------------
    def viol(self, clause, mech, detail):
        self.clean = False
        self.bad_clauses.add(clause)
        self.flags.add(mech.split(":")[0])
        if mech in self.seen:
            self.o.count("violations_repeated_in_domain")
            return
        self.seen.add(mech)
        d = {"domain": self.P, "cond": self.cond}
        d.update(detail or {})
        self.o.ev("violation", mech, self.idx)
        self.o.violate(clause, mech, d)

    def raised(self, clause, api, e, detail=None, cond=None):
        msg = f"{type(e).__name__}: {str(e)[:160]}"
        d = {"error": msg}
        d.update(detail or {})
        self.viol(clause, f"raised:{api}:{self.ctor}:{cond or self.mcond}:{type(e).__name__}", d)

    def nonmember_cond(self, how, P=None):
        P = P or self.P
        return _cond_struct(P) if how.startswith("type:") else _mcond(P)

    def decode_type(self, how, detail):
        """A decoded value of the wrong Python type: one key, whichever probe saw it."""
        self.viol("decode", f"decode_nonmember:{self.ctor}:{self.scond}:{how}", detail)

    def sample_key(self, how, sz, P=None):
        # the sample-size class is part of the key for type failures only (size > 1 takes another code path)
        tail = f":{sz}" if how.startswith("type:") else ""
        return f"sample_nonmember:{self.ctor}:{self.nonmember_cond(how, P)}:{how}{tail}"

    def is_nonmember(self, v, P=None, values=None):
        return _nonmember(P or self.P, v, self.values if values is None else values)

    # -- A: construction ------------------------------------------------------------------------
    def build(self):
        from syne_tune.optimizer.schedulers.searchers.utils.hp_ranges_factory import make_hyperparameter_ranges

        o, P = self.o, self.P
        try:
            self.d = _build(P)
        except ValueError as e:
            if "not divisible by quantization" in str(e):
                # the constructor enforces its documented precondition: the arguments were not legal
                o.count("ctor_rejected_precondition")
                return False
            self.raised("construct", "constructor", e)
            return False
        except Exception as e:  # noqa: BLE001
            self.raised("construct", "constructor", e)
            return False
        o.count("domains_built")
        if type(self.d).__name__ != _expected_class(P):
            self.viol("construct", f"constructor_class:{self.ctor}:{self.scond}:{type(self.d).__name__}", {})
        if self.fam == "fin":
            self.check_values()
        try:
            self.hp = make_hyperparameter_ranges({"x": self.d})
            self.n = self.hp.ndarray_size
        except Exception as e:  # noqa: BLE001
            self.raised("encode", "make_hyperparameter_ranges", e)
            self.hp = None
        return True

    def check_values(self):
        o, P = self.o, self.P
        ref, band = _ref_values(P)
        try:
            vals = list(self.d.values)
            ln = len(self.d)
        except Exception as e:  # noqa: BLE001
            self.raised("finite_values", "FiniteRange.values", e)
            self.values = ref
            return
        self.values = vals
        o.count("decided:finite_values")
        if len(vals) != len(ref) or ln != len(ref):
            self.viol("finite_values", f"finite_values:{self.ctor}:{self.mcond}:length", {"values": vals[:70], "ref": ref[:70]})
            return
        cast_int = self.ctor.endswith("_int")
        for i, (a, b) in enumerate(zip(vals, ref)):
            how = _nonmember(P, a, vals)
            if how is not None:
                self.viol("finite_values", f"finite_values:{self.ctor}:{self.scond}:{how}", {"i": i, "value": a})
                return
            if cast_int:
                if a != b:
                    if band[i]:
                        o.count("roundoff_band")
                        continue
                    end = "end" if i in (0, len(ref) - 1) else "inner"
                    self.viol("finite_values", f"finite_values:{self.ctor}:{self.mcond}:differs_from_equal_spacing:{end}",
                              {"i": i, "value": a, "ref": b, "values": vals[:70]})
                    return
            else:
                ok = abs(a - b) <= 1e-9 * max(abs(b), abs(P["upper"] - P["lower"]))
                if not ok:
                    end = "end" if i in (0, len(ref) - 1) else "inner"
                    self.viol("finite_values", f"finite_values:{self.ctor}:{self.mcond}:differs_from_equal_spacing:{end}",
                              {"i": i, "value": a, "ref": b, "values": vals[:70]})
                    return
        if any(x > y for x, y in zip(vals, vals[1:])):
            self.viol("finite_values", f"finite_values:{self.ctor}:{self.mcond}:not_sorted", {"values": vals[:70]})

    # -- B: sampling ----------------------------------------------------------------------------
    def add_member(self, v):
        if len(self.members) >= 48:
            return
        for w in self.members:
            if type(w) is type(v) and w == v:
                return
        self.members.append(v)

    def check_sampling(self):
        o, d = self.o, self.d
        seeds = [self.rng.randrange(2 ** 31) for _ in range(3)]
        raised = {}  # (exception type) -> {size class: (exception, seed)}
        for s in seeds:
            rs = np.random.RandomState(s)
            for size in (1, 1, self.rng.randint(2, 8), 1):
                sz = "size1" if size == 1 else "size>1"
                try:
                    if size == 1 and self.rng.random() < 0.5:
                        r = d.sample(random_state=rs)
                    else:
                        r = d.sample(size=size, random_state=rs)
                except Exception as e:  # noqa: BLE001
                    raised.setdefault(type(e).__name__, {}).setdefault(sz, (e, s, size))
                    continue
                if size == 1:
                    items = [r]
                    if isinstance(r, (list, tuple, np.ndarray)):
                        self.viol("sample", f"sample_shape:{self.ctor}:{self.scond}:{sz}:{type(r).__name__}", {"got": r})
                        continue
                else:
                    if not isinstance(r, list) or len(r) != size:
                        self.viol("sample", f"sample_shape:{self.ctor}:{self.scond}:{sz}:{type(r).__name__}",
                                  {"got": r, "size": size})
                        continue
                    items = r
                for v in items:
                    o.count("decided:sample_member")
                    how = self.is_nonmember(v)
                    if how is None:
                        self.add_member(v)
                    else:
                        self.viol("sample", self.sample_key(how, sz), {"value": v, "seed": s, "size": size})
        for by_size in raised.values():
            # one key if the sampler raises whatever the size, else the size class is part of the key
            cls = "any_size" if len(by_size) == 2 else next(iter(by_size))
            e, s, size = next(iter(by_size.values()))
            self.raised("sample", f"sample:{cls}", e, {"seed": s, "size": size})

    # -- members the harness knows from the documentation ------------------------------------------
    def add_documented_members(self):
        P, fam, rng = self.P, self.fam, self.rng
        if fam == "float":
            lower, upper = float(P["lower"]), float(P["upper"])
            self.add_member(lower)
            self.add_member(upper)
            for _ in range(6):
                t = rng.random()
                if self.ctor in ("loguniform",):
                    x = math.exp(math.log(lower) * (1 - t) + math.log(upper) * t)
                else:
                    x = lower * (1 - t) + upper * t
                self.add_member(min(max(x, lower), upper))
            if lower < 0 < upper:
                self.add_member(0.0)
                self.add_member(min(upper, 10.0 ** rng.uniform(-12, 0)))
        elif fam == "int":
            lower, upper = P["lower"], P["upper"]
            for x in (lower, upper, lower + 1, upper - 1, (lower + upper) // 2):
                if lower <= x <= upper:
                    self.add_member(int(x))
            for _ in range(6):
                if P["ctor"] in ("lograndint", "qlograndint"):
                    x = int(round(math.exp(rng.uniform(math.log(lower), math.log(upper)))))
                else:
                    x = rng.randint(lower, upper)
                self.add_member(min(max(x, lower), upper))
        elif fam == "cat":
            cats = P["categories"]
            for c in (cats if len(cats) <= 40 else rng.sample(cats, 40)):
                self.add_member(c)
        else:
            vals = self.values
            for v in (vals if len(vals) <= 40 else rng.sample(vals, 40)):
                self.add_member(v)

    # -- C: cast --------------------------------------------------------------------------------
    def check_cast(self):
        o, d = self.o, self.d
        for m in list(self.members):
            try:
                c = d.cast(m)
            except Exception as e:  # noqa: BLE001
                self.raised("cast", "cast", e, {"member": m})
                continue
            o.count("decided:cast_member")
            how = self.is_nonmember(c)
            if how is not None:
                self.viol("cast", f"cast_nonmember:{self.ctor}:{self.nonmember_cond(how)}:{how}", {"member": m, "cast": c})
            elif c != m:
                # not demanded by the property (cast(member) only has to be a member): counted, not judged
                o.count("note:cast_changes_member:" + self.ctor)

    # -- D: decoding of unit-cube points -----------------------------------------------------------
    def cube_points(self):
        n, rng, P = self.n, self.rng, self.P
        pts = []
        if n == 1:
            pts += [("corner", [0.0]), ("corner", [1.0]), ("midpoint", [0.5])]
            pts += [("random", [rng.random()]) for _ in range(6)]
            pts += [("random", [rng.choice([1e-9, 1 - 1e-9, 1e-300, float(np.nextafter(1.0, 0.0)), 5e-324])])]
            cells = None
            if self.fam == "int":
                cells = P["upper"] - P["lower"] + 1
            elif self.fam == "fin":
                cells = P["size"]
            elif self.ctor in ("choice", "ordinal_equal"):
                cells = len(P["categories"])
            if cells is not None:
                ks = {0, 1, cells - 1, cells, cells // 2}
                ks |= {rng.randint(0, cells) for _ in range(4)}
                for k in sorted(ks):
                    for dlt in (-1e-9, 0.0, 1e-9):
                        u = k / cells + dlt
                        if 0.0 <= u <= 1.0:
                            pts.append(("border", [u]))
            elif self.ctor in ("ordinal_nn", "ordinal_nnlog"):
                cats = P["categories"]
                vals = [math.log(float(c)) for c in cats] if self.ctor == "ordinal_nnlog" else [float(c) for c in cats]
                if len(vals) > 1:
                    avg = 0.5 * (vals[-1] - vals[0]) / (len(vals) - 1)
                    lo, hi = vals[0] - avg, vals[-1] + avg
                    for j in rng.sample(range(len(vals) - 1), min(5, len(vals) - 1)):
                        ub = (0.5 * (vals[j] + vals[j + 1]) - lo) / (hi - lo)
                        for dlt in (-1e-9, 0.0, 1e-9):
                            if 0.0 <= ub + dlt <= 1.0:
                                pts.append(("border", [ub + dlt]))
        else:  # one-hot block
            pts.append(("corner", [0.0] * n))
            pts.append(("corner", [1.0] * n))
            pts.append(("midpoint", [0.5] * n))
            for j in rng.sample(range(n), min(n, 6)):
                e = [0.0] * n
                e[j] = 1.0
                pts.append(("corner", e))
                e = [1.0] * n
                e[j] = 0.0
                pts.append(("corner", e))
                e = [0.0] * n
                e[j] = 0.5
                pts.append(("midpoint", e))
                e = [0.0] * n
                e[j] = 0.5
                e[rng.randrange(n)] = 0.5
                pts.append(("midpoint", e))
            for _ in range(6):
                pts.append(("random", [rng.random() for _ in range(n)]))
        return pts

    def check_decode(self):
        o, hp = self.o, self.hp
        for kind, u in self.cube_points():
            try:
                v = hp.from_ndarray(np.array(u, dtype=float))["x"]
            except Exception as e:  # noqa: BLE001
                self.raised("decode", f"from_ndarray:{kind}", e, {"u": u[:8]})
                continue
            o.count("decided:decode_member")
            o.count("decode_points:" + kind)
            how = self.is_nonmember(v)
            if how is None:
                self.add_member(v)
            elif how.startswith("type:"):
                self.decode_type(how, {"u": u[:8], "value": v, "point": kind})
            else:
                self.viol("decode", f"decode_nonmember:{self.ctor}:{self.mcond}:{how}:{kind}", {"u": u[:8], "value": v})

    # -- E: encode + decode back -------------------------------------------------------------------
    def encode(self, hp, m):
        """Encoded vector of member m under ranges hp, with the shape / range clause checked; None if bad."""
        o = self.o
        try:
            e = hp.to_ndarray({"x": m})
        except Exception as ex:  # noqa: BLE001
            self.raised("encode", "to_ndarray", ex, {"member": m})
            return None
        o.count("decided:encode_shape_range")
        if not isinstance(e, np.ndarray) or e.shape != (hp.ndarray_size,):
            self.viol("encode", f"encode_shape:{self.ctor}:{self.scond}",
                      {"member": m, "shape": getattr(e, "shape", None), "ndarray_size": hp.ndarray_size})
            return None
        if not bool(np.all((e >= 0.0) & (e <= 1.0))):
            self.viol("encode", f"encode_outside_unit_cube:{self.ctor}:{self.mcond}", {"member": m, "enc": e.tolist()[:8]})
            return None
        return e

    def check_roundtrip(self):
        o, hp = self.o, self.hp
        for i, m in enumerate(self.members):
            e = self.encode(hp, m)
            if e is None:
                continue
            self.enc[i] = e
            try:
                back = hp.from_ndarray(e)["x"]
            except Exception as ex:  # noqa: BLE001
                self.raised("roundtrip", "from_ndarray:encoded_member", ex, {"member": m})
                continue
            o.count("decided:roundtrip")
            self.back[i] = back
            how = _same(self.P, m, back)
            if how is None:
                continue
            if how.startswith("type:"):
                self.decode_type(how, {"member": m, "enc": e.tolist()[:8], "value": back, "point": "encoded member"})
                continue
            self.viol("roundtrip", f"roundtrip:{self.ctor}:{self.mcond}:{how}",
                      {"member": m, "enc": e.tolist()[:8], "decoded": back})

    # -- F: bounds ---------------------------------------------------------------------------------
    def get_bounds(self, hp, what):
        o = self.o
        try:
            b = hp.get_ndarray_bounds()
        except Exception as e:  # noqa: BLE001
            self.raised("bounds", f"get_ndarray_bounds:{what}", e)
            return None
        o.count("decided:bounds")
        ok = len(b) == hp.ndarray_size
        bad = None
        if ok:
            for j, (lo, hi) in enumerate(b):
                if not (0.0 <= lo <= hi <= 1.0):
                    bad = (j, float(lo), float(hi))
                    break
        if not ok:
            self.viol("bounds", f"bounds_length:{self.ctor}:{self.scond}:{what}", {"len": len(b), "n": hp.ndarray_size})
            return None
        if bad is not None:
            how = "lo>hi" if bad[1] > bad[2] else "outside_unit_interval"
            self.viol("bounds", f"bounds:{self.ctor}:{self.mcond}:{what}:{how}", {"bound": bad})
            return None
        return [(float(lo), float(hi)) for lo, hi in b]

    # -- G: active sub-range -----------------------------------------------------------------------
    def active_params(self):
        P, fam, rng = self.P, self.fam, self.rng
        if fam == "fin":
            return None  # FiniteRange cannot be used in active_config_space (documented assert)
        Pa = {k: v for k, v in P.items() if k != "active"}
        if "active" in P:  # explicit override (deterministic reproducers)
            Pa.update(P["active"])
            return Pa
        if fam == "cat":
            cats = P["categories"]
            n = len(cats)
            if self.ctor == "choice":
                k = rng.choice([1, n, rng.randint(1, n)])
                idx = sorted(rng.sample(range(n), k))
                Pa["categories"] = [cats[j] for j in idx]
            else:
                k = rng.choice([1, n, rng.randint(1, n)])
                st = rng.randint(0, n - k)
                Pa["categories"] = cats[st:st + k]
            if self.ctor in ("ordinal_nn", "ordinal_equal") and Pa.get("via") == "default":
                Pa["via"] = "ordinal"
            return Pa
        lower, upper = P["lower"], P["upper"]
        mode = rng.choice(["inner", "inner", "point", "full", "left", "right"])
        if fam == "int":
            q = P.get("q")
            a, b = sorted((rng.randint(lower, upper), rng.randint(lower, upper)))
            if self.ctor in ("lograndint", "qlograndint") and upper > 10 ** 6:
                a, b = sorted(int(round(math.exp(rng.uniform(math.log(lower), math.log(upper))))) for _ in range(2))
                a, b = min(max(a, lower), upper), min(max(b, lower), upper)
            if q and q > 1 and lower % q == 0 and upper % q == 0:
                # keep the active range legal in the same sense as the full one (q divides its bounds)
                a, b = (a // q) * q, (b // q) * q
                a, b = max(a, lower), max(b, lower)
        else:
            lo, hi = float(lower), float(upper)
            pts = []
            for _ in range(2):
                t = rng.random()
                if self.ctor in ("loguniform", "qloguniform"):
                    x = math.exp(math.log(lo) * (1 - t) + math.log(hi) * t)
                else:
                    x = lo * (1 - t) + hi * t
                pts.append(min(max(x, lo), hi))
            a, b = sorted(pts)
            q = P.get("q")
            if q:
                a, b = round(a / q) * q, round(b / q) * q
                a, b = min(max(a, lo), hi), min(max(b, lo), hi)
                if not (_q_divides(a, q) and _q_divides(b, q)):
                    a, b = lower, upper
        if mode == "point":
            b = a
        elif mode == "full":
            a, b = lower, upper
        elif mode == "left":
            a = lower
        elif mode == "right":
            b = upper
        Pa["lower"], Pa["upper"] = a, b
        return Pa

    def twin_random_config(self, hp, seed):
        rs = np.random.RandomState(seed)
        return {k: v.sample(random_state=rs) for k, v in hp.config_space_for_sampling.items()}

    def check_active(self):
        from syne_tune.optimizer.schedulers.searchers.utils.hp_ranges_factory import make_hyperparameter_ranges

        o, rng = self.o, self.rng
        Pa = self.active_params()
        if Pa is None:
            o.count("active_not_applicable")
            return
        try:
            Ad = _build(Pa)
        except Exception as e:  # noqa: BLE001
            if isinstance(e, ValueError) and "not divisible by quantization" in str(e):
                o.count("ctor_rejected_precondition")
                return
            self.raised("active", "constructor:active_domain", e, {"active": Pa}, cond=_mcond(Pa))
            return
        acond = _mcond(Pa)
        try:
            hpA = make_hyperparameter_ranges({"x": self.d}, active_config_space={"x": Ad})
        except Exception as e:  # noqa: BLE001
            self.raised("active", "make_hyperparameter_ranges:active", e, {"active": Pa}, cond=f"{self.mcond}:active_{acond}")
            return
        self.Pa, self.Ad = Pa, Ad
        b = self.get_bounds(hpA, "active")
        self.bounds_active = b
        # random_config under an active space == a sample of the active domain with the same random state
        for _ in range(3):
            s = rng.randrange(2 ** 31)
            try:
                v = hpA.random_config(np.random.RandomState(s))["x"]
            except Exception as e:  # noqa: BLE001
                try:
                    Ad.sample(random_state=np.random.RandomState(s))
                    tw_exc = None
                except Exception as e2:  # noqa: BLE001
                    tw_exc = e2
                if tw_exc is not None and type(tw_exc) is type(e):
                    # the active domain's own sampler raises: sampler mechanism (the active domain is a legal domain)
                    try:
                        Ad.sample(size=3, random_state=np.random.RandomState(s))
                        cls = "size1"
                    except Exception:  # noqa: BLE001
                        cls = "any_size"
                    self.raised("sample", f"sample:{cls}", e, {"active": Pa, "via": "random_config(active_config_space)"},
                                cond=acond)
                else:
                    self.raised("active", "random_config:active", e, {"active": Pa}, cond=f"{self.mcond}:active_{acond}")
                continue
            o.count("decided:active_random_config")
            how = _nonmember(Pa, v, None)
            if how is None:
                continue
            try:
                tw = Ad.sample(random_state=np.random.RandomState(s))
            except Exception:  # noqa: BLE001
                tw = None
            if tw is not None and type(tw) is type(v) and tw == v:
                # hp_ranges handed out exactly what the active domain's sampler produced: sampler mechanism
                self.viol("sample", self.sample_key(how, "size1", Pa),
                          {"value": v, "seed": s, "active": Pa, "via": "random_config(active_config_space)"})
            else:
                self.viol("active", f"active_random_config_nonmember:{self.ctor}:{self.mcond}:{how}",
                          {"value": v, "seed": s, "active": Pa, "active_sampler_gave": tw})
        # encoding is based on the original ranges
        for i, m in list(enumerate(self.members))[:6]:
            if i in self.enc:
                e = self.encode(hpA, m)
                if e is not None and not np.array_equal(e, self.enc[i]):
                    self.viol("active", f"active_changes_encoding:{self.ctor}:{self.mcond}", {"member": m, "active": Pa})
        if b is None:
            return
        n = len(b)
        vecs = [("corner", [lo for lo, hi in b]), ("corner", [hi for lo, hi in b]),
                ("interior", [0.5 * (lo + hi) for lo, hi in b])]
        for _ in range(5):
            vecs.append(("interior", [lo + rng.random() * (hi - lo) for lo, hi in b]))
        free = [j for j, (lo, hi) in enumerate(b) if hi > lo]
        if n > 1:
            for j in free[:6]:
                vecs.append(("corner", [(hi if jj == j else lo) for jj, (lo, hi) in enumerate(b)]))
                vecs.append(("corner", [(lo if jj == j else hi) for jj, (lo, hi) in enumerate(b)]))
            if len(free) > 1:
                t = rng.random()
                vecs.append(("interior", [(t if jj in free else lo) for jj, (lo, hi) in enumerate(b)]))
        for kind, u in vecs:
            u = [min(max(x, lo), hi) for x, (lo, hi) in zip(u, b)]
            try:
                v = hpA.from_ndarray(np.array(u, dtype=float))["x"]
            except Exception as e:  # noqa: BLE001
                self.raised("active", f"from_ndarray:active:{kind}", e, {"u": u[:8], "active": Pa},
                            cond=f"{self.mcond}:active_{acond}")
                continue
            o.count("decided:active_decode")
            self.judge_active_decode(v, u, b, kind, None)

    def judge_active_decode(self, v, u, b, kind, via):
        """v was decoded from vector u inside the active bounds b (of this domain's block)."""
        o, Pa = self.o, self.Pa
        how = _nonmember(Pa, v, None)
        if how is None:
            return
        det = {"u": u[:8], "value": v, "active": Pa, "bounds": b[:8],
               "member_of_full_domain": self.is_nonmember(v) is None}
        if via:
            det["via"] = via
        if how.startswith("type:"):
            self.decode_type(how, det)
            return
        c = self.mcond
        if self.fam == "float":
            # continuous: the bounds are encodings of the active ends; same band as the round trip
            edge = float(Pa["lower"] if v < Pa["lower"] else Pa["upper"])
            if abs(v - edge) <= _tol(self.P, edge):
                o.count("roundoff_band")
                return
            if kind == "corner" or all(lo == hi for lo, hi in b):
                # the bound is the encoding of the active end: this is the plain round trip of that member
                try:
                    rt = self.hp.from_ndarray(self.hp.to_ndarray({"x": edge}))["x"]
                    how_rt = _same(self.P, edge, rt)
                except Exception:  # noqa: BLE001
                    how_rt = None
                if how_rt is not None and not how_rt.startswith("type:"):
                    det.update({"member": edge, "decoded": rt, "via": "active bound = encoding of the active end"})
                    self.viol("roundtrip", f"roundtrip:{self.ctor}:{self.mcond}:{how_rt}", det)
                    return
        elif self.fam == "int":
            edge = Pa["lower"] if v < Pa["lower"] else Pa["upper"]
            if abs(edge) >= 10 ** 6:
                c = "bound>=1e6"  # witness predicate: the crossed active bound is large
                if kind == "interior" and len(b) == 1 and how.endswith("by_1"):
                    # a random interior point that lies within the float64 resolution of the encoding from the
                    # active bound it crossed is the corner case of C07-F8 again (EPS margin below resolution),
                    # not a different mechanism: resolution = 16 eps |scaled edge| / scaled width of the full domain
                    try:
                        lo_f, hi_f = float(self.P["lower"]), float(self.P["upper"])
                        if "log" in self.ctor:
                            mag, span = abs(math.log(abs(float(edge)))), math.log(hi_f + 0.5) - math.log(max(lo_f - 0.5, 1e-300))
                        else:
                            mag, span = abs(float(edge)), hi_f - lo_f + 1.0
                        res = 16 * 2.220446049250313e-16 * mag / span
                        dist = abs(u[0] - (b[0][0] if v < Pa["lower"] else b[0][1]))
                        det["encoding_resolution"] = res
                        if dist <= res:
                            kind = "within_float_resolution_of_corner"
                    except Exception:  # noqa: BLE001
                        pass
        elif len(b) > 1:
            act_coords = [x for x, (lo, hi) in zip(u, b) if hi > lo]
            if all(x == 0.0 for x in u):
                kind = "all_zero_vector"
            elif len(set(act_coords)) == 1:
                kind = "tie_among_active_coordinates"
        self.viol("active", f"active_decode_nonmember:{self.ctor}:{c}:{how}:{kind}", det)

    # -- H: fixed last position --------------------------------------------------------------------
    def check_fixed(self):
        from syne_tune.optimizer.schedulers.searchers.utils.hp_ranges_factory import make_hyperparameter_ranges

        o, rng = self.o, self.rng
        if not self.members:
            return
        for m in rng.sample(self.members, min(2, len(self.members))):
            try:
                hpF = make_hyperparameter_ranges({"x": self.d}, name_last_pos="x", value_for_last_pos=m)
                v = hpF.random_config(np.random.RandomState(rng.randrange(2 ** 31)))["x"]
                b = hpF.get_ndarray_bounds()
                e = hpF.to_ndarray({"x": m})
                back = hpF.from_ndarray(np.array([lo for lo, hi in b], dtype=float))["x"]
            except Exception as ex:  # noqa: BLE001
                self.raised("fixed_last_pos", "fixed_last_pos", ex, {"member": m})
                continue
            o.count("decided:fixed_last_pos")
            if not (type(v) is type(m) and v == m):
                self.viol("fixed_last_pos", f"fixed_random_config_not_fixed:{self.ctor}:{self.mcond}", {"fixed": m, "got": v})
            if len(b) != len(e) or any(not (lo == hi == x) for (lo, hi), x in zip(b, e)):
                self.viol("fixed_last_pos", f"fixed_bounds_not_encoding:{self.ctor}:{self.mcond}",
                          {"fixed": m, "bounds": [list(map(float, x)) for x in b][:8], "enc": e.tolist()[:8]})
            how = _same(self.P, m, back)
            if how is not None and self.clean:
                # (a failing plain round trip of the same member is reported by the round-trip clause)
                self.viol("fixed_last_pos", f"fixed_bounds_decode:{self.ctor}:{self.mcond}:{how}", {"fixed": m, "got": back})

    # -- H2: histories on one live object ----------------------------------------------------------
    @property
    def members_rt(self):
        """Members whose plain encode / decode round trip held (needed as fixed values / configurations)."""
        if self._members_rt is None:
            self._members_rt = [m for i, m in enumerate(self.members)
                                if i in self.back and _same(self.P, m, self.back[i]) is None]
        return self._members_rt

    def check_history(self):
        from syne_tune.optimizer.schedulers.searchers.utils.hp_ranges_factory import make_hyperparameter_ranges

        rng = self.rng
        vals = self.members_rt
        if not vals or {"encode", "roundtrip", "bounds", "fixed_last_pos"} & self.bad_clauses:
            self.o.count("history_not_applicable")
            return
        init = rng.choice([None, rng.choice(vals)])
        try:
            live = make_hyperparameter_ranges({"x": self.d}, name_last_pos="x", value_for_last_pos=init)
        except Exception as e:  # noqa: BLE001
            self.raised("history", "make_hyperparameter_ranges:name_last_pos", e)
            return

        def fresh(v):
            return make_hyperparameter_ranges({"x": self.d}, name_last_pos="x", value_for_last_pos=v)

        _history(self.o, rng, live, fresh, "x", self.P, vals, {}, self.viol, "single", rng.randint(3, 5))

    # -- I: JSON -----------------------------------------------------------------------------------
    def check_json(self):
        from syne_tune.config_space import config_space_from_json_dict, config_space_to_json_dict
        from syne_tune.optimizer.schedulers.searchers.utils.hp_ranges_factory import make_hyperparameter_ranges

        o = self.o
        S = {"x": self.d, "const": 3}
        try:
            jd = config_space_to_json_dict(S)
        except Exception as e:  # noqa: BLE001
            self.raised("json", "config_space_to_json_dict", e, cond=self.scond)
            return
        try:
            txt = json.dumps(jd)
        except Exception as e:  # noqa: BLE001
            # serialisability of the sampler part does not depend on the bounds: condition 'any', but the
            # offending object type is part of the key
            import re

            mt = re.search(r"Object of type (\w+) is not JSON serializable", str(e))
            self.raised("json", "json.dumps(config_space_to_json_dict)", e, {"json_dict": repr(jd)[:400]},
                        cond="any:" + (mt.group(1) if mt else "other"))
            return
        try:
            S2 = config_space_from_json_dict(json.loads(txt))
        except Exception as e:  # noqa: BLE001
            self.raised("json", "config_space_from_json_dict", e, {"json": txt[:400]}, cond=self.scond)
            return
        o.count("decided:json_roundtrip")
        try:
            eq = S2 == S and S == S2 and set(S2) == set(S)
        except Exception as e:  # noqa: BLE001
            self.raised("json", "Domain.__eq__", e, {"json": txt[:400]}, cond=self.scond)
            return
        if not eq:
            self.viol("json", f"json_roundtrip_not_equal:{self.ctor}:{self.mcond}", {"json": txt[:400], "read_back": repr(S2)[:300]})
            return
        d2 = S2["x"]
        if type(d2) is not type(self.d):
            self.viol("json", f"json_roundtrip_class:{self.ctor}:any:{type(self.d).__name__}->{type(d2).__name__}",
                      {"read_back": repr(d2)[:200]})
            return
        try:
            s1, s2 = type(self.d.get_sampler()).__name__, type(d2.get_sampler()).__name__
        except Exception as e:  # noqa: BLE001
            self.raised("json", "get_sampler:read_back", e, cond="any")
            return
        if s1 != s2:
            # equal by __eq__, but another sampler class: the read-back domain samples and encodes differently
            self.viol("json", f"json_roundtrip_sampler_class:{self.ctor}:any:{s1}->{s2}",
                      {"json": txt[:400], "read_back": repr(d2)[:200], "equal_by___eq__": True})
            return
        if self.hp is None:
            return
        try:
            hp2 = make_hyperparameter_ranges(S2)
            same_size = hp2.ndarray_size == self.n
            b2 = [(float(lo), float(hi)) for lo, hi in hp2.get_ndarray_bounds()]
        except Exception as e:  # noqa: BLE001
            self.raised("json", "make_hyperparameter_ranges:read_back", e, {"json": txt[:400]})
            return
        if not same_size or (self.bounds is not None and b2 != self.bounds):
            self.viol("json", f"json_encodes_differently:{self.ctor}:{self.mcond}:size_or_bounds", {"json": txt[:400]})
            return
        for i, m in enumerate(self.members):
            if i not in self.enc:
                continue
            try:
                e2 = hp2.to_ndarray({"x": m})
            except Exception as e:  # noqa: BLE001
                self.raised("json", "to_ndarray:read_back", e, {"member": m, "json": txt[:400]})
                break
            o.count("decided:json_encodes_identically")
            if not np.array_equal(e2, self.enc[i]):
                self.viol("json", f"json_encodes_differently:{self.ctor}:{self.mcond}:vector",
                          {"member": m, "enc": self.enc[i].tolist()[:8], "enc_read_back": e2.tolist()[:8], "json": txt[:400]})
                break
        else:
            self.json_ok = True
        # samples of the read-back domain are members of the original one (same random state: same values)
        try:
            s = self.rng.randrange(2 ** 31)
            a = self.d.sample(size=4, random_state=np.random.RandomState(s))
            b = d2.sample(size=4, random_state=np.random.RandomState(s))
            if list(a) != list(b):
                self.viol("json", f"json_samples_differently:{self.ctor}:{self.mcond}", {"orig": a, "read_back": b})
        except Exception:  # noqa: BLE001 - sampling failures are reported by the sampling clause
            pass

    # -- driver ------------------------------------------------------------------------------------
    def run(self):
        o = self.o
        if not self.build():
            return
        o.count(f"cell:{self.ctor}:{'generic' if self.cond == 'generic' else 'degenerate'}")
        o.count("cond:" + self.ctor + ":" + self.cond)
        self.check_sampling()
        self.add_documented_members()
        self.check_cast()
        if self.hp is not None:
            self.check_decode()
            self.check_roundtrip()
            self.bounds = self.get_bounds(self.hp, "plain")
            self.check_active()
            self.check_fixed()
            self.check_history()
        self.check_json()
        self.flags.add("hp" if self.hp is not None else "nohp")


# --------------------------------------------------------------------------- histories on ONE live ranges object


def _eqv(a, b):
    return type(a) is type(b) and a == b


def _eqcfg(a, b):
    return set(a) == set(b) and all(_eqv(a[k], b[k]) for k in a)


def _fb(bounds):
    return [(float(lo), float(hi)) for lo, hi in bounds]


def _history(o, rng, live, fresh, name, P, values, others, report, via, n_steps, values_of=None):
    """Multi-step history on ONE HyperparameterRanges object ``live`` with ``name_last_pos = name``:
    the public attribute ``value_for_last_pos`` is re-assigned between calls (other values, the same value,
    an earlier value, back to None = not fixed) and after every step, in a random order,
    get_ndarray_bounds / from_ndarray of vectors inside the bounds / random_config(s) / to_ndarray are
    re-checked: directly against the fixed value (bounds pin the last position to the encoding of the
    *current* value, vectors inside the bounds decode to it, sampled configurations carry it) and against a
    freshly constructed object with the same arguments (what the live object returns must not depend on its
    history).

    P: parameter dict of the last-position domain; values: members of it whose plain round trip held;
    others: name -> _Dom of the other hyper-parameters; fresh(v): new object with value_for_last_pos=v;
    report(clause, mechanism, detail)."""
    ctor, mc = P["ctor"], _mcond(P)
    tag = "" if via != "ext" else ":ext"
    n = live.ndarray_size
    start, end = live.encoded_ranges[name]
    k = end - start
    assigned = []  # earlier non-None values, in order
    cur = live.value_for_last_pos
    if cur is not None:
        assigned.append(cur)
    seen_mech = set()

    def rp(clause, mech, detail):
        if mech in seen_mech:
            o.count("violations_repeated_in_history")
            return
        seen_mech.add(mech)
        detail = dict(detail)
        detail.update({"via": via, "assigned_so_far": assigned[-6:], "last_position": P})
        report(clause, mech, detail)

    def member_cfg(v):
        cfg = {kk: rng.choice(D.members_rt) for kk, D in others.items()}
        cfg[name] = v
        return cfg

    def earlier(x):
        return any(_eqv(x, a) for a in assigned[:-1]) if assigned else False

    for step in range(n_steps):
        r = rng.random()
        if r < 0.15:
            v = None
        elif r < 0.25 and cur is not None:
            v = cur
        elif r < 0.4 and assigned:
            v = rng.choice(assigned)
        else:
            v = rng.choice(values)
        changed = v is not None and cur is not None and not _eqv(v, cur)
        try:
            live.value_for_last_pos = v
            ft = fresh(v)
        except Exception as e:  # noqa: BLE001
            rp("history", f"raised:history:assign:{ctor}:{mc}:{type(e).__name__}{tag}", {"error": str(e)[:200], "value": v})
            return
        if v is not None:
            assigned.append(v)
        o.count("decided:history_step")
        o.count("history:" + ("unfixed" if v is None else "value_changed" if changed else "value_set"))
        if changed:
            o.count(f"history:value_changed:{via}")
            o.count("history:value_changed:" + ("onehot_last_pos" if k > 1 else FAM[ctor] + "_last_pos"))
        cur = v
        ops = ["bounds", "decode", "random_config", "random_configs", "to_ndarray", "from_ndarray", "bounds"]
        rng.shuffle(ops)
        ops = ops[: rng.randint(2, 5)]
        if "bounds" not in ops:
            ops.append("bounds")
        for op in ops:
            try:
                if op in ("bounds", "decode"):
                    b = live.get_ndarray_bounds()
                    if op == "bounds":
                        o.count("decided:history_bounds")
                        if len(b) != n or any(not (0.0 <= lo <= hi <= 1.0) for lo, hi in b):
                            rp("history", f"history_bounds_shape_or_range:{ctor}:{mc}{tag}", {"bounds": _fb(b)[:12], "n": n})
                            continue
                        b = _fb(b)
                        if b != _fb(ft.get_ndarray_bounds()):
                            # witness predicate: do the bounds pin the last position to an EARLIER value?
                            how = "differs"
                            if v is not None:
                                for a in assigned[:-1]:
                                    ea = live.to_ndarray(member_cfg(a))[start:end]
                                    if not _eqv(a, v) and all(lo == hi == float(x) for (lo, hi), x in zip(b[start:end], ea)):
                                        how = "stale_earlier_fixed_value"
                                        break
                            rp("history", f"history_bounds_differ_from_fresh_object:{ctor}:{mc}:{how}{tag}",
                               {"value": v, "bounds": b[-8:], "fresh": _fb(ft.get_ndarray_bounds())[-8:]})
                        if v is not None:
                            enc = live.to_ndarray(member_cfg(v))
                            if any(not (lo == hi == float(x)) for (lo, hi), x in zip(b[start:end], enc[start:end])):
                                how = "other"
                                for a in assigned[:-1]:
                                    ea = live.to_ndarray(member_cfg(a))[start:end]
                                    if not _eqv(a, v) and all(lo == hi == float(x) for (lo, hi), x in zip(b[start:end], ea)):
                                        how = "stale_earlier_fixed_value"
                                        break
                                rp("history", f"history_bounds_not_encoding_of_fixed_value:{ctor}:{mc}:{how}{tag}",
                                   {"value": v, "bounds_last": b[start:end][:8], "encoding": enc[start:end].tolist()[:8]})
                    else:
                        if len(b) != n:
                            continue
                        b = _fb(b)
                        vecs = [[lo for lo, hi in b], [hi for lo, hi in b]]
                        vecs += [[min(max(lo + rng.random() * (hi - lo), lo), hi) for lo, hi in b] for _ in range(2)]
                        for u in vecs:
                            cfg = live.from_ndarray(np.array(u, dtype=float))
                            o.count("decided:history_decode")
                            if v is not None:
                                how = _same(P, v, cfg[name])
                                if how is not None and not how.startswith("type:"):
                                    if earlier(cfg[name]) or any(
                                            _same(P, a, cfg[name]) is None for a in assigned[:-1] if not _eqv(a, v)):
                                        how = "earlier_fixed_value"
                                    rp("history", f"history_decode_inside_bounds_not_fixed_value:{ctor}:{mc}:{how}{tag}",
                                       {"value": v, "decoded": cfg[name], "u_last": u[start:end][:8], "bounds_last": b[start:end][:8]})
                                    break
                            for kk, D in others.items():
                                hw = D.is_nonmember(cfg[kk])
                                if hw is not None:
                                    rp("history", f"history_decode_nonmember:{D.ctor}:{D.nonmember_cond(hw)}:{hw}{tag}",
                                       {"key": kk, "value": cfg[kk]})
                elif op in ("random_config", "random_configs"):
                    sd = rng.randrange(2 ** 31)
                    if op == "random_config":
                        got = [live.random_config(np.random.RandomState(sd))]
                        exp = [ft.random_config(np.random.RandomState(sd))]
                    else:
                        m_ = rng.randint(2, 4)
                        got = live.random_configs(np.random.RandomState(sd), m_)
                        exp = ft.random_configs(np.random.RandomState(sd), m_)
                    o.count("decided:history_random_config")
                    if len(got) != len(exp) or any(not _eqcfg(a, c) for a, c in zip(got, exp)):
                        rp("history", f"history_{op}_differs_from_fresh_object:{ctor}:{mc}{tag}",
                           {"value": v, "got": got[:2], "fresh": exp[:2]})
                    if v is not None and any(not _eqv(c.get(name), v) for c in got):
                        rp("history", f"history_{op}_not_fixed_value:{ctor}:{mc}{tag}",
                           {"value": v, "got": [c.get(name) for c in got]})
                elif op == "to_ndarray":
                    cfg = member_cfg(rng.choice(values))
                    e1, e2 = live.to_ndarray(cfg), ft.to_ndarray(cfg)
                    o.count("decided:history_encode")
                    if e1.shape != (n,) or not np.array_equal(e1, e2):
                        rp("history", f"history_to_ndarray_differs_from_fresh_object:{ctor}:{mc}{tag}",
                           {"value": v, "config": cfg, "enc": e1.tolist()[:12], "fresh": e2.tolist()[:12]})
                else:
                    u = np.array([rng.choice([0.0, 1.0, rng.random()]) for _ in range(n)], dtype=float)
                    c1, c2 = live.from_ndarray(u), ft.from_ndarray(u)
                    o.count("decided:history_decode")
                    if not _eqcfg(c1, c2):
                        rp("history", f"history_from_ndarray_differs_from_fresh_object:{ctor}:{mc}{tag}",
                           {"value": v, "decoded": c1, "fresh": c2})
            except Exception as e:  # noqa: BLE001
                rp("history", f"raised:history:{op}:{ctor}:{mc}:{type(e).__name__}{tag}",
                   {"error": f"{type(e).__name__}: {str(e)[:200]}", "value": v})


# --------------------------------------------------------------------------- the space-level monitor


def _check_space(o, doms, seed):
    """Composition: the ranges of the whole space behave like the per-domain ranges side by side."""
    from syne_tune.config_space import config_space_from_json_dict, config_space_to_json_dict
    from syne_tune.optimizer.schedulers.searchers.utils.hp_ranges_factory import make_hyperparameter_ranges

    rng = random.Random(f"space:{seed}")
    # domains whose own encoder / decoder clauses held (sampling and JSON findings of a domain do not
    # keep it out of the composition check; the JSON part below uses the JSON-clean ones only)
    enc_clauses = {"construct", "encode", "decode", "roundtrip", "bounds", "finite_values"}
    good = [D for D in doms if D.hp is not None and D.enc and D.bounds is not None and not (D.bad_clauses & enc_clauses)
            and all(i in D.back for i in D.enc)]
    o.count("space_excluded_domains", len(doms) - len(good))
    if not good:
        return
    names = [f"h{j}" for j in range(len(good))]
    rng.shuffle(names)
    S = {}
    for nm, D in zip(names, good):
        S[nm] = D.d
    consts = {"epochs": 128, "c_float": 0.5, "c_str": "adam"}
    for k in rng.sample(sorted(consts), rng.randint(0, 3)):
        S[k] = consts[k]
    by_name = dict(zip(names, good))
    ctors = "+".join(sorted({D.ctor for D in good}))

    def viol(clause, mech, detail):
        d = {"space": {nm: by_name[nm].P for nm in sorted(by_name)}}
        d.update(detail)
        o.violate(clause, mech, d)

    last = rng.choice([None] + names)
    order = sorted(names)
    if last is not None:
        order = [x for x in order if x != last] + [last]
    try:
        hp = make_hyperparameter_ranges(S, name_last_pos=last)
        n = hp.ndarray_size
        b = [(float(lo), float(hi)) for lo, hi in hp.get_ndarray_bounds()]
        keys = list(hp.internal_keys)
    except Exception as e:  # noqa: BLE001
        viol("space", f"raised:make_hyperparameter_ranges:space:{type(e).__name__}", {"error": str(e)[:200], "ctors": ctors})
        return
    o.count("decided:space_composition")
    if keys != order:
        viol("space", "space_internal_key_order", {"keys": keys, "expected": order})
        return
    if n != sum(by_name[k].n for k in order):
        viol("space", "space_ndarray_size_not_sum", {"n": n, "parts": [by_name[k].n for k in order]})
        return
    exp_b = [x for k in order for x in by_name[k].bounds]
    if b != exp_b:
        viol("space", "space_bounds_not_concatenation", {"bounds": b[:12], "expected": exp_b[:12]})
    for _ in range(4):
        pick = {k: rng.choice(sorted(by_name[k].enc)) for k in order}
        config = {k: by_name[k].members[i] for k, i in pick.items()}
        cfg_in = dict(config)
        for k in S:
            if k not in by_name and rng.random() < 0.5:
                cfg_in[k] = S[k]
        try:
            e = hp.to_ndarray(cfg_in)
            back = hp.from_ndarray(e)
        except Exception as ex:  # noqa: BLE001
            viol("space", f"raised:space_encode_decode:{type(ex).__name__}", {"error": str(ex)[:200], "config": config})
            break
        o.count("decided:space_composition")
        exp = np.hstack([by_name[k].enc[pick[k]] for k in order])
        if e.shape != (n,) or not np.array_equal(e, exp):
            viol("space", "space_encoding_not_concatenation", {"config": config, "enc": e.tolist()[:12], "expected": exp.tolist()[:12]})
            break
        exp_back = {k: by_name[k].back.get(pick[k]) for k in order}
        if set(back) != set(order) or any(
            not (type(back[k]) is type(exp_back[k]) and back[k] == exp_back[k]) for k in order
        ):
            viol("space", "space_decoding_differs_from_single_domain", {"decoded": back, "expected": exp_back})
            break
    # random vectors of the cube decode to members of each domain
    for _ in range(3):
        u = np.array([rng.choice([0.0, 1.0, rng.random()]) for _ in range(n)], dtype=float)
        try:
            cfg = hp.from_ndarray(u)
        except Exception as ex:  # noqa: BLE001
            viol("space", f"raised:space_from_ndarray:{type(ex).__name__}", {"error": str(ex)[:200]})
            break
        o.count("decided:space_composition")
        for k in order:
            D = by_name[k]
            how = D.is_nonmember(cfg[k])
            if how is not None:
                viol("space", f"space_decode_nonmember:{D.ctor}:{D.nonmember_cond(how)}:{how}", {"key": k, "value": cfg[k]})
    # random_config == the samplers of the space in dict order (twin random state), values are members
    for _ in range(2):
        s = rng.randrange(2 ** 31)
        try:
            cfg = hp.random_config(np.random.RandomState(s))
            rs = np.random.RandomState(s)
            twin = {k: v.sample(random_state=rs) for k, v in hp.config_space_for_sampling.items()}
        except Exception as ex:  # noqa: BLE001
            viol("space", f"raised:space_random_config:{type(ex).__name__}", {"error": str(ex)[:200]})
            break
        o.count("decided:space_composition")
        if set(cfg) != set(order):
            viol("space", "space_random_config_keys", {"keys": sorted(cfg)})
            break
        for k in order:
            D = by_name[k]
            how = D.is_nonmember(cfg[k])
            if how is None:
                continue
            if type(twin[k]) is type(cfg[k]) and twin[k] == cfg[k]:
                D.viol("sample", D.sample_key(how, "size1"), {"value": cfg[k], "seed": s, "via": "random_config(space)"})
            else:
                viol("space", f"space_random_config_nonmember:{D.ctor}:{D.nonmember_cond(how)}:{how}", {"key": k, "value": cfg[k]})
    # histories on ONE live object: value_for_last_pos re-assigned between calls (space and ExtendedConfiguration)
    _space_histories(o, rng, S, by_name, hp, viol)
    # naming / ordering: name_last_pos on a first / middle key combined with prefix_keys, active space, fixed value
    _space_ordering(o, rng, by_name, viol)
    # active sub-ranges on a subset + fixed last position
    act = {k: by_name[k].Ad for k in order if by_name[k].Ad is not None and by_name[k].bounds_active is not None
           and "active" not in by_name[k].bad_clauses and rng.random() < 0.7}
    fixed = None
    if last is not None and last not in act and rng.random() < 0.7:
        D = by_name[last]
        fi = rng.choice(sorted(D.enc))
        fixed = D.members[fi]
    if act or fixed is not None:
        try:
            hpA = make_hyperparameter_ranges(S, name_last_pos=last, value_for_last_pos=fixed, active_config_space=act)
            bA = [(float(lo), float(hi)) for lo, hi in hpA.get_ndarray_bounds()]
        except Exception as ex:  # noqa: BLE001
            viol("space", f"raised:make_hyperparameter_ranges:space_active:{type(ex).__name__}",
                 {"error": str(ex)[:200], "active": {k: by_name[k].Pa for k in act}, "fixed": fixed})
            return
        o.count("decided:space_composition")
        exp_bA = []
        for k in order:
            D = by_name[k]
            if k in act:
                exp_bA += D.bounds_active
            elif k == last and fixed is not None:
                exp_bA += [(float(x), float(x)) for x in D.enc[fi]]
            else:
                exp_bA += D.bounds
        if bA != exp_bA:
            viol("space", "space_active_bounds_not_concatenation", {"bounds": bA[:12], "expected": exp_bA[:12]})
        else:
            for kind in ("corner_lo", "corner_hi", "interior", "interior"):
                if kind == "corner_lo":
                    u = [lo for lo, hi in bA]
                elif kind == "corner_hi":
                    u = [hi for lo, hi in bA]
                else:
                    u = [min(max(lo + rng.random() * (hi - lo), lo), hi) for lo, hi in bA]
                try:
                    cfg = hpA.from_ndarray(np.array(u, dtype=float))
                except Exception as ex:  # noqa: BLE001
                    viol("space", f"raised:space_active_from_ndarray:{type(ex).__name__}", {"error": str(ex)[:200]})
                    break
                o.count("decided:space_composition")
                pos = 0
                for k in order:
                    D = by_name[k]
                    blk = slice(pos, pos + D.n)
                    pos += D.n
                    if k in act:
                        D.judge_active_decode(cfg[k], u[blk], bA[blk], "corner" if kind.startswith("corner") else "interior", "space")
                    elif k == last and fixed is not None:
                        how = _same(D.P, fixed, cfg[k])
                        if how is not None:
                            viol("space", f"space_fixed_last_pos_decode:{D.ctor}:{D.mcond}:{how}", {"fixed": fixed, "got": cfg[k]})
    # JSON round trip of the whole space (domains whose own JSON clause held)
    for k in [k for k in order if not by_name[k].json_ok]:
        del S[k]
        del by_name[k]
    order = [k for k in order if k in by_name]
    if last not in by_name:
        last = None
    if not order:
        return
    try:
        hp = make_hyperparameter_ranges(S, name_last_pos=last)
        txt = json.dumps(config_space_to_json_dict(S))
        S2 = config_space_from_json_dict(json.loads(txt))
        eq = S2 == S and list(S2) == list(S)
        hp2 = make_hyperparameter_ranges(S2, name_last_pos=last)
    except Exception as ex:  # noqa: BLE001
        viol("json", f"raised:space_json_roundtrip:{type(ex).__name__}", {"error": str(ex)[:200], "ctors": ctors})
        return
    o.count("decided:space_json")
    if not eq:
        viol("json", "space_json_roundtrip_not_equal", {"json": txt[:600]})
        return
    if not (hp2 == hp and hp == hp2):
        viol("json", "space_json_ranges_not_equal", {"json": txt[:600]})
    for _ in range(3):
        config = {k: by_name[k].members[rng.choice(sorted(by_name[k].enc))] for k in order}
        try:
            same = np.array_equal(hp.to_ndarray(config), hp2.to_ndarray(config))
        except Exception as ex:  # noqa: BLE001
            viol("json", f"raised:space_json_encode:{type(ex).__name__}", {"error": str(ex)[:200]})
            break
        o.count("decided:json_encodes_identically")
        if not same:
            viol("json", "space_json_encodes_differently", {"config": config, "json": txt[:600]})
            break


_KEY_POOL = ["alpha", "epoch", "task", "zeta", "Beta", "lr", "x_1", "x_10", "x_2", "momentum", "Width", "a", "b0", "n_units",
             "dropout", "_t", "resource", "z9"]


def _space_ordering(o, rng, by_name, viol):
    """Which encoded columns / tuple positions belong to which hyper-parameter: ranges are built with
    ``name_last_pos`` on a first / middle / last key combined with ``prefix_keys``, an active sub-space and a
    fixed value; the internal order is compared with the documented rule (sorted keys; prefix keys first in
    the given order; the name_last_pos key moved to the end) and every column block, bound, tuple position
    and match-string part is compared with what the single-domain ranges of *that* hyper-parameter gave."""
    from syne_tune.optimizer.schedulers.searchers.utils.hp_ranges_factory import make_hyperparameter_ranges

    doms = [by_name[k] for k in sorted(by_name)]
    doms = [D for D in doms if D.members_rt]
    if len(doms) < 2:
        o.count("order_not_applicable")
        return
    for variant in range(3):
        names = rng.sample(_KEY_POOL, len(doms))
        B = dict(zip(names, doms))
        S = {nm: D.d for nm, D in B.items()}
        S["const_epochs"] = 7
        srt = sorted(names)
        # name_last_pos: mostly a key that is NOT already last in the sorted order
        r = rng.random()
        if r < 0.12:
            last = None
        elif r < 0.22:
            last = srt[-1]
        else:
            last = rng.choice(srt[:-1])
        # prefix_keys: ordered subset without the last-position key; often a key that sorts after it
        pk = None
        cand = [k for k in names if k != last]
        if rng.random() < 0.75 and cand:
            pk = rng.sample(cand, rng.randint(1, len(cand)))
            after = [k for k in cand if last is not None and k > last]
            if after and rng.random() < 0.6 and not any(k > last for k in pk):
                pk.insert(rng.randrange(len(pk) + 1), rng.choice([k for k in after if k not in pk]))
        act = {k: B[k].Ad for k in names if B[k].Ad is not None and B[k].bounds_active is not None
               and not ({"active", "sample"} & B[k].bad_clauses) and rng.random() < 0.4}
        fixed_i = None
        if last is not None and last not in act and "fixed_last_pos" not in B[last].bad_clauses and rng.random() < 0.5:
            fixed_i = rng.choice([i for i, m in enumerate(B[last].members) if i in B[last].enc and any(m is x for x in B[last].members_rt)])
        fixed = None if fixed_i is None else B[last].members[fixed_i]
        # documented order
        ref = list(pk or []) + [k for k in srt if k not in (pk or [])]
        if last is not None:
            ref = [k for k in ref if k != last] + [last]
        moved = last is not None and srt[-1] != last
        feats = []
        if last is not None:
            feats.append("last_moved" if moved else "last_already_last")
        if pk:
            feats.append("prefix")
        if act:
            feats.append("active")
        if fixed is not None:
            feats.append("fixed")
        ft = "+".join(feats) or "plain"
        det0 = {"keys": {k: B[k].P for k in srt}, "name_last_pos": last, "prefix_keys": pk, "active_keys": sorted(act),
                "value_for_last_pos": fixed, "documented_order": ref}

        def rp(mech, detail):
            d = dict(det0)
            d.update(detail)
            viol("order", f"{mech}:{ft}", d)

        try:
            hp = make_hyperparameter_ranges(S, name_last_pos=last, value_for_last_pos=fixed,
                                            active_config_space=act or None, prefix_keys=None if pk is None else list(pk))
            keys = list(hp.internal_keys)
            er = dict(hp.encoded_ranges)
            n = hp.ndarray_size
            b = _fb(hp.get_ndarray_bounds())
        except Exception as e:  # noqa: BLE001
            rp(f"raised:order:construct:{type(e).__name__}", {"error": str(e)[:200]})
            continue
        o.count("decided:order_variant")
        o.count("order:" + ft)
        if moved and pk:
            o.count("order:last_moved+prefix_any")
            if any(k > last for k in pk):
                o.count("order:last_moved+prefix_key_sorting_after_last")
            if srt[0] == last:
                o.count("order:last_is_first_key+prefix")
        if moved and len(doms) >= 3:
            o.count("order:last_moved_3plus_keys")
        if keys != ref or len(hp) != len(names):
            rp("order_internal_keys", {"internal_keys": keys})
            continue
        exp_er, pos = {}, 0
        for k in ref:
            exp_er[k] = (pos, pos + B[k].n)
            pos += B[k].n
        if n != pos:
            rp("order_ndarray_size", {"ndarray_size": n, "expected": pos})
            continue
        if {k: (int(v[0]), int(v[1])) for k, v in er.items()} != exp_er:
            rp("order_encoded_ranges", {"encoded_ranges": {k: list(map(int, v)) for k, v in er.items()}, "expected": exp_er})
            continue
        exp_b = []
        for k in ref:
            if k in act:
                exp_b += B[k].bounds_active
            elif k == last and fixed is not None:
                exp_b += [(float(x), float(x)) for x in B[k].enc[fixed_i]]
            else:
                exp_b += B[k].bounds
        o.count("decided:order_bounds")
        if b != exp_b:
            bad = [k for k in ref if b[exp_er[k][0]:exp_er[k][1]] != exp_b[exp_er[k][0]:exp_er[k][1]]]
            rp("order_bounds_blocks", {"keys_with_wrong_block": bad, "bounds": b[:16], "expected": exp_b[:16]})
        try:
            for _ in range(3):
                pick = {k: rng.choice([i for i in sorted(B[k].enc) if any(B[k].members[i] is x for x in B[k].members_rt)])
                        for k in ref}
                config = {k: B[k].members[i] for k, i in pick.items()}
                # columns: encoding block of key k == single-domain encoding of its value; decoding likewise
                e = hp.to_ndarray(dict(config, const_epochs=7) if rng.random() < 0.5 else config)
                o.count("decided:order_columns")
                wrong = [k for k in ref if e.shape != (n,) or not np.array_equal(e[exp_er[k][0]:exp_er[k][1]], B[k].enc[pick[k]])]
                if wrong:
                    rp("order_encoding_columns", {"config": config, "keys_with_wrong_block": wrong, "enc": e.tolist()[:16]})
                    break
                back = hp.from_ndarray(e)
                wrong = [k for k in ref if k not in back or not _eqv(back[k], B[k].back[pick[k]])]
                if wrong or set(back) != set(ref):
                    rp("order_decoding_columns", {"config": config, "keys_with_wrong_value": wrong, "decoded": back})
                    break
                u = np.array([rng.choice([0.0, 1.0, rng.random()]) for _ in range(n)], dtype=float)
                cfg = hp.from_ndarray(u)
                o.count("decided:order_columns")
                wrong = []
                for k in ref:
                    single = B[k].hp.from_ndarray(u[exp_er[k][0]:exp_er[k][1]])["x"]
                    if k not in cfg or not _eqv(cfg[k], single):
                        wrong.append(k)
                if wrong:
                    rp("order_decoding_columns", {"u": u.tolist()[:16], "keys_with_wrong_value": wrong, "decoded": cfg})
                    break
                # tuple / match-string functions (default keys, skip_last, explicit keys = prefix-style key lists)
                o.count("decided:order_tuple")
                tpl = hp.config_to_tuple(config)
                if tuple(tpl) != tuple(config[k] for k in ref) or hp.tuple_to_config(tpl) != config:
                    rp("order_config_to_tuple", {"config": config, "tuple": list(tpl)})
                    break
                ms = hp.config_to_match_string(config)
                if ms != ",".join(f"{k}:{S[k].match_string(config[k])}" for k in ref):
                    rp("order_match_string", {"config": config, "match_string": ms})
                    break
                short = ref[:-1] if last is not None else ref
                tpl = hp.config_to_tuple(config, skip_last=True)
                cfg_s = {k: config[k] for k in short}
                if tuple(tpl) != tuple(config[k] for k in short) or hp.tuple_to_config(tpl, skip_last=True) != cfg_s:
                    rp("order_config_to_tuple:skip_last", {"config": config, "tuple": list(tpl)})
                    break
                if hp.config_to_match_string(config, skip_last=True) != ",".join(
                        f"{k}:{S[k].match_string(config[k])}" for k in short):
                    rp("order_match_string:skip_last", {"config": config})
                    break
                kl = rng.sample(ref, rng.randint(1, len(ref)))
                tpl = hp.config_to_tuple(config, keys=list(kl))
                if tuple(tpl) != tuple(config[k] for k in kl) or hp.tuple_to_config(tpl, keys=list(kl)) != {k: config[k] for k in kl}:
                    rp("order_config_to_tuple:keys", {"config": config, "keys_arg": kl, "tuple": list(tpl)})
                    break
                if hp.config_to_match_string(config, keys=list(kl)) != ",".join(
                        f"{k}:{S[k].match_string(config[k])}" for k in kl):
                    rp("order_match_string:keys", {"config": config, "keys_arg": kl})
                    break
                if list(hp.internal_keys) != ref:
                    rp("order_internal_keys_changed_by_calls", {"internal_keys": list(hp.internal_keys)})
                    break
            # sampled configurations: key set, fixed value; vectors inside the bounds: per key decided by block
            c = hp.random_config(np.random.RandomState(rng.randrange(2 ** 31)))
            o.count("decided:order_sampling")
            if set(c) != set(ref) or (fixed is not None and not _eqv(c[last], fixed)):
                rp("order_random_config", {"random_config": c})
            if b == exp_b:
                for u in ([lo for lo, hi in b], [hi for lo, hi in b], [lo + rng.random() * (hi - lo) for lo, hi in b]):
                    u = [min(max(x, lo), hi) for x, (lo, hi) in zip(u, b)]
                    cfg = hp.from_ndarray(np.array(u, dtype=float))
                    o.count("decided:order_columns")
                    for k in ref:
                        st, en = exp_er[k]
                        if k == last and fixed is not None:
                            how = _same(B[k].P, fixed, cfg[k])
                            if how is not None:
                                rp(f"order_fixed_value_decode:{B[k].ctor}:{how}", {"decoded": cfg[k]})
                        elif not _eqv(cfg[k], B[k].hp.from_ndarray(np.array(u[st:en], dtype=float))["x"]):
                            rp("order_decoding_columns", {"u": u[:16], "keys_with_wrong_value": [k], "decoded": cfg})
                            break
        except Exception as e:  # noqa: BLE001
            rp(f"raised:order:{type(e).__name__}", {"error": f"{type(e).__name__}: {str(e)[:200]}"})


def _space_histories(o, rng, S, by_name, hp_plain, viol):
    from syne_tune.optimizer.schedulers.searchers.bayesopt.datatypes.config_ext import ExtendedConfiguration
    from syne_tune.optimizer.schedulers.searchers.utils.hp_ranges_factory import make_hyperparameter_ranges

    usable = {k: D for k, D in by_name.items() if D.members_rt and "fixed_last_pos" not in D.bad_clauses}
    if len(usable) != len(by_name):
        o.count("history_not_applicable")
        return
    # (a) a hyper-parameter of the space in the last position
    lastH = rng.choice(sorted(usable))
    onehot = sorted(k for k, Dk in usable.items() if Dk.n > 1)
    if onehot and rng.random() < 0.5:
        lastH = rng.choice(onehot)  # several encoded dimensions pinned at once
    D = usable[lastH]
    others = {k: Dk for k, Dk in usable.items() if k != lastH}
    init = rng.choice([None, rng.choice(D.members_rt)])
    try:
        live = make_hyperparameter_ranges(S, name_last_pos=lastH, value_for_last_pos=init)
    except Exception as e:  # noqa: BLE001
        viol("history", f"raised:make_hyperparameter_ranges:space_last_pos:{type(e).__name__}", {"error": str(e)[:200]})
        live = None
    if live is not None:
        _history(o, rng, live, lambda v: make_hyperparameter_ranges(S, name_last_pos=lastH, value_for_last_pos=v),
                 lastH, D.P, D.members_rt, others, viol, "space", rng.randint(4, 7))
    # (b) the way the multi-fidelity searchers use it: resource attribute appended by ExtendedConfiguration,
    # value_for_last_pos set to the target resource before every use
    r_max = rng.choice([1, 3, 9, 27, 81, rng.randint(2, 200), 10 ** rng.randint(3, 9)])
    r_min = rng.choice([1, rng.randint(1, r_max)])
    try:
        ext = ExtendedConfiguration(hp_ranges=hp_plain if hp_plain.name_last_pos is None else make_hyperparameter_ranges(S),
                                    resource_attr_key="epoch", resource_attr_range=(r_min, r_max))
        live = ext.hp_ranges_ext
        name = ext.resource_attr_name
        cs_ext = dict(live.config_space)
    except Exception as e:  # noqa: BLE001
        viol("history", f"raised:ExtendedConfiguration:{type(e).__name__}", {"error": str(e)[:200], "range": [r_min, r_max]})
        return
    if live.name_last_pos != name or live.internal_keys[-1] != name:
        viol("history", "ext_config_resource_not_last", {"keys": list(live.internal_keys), "name": name})
        return
    P = {"ctor": "randint", "lower": 1, "upper": r_max}
    vals = sorted({1, r_max, r_min, (1 + r_max) // 2} | {rng.randint(1, r_max) for _ in range(5)})
    o.count("history:ext_config_objects")
    _history(o, rng, live, lambda v: type(live)(cs_ext, name_last_pos=name, value_for_last_pos=v),
             name, P, vals, dict(usable), viol, "ext", rng.randint(4, 7))


# --------------------------------------------------------------------------- case driver


def run_case(spec):
    o = Obs()
    seed = spec["seed"]
    if "domains" in spec:  # deterministic reproducer / explicit parameters
        params = [dict(P) for P in spec["domains"]]
    else:
        params = []
        for i, (ctor, cell) in enumerate(spec["plan"]):
            rng = random.Random(f"gen:{seed}:{i}")
            P = None
            for _ in range(50):
                P = _gen_params(rng, ctor, cell)
                c = _cond(P)
                if (c == "generic") == (cell == "generic"):
                    break
                o.count("generator_redraw")
            params.append(P)
    doms = []
    for i, P in enumerate(params):
        o.ev("domain", i, P["ctor"], _cond(P))
        D = _Dom(o, P, i, seed)
        D.run()
        doms.append(D)
    if len(doms) >= 1 and not spec.get("no_space"):
        _check_space(o, doms, seed)
    sig = sorted((D.ctor, D.cond, D.n, tuple(sorted(D.flags))) for D in doms)
    o.set_sig(sig, nontrivial=any(D.back for D in doms))
    o.sample = {
        "domains": [
            {"params": {k: (v if not isinstance(v, list) else v[:6] + (["..."] if len(v) > 6 else [])) for k, v in D.P.items()},
             "cond": D.cond, "ndarray_size": D.n, "members_encoded": len(D.enc),
             "some_members": D.members[:4], "flags": sorted(D.flags)}
            for D in doms[:6]
        ],
        "probes": sum(v for k, v in o.counters.items() if k.startswith("decided:")),
    }
    return o.result()
