"""C08 — GP posterior, likelihood and incremental updates equal the dense definition.

Reference-model monitor (DESIGN §4 C08). For each generated case the real objects are built
(kernel / mean blocks, ``GaussProcPosteriorState``, ``IncrementalUpdateGPPosteriorState``,
``GaussianProcessRegression``) with parameters set through the public setters (and, in half of the
cases, transferred to a second instance with set_params(get_params())); the reference is computed from
the values the test installed, never from what the model reports back; and every output is
compared with ``stv.refmodels.dense_gp`` — an independent dense implementation of the textbook
formulas (own Matern-5/2 from coordinate differences, own outer-product Cholesky / substitutions in
numpy extended precision, no LAPACK), validated continuously against mpmath at 50 digits on n <= 6.

Stages, in this order (a later stage only uses what an earlier one has validated):

K  kernel:    Gram matrices of the kernel object  ==  textbook Matern-5/2 (ARD / scalar inverse
              bandwidths, covariance scale), entry by entry, within a round-off band (+ the documented
              0.5e-9*scale band of the sqrt regulariser NUMERICAL_JITTER); symmetry;
              K(X,X*) == K(X*,X)^T; diag(K(X,X)) == diagonal(X) == covariance scale; single-pair calls
              k(x_i, x_j) == K[i, j]. Warped / product / range kernels additionally against their own
              textbook composition (the Kumaraswamy warp is checked separately, the inner Matern on the
              code's warped inputs); exponential-decay (delta free / fixed to 0, 1 or inside (0,1),
              non-zero configuration mean) / freeze-thaw / Fabolas kernels and every composed kernel
              (products of a stationary and a non-stationary factor, warped or not) against a reference
              derived from their generative model (Gram entries, diagonal(), exp-decay mean function),
              plus diag(K(X,X)) == diagonal(X) and "diagonal_depends_on_X() is False  => diagonal() and
              the Gram diagonal are the same at X, X* and fresh points".
              After that the Gram matrices are taken from the kernel object, with exactly the calls a
              state makes (kernel(features, features), kernel(features, feature), kernel(features, X*)).
J  jitter:    E = L L^T - K (L = state.chol_fact; K = lower triangle of the Gram matrix mirrored, which
              is what potrf reads) must be s*I: off-diagonal untouched, diagonal shift constant,
              s >= sigma^2; if s > sigma^2 it is one of the documented trial values
              sigma^2 + 1e-9*max(mean diag K, 1)*10^k and the previous trial value really fails.
              The reference then uses s. For an incrementally extended state K is the base Gram matrix
              bordered by the update's own kernel(features, feature) columns and diagonal() entries;
              E must be diagonal, old entries unchanged, each new entry sigma^2 (more iff the documented
              MIN_CHOLESKY_DIAGONAL_VALUE clamp is active).
P  posterior: mean  m* + k*^T A^-1 (y-m);  variance  max(k** - k*^T A^-1 k*, floor);
              nlml  1/2 r^T A^-1 r + 1/2 log|A| + n/2 log 2pi;  floor <= variance <= max(prior, floor);
              fantasy column j == single-target posterior of column j, one shared variance vector;
              joint samples through a scripted random_state whose normal(size) returns unit vectors
              (plus one all-zero draw giving the mean): F F^T - S* must be s_j*I, and s_j = 0 unless S*
              is numerically singular (the fixed 1e-5 the code adds is candidate finding C08-F1).
M  mcmc:      GPRegressionMCMC: for every retained sample i, state i must report sample i's parameters
              (kernel / mean get_params, noise_variance) and its kernel object, Cholesky factor, predict,
              nlml, sample_marginals (scripted z), sample_joint and the model's predict()[i] are checked
              by stages K, J, P with the reference computed from sample i; after fit and after
              recompute_states (new data, fantasy blocks of n_samples*nf columns, assigned samples).
H  history:   GaussianProcessRegression through fit / recompute_states sequences (grown, replaced, re-labelled
              data; all or some optimiser restarts made to raise): after every call the state holds exactly
              the data passed, and stages K, J, P hold for it under the parameters reported after the call.
   (all stages) in 40 % of the cases the caller's arrays are overwritten in place right after each call that
              received them; states are documented as immutable, so every later clause must still hold.
I  incremental: update() / sample_and_update() / expand_fantasies() chains; dense check of intermediate
              and final states; comparison with the state recomputed from scratch (tolerance widened by
              the first-order effect of the kernel round-off band and of the documented regulariser
              band on the new diagonal entries: update() takes them from diagonal(), the recomputed
              state from the Gram matrix); drawn target == predictive mean + z*std for the scripted z,
              mean-imputed columns == predictive mean; originals not mutated.

Tolerances (calibrated with mpmath, n <= 6, 3600 cases, and with the extended-precision reference up to
n = 40, 4000 cases: the largest observed |error| / tolerance with C = Ca/8 = 1 was 0.42):
    |d mean_ij| <= C eps cond(A) sqrt(q_i quad_j) + Ca eps (|m*| + |mean_ij|)
    |d var_i|   <= C eps cond(A) q_i            + Ca eps k**_i
    |d nlml|    <= C eps cond(A) (quad + n)     + Ca eps (|nlml| + 2 sum|log L_ii| + n + quad)
with q_i = k*_i^T A^-1 k*_i, quad_j = r_j^T A^-1 r_j, C = 8, Ca = 16 (``TOL``). If C eps cond(A) > 1e-3
the tolerance cannot be trusted: the value clauses of that state are *inconclusive* (counted), the
tolerance-free clauses (floor, finiteness, structure of L L^T - K) are still decided.
Kernel entries: 16 eps scale (1 + 5(|ib*x_i|^2 + |ib*x_j|^2)) (largest observed ratio 2/16).
Cholesky structure: 4 (n+2) eps sqrt(A_ii A_jj).
"""
import math

from stv import envshim  # noqa: F401
from stv.obs import Obs
from stv.refmodels import dense_gp as dg

import numpy as np

ID = "C08"
LEVEL = "exploration"
RULE = (
    "case = seeded (kernel kind in {matern, gpr, jitter-regime, warped, product, range, expdecay, history = "
    "GaussianProcessRegression driven through 2..4 fit / recompute_states calls with grown, replaced or re-labelled "
    "data, n_starts 1..3, with an injected optimiser fault (scipy.optimize.minimize raises on all / on some "
    "restarts) in part of the fit calls, the single posterior state checked after EVERY call against the dense "
    "posterior of the data passed to that call under the parameters the model then reports; mcmc = "
    "GPRegressionMCMC with a small MCMCConfig (2..12 samples, burn-in, thinning; 1..6 retained states), fit then "
    "recompute_states on new data / fantasy matrices, optionally with in-box hyperparameter samples assigned by "
    "the test, every state checked against the dense definition with its OWN sample; composed = "
    "[WarpedKernel of] ProductKernelFunction(stationary, non-stationary) / WarpedKernel(non-stationary) with "
    "exponential-decay and freeze-thaw resource kernels, warping on the non-stationary factor's coordinates}; n 1..40, "
    "encoded dimension d 1..6 and (a quarter of the cases) 7..14 with up to three one-hot blocks, ARD with "
    "distinct per-coordinate inverse bandwidths, parameters installed through set_params / the setters and, in "
    "half of the cases, transferred to a second instance by set_params(get_params()); 1..12 test points, 1..6 target/fantasy columns; parameters log-uniform inside their box "
    "constraints incl. the corners; inputs in the unit cube from uniform/grid draws with exact and near "
    "(1e-12..1e-3) duplicates, test points partly equal/near to training points; scalar or zero mean; "
    "optional (kernel, covariance_scale) tuple; incremental chain of 0..12 update/sample_and_update steps, "
    "optionally after expand_fantasies). Distinct = digest of the observed (kind, n, d, n_test, columns, ARD, "
    "scale flags, jitter classes per state, chain operations, clauses decided, inconclusive reasons). "
    "Non-trivial = n >= 2, the Gram matrix has an off-diagonal entry > 1e-3 of its diagonal, and at least one "
    "posterior clause was decided."
)
ASSUMPTIONS = [
    "sizes: n <= 40 training points (incl. chain), d <= 14, <= 12 test points, <= 6 target columns",
    "the dense reference is computed from the parameter values the test installed (coordinate by coordinate), "
    "not from what get_params reports; get_params is additionally required to report the installed values "
    "(relative 1e-12: the logarithmic encoding costs an ulp) and to survive a set_params(get_params()) transfer",
    "the kernel's sqrt regulariser NUMERICAL_JITTER (sqrt(5 r^2 + 1e-9), constants.py) is part of the "
    "admissible kernel: entries are compared with the textbook formula with a band of 0.5e-9*scale "
    "(+ round-off) and with the regularised formula to round-off; diagonal() vs diag(K) likewise",
    "kernel round-off band: 16 eps scale (1 + 5 (|ib*x_i|^2 + |ib*x_j|^2)) — the squared distance is "
    "evaluated by the expansion |a|^2+|b|^2-2ab",
    "posterior algebra is checked on the Gram matrices returned by the kernel object (validated entrywise in "
    "stage K, obtained with the same calls a state makes, lower triangle), with A = K + s I where s is the "
    "monitored jitter result; reference arithmetic in numpy long double (x86 80 bit) where available",
    "prior variance = kernel.diagonal() (the textbook k(x,x) = scale); Gram diagonal and diagonal() differ by the "
    "documented regulariser band 0.5e-9*scale, which is why an updated state and a recomputed state differ on "
    "the new diagonal entries; that difference is propagated (first order) into the incremental-vs-scratch "
    "tolerance, not judged",
    "noise variances below the box constraint (0, 1e-16..1e-11) are used only in the 'jitter' population, "
    "passed directly to the posterior-state constructor (AddJitterOp documents sigsq_init as any "
    "non-negative scalar); they are counted separately (cell:noise_below_box)",
    "sample_joint: F F^T - S* must be s_j*I (off-diagonal untouched, diagonal shift constant, s_j >= 0); a shift "
    "s_j > 0 is accepted only if the posterior covariance S* is numerically singular (a shift is then needed for "
    "the factorisation); otherwise it is a violation (the code starts its jitter search at 1e-5 instead of 0, "
    "see known finding C08-F1); shifts that cannot be resolved to 1e-7 are not judged",
    "exponential-decay / freeze-thaw / Fabolas kernels and every composition of them have an independent reference "
    "derived from the generative model of the class docstrings (f = h(1 - delta e) + gamma e, E e = kappa, "
    "E e e' = kappa(r+r'); freeze-thaw: one independent decay per configuration; Fabolas: (U phi)^T(U phi)), "
    "evaluated in extended precision with the installed parameter values: Gram entries, diagonal() and the "
    "exponential-decay mean function are compared with it (round-off band widened by 8(1+alpha): kappa = "
    "base^alpha amplifies the rounding of its base); delta of the exponential-decay kernel is free, or fixed to "
    "0, to 1, or to a value strictly inside (0,1); the configuration mean value is mostly +-0.3..2",
    "composed kernels must additionally be self-consistent (symmetry, pair calls, diag(K(X,X)) == diagonal(X) within the "
    "regulariser band, diagonal_depends_on_X() == False only if diagonal() and the Gram diagonal do not vary), "
    "then the posterior / incremental clauses run on their Gram matrices; a case whose diagonal() disagrees "
    "with the Gram diagonal stops after stage K (the prior variance is ambiguous)",
    "mcmc: the layout of a hyperparameter sample vector is taken from likelihood.param_encoding_pairs() (names "
    "noise_variance, covariance_scale, inverse_bandwidths, mean_value); a state's reference is computed from "
    "model.samples[i], and state.kernel / state.mean get_params() and state.noise_variance must report exactly "
    "that sample; a failure of the slice sampler in fit() is inconclusive (fitting is not constrained by C08); "
    "hostile parameter regions are reached by assigning model.samples (public attribute) before recompute_states",
    "history: the optimiser fault is injected by replacing scipy.optimize.minimize for the duration of one fit() "
    "call (FloatingPointError on the chosen restarts); the model picks its own parameters there, so the reference "
    "uses model.get_params() read after the call (the kernel object is still checked against the textbook formula "
    "for those values)",
    "sample_and_update: with a real numpy RandomState the harness replays a twin generator: the m targets must use "
    "m consecutive draws and the generator must have advanced by exactly m draws (also with mean_impute_mask)",
    "immutability: in 40 % of the cases every ndarray handed to the library (features, targets, noise variance, "
    "tuple covariance scale of a state constructor; feature row and target of update / sample_and_update and the "
    "returned target; data['features'] / data['targets'] of fit / recompute_states) is overwritten in place by the "
    "harness right after the call (other data / rescaling / zeros); all references are computed from private "
    "copies of the original data, so a state that kept a reference instead of a copy fails the ordinary clauses, "
    "and state.features must still equal the private copy",
    "FabolasKernelFunction factors are generated only with INCLUDE_FABOLAS (its forward() ignores u2 and u3: "
    "candidate finding C08-F2)",
    "states whose system matrix has 8 eps cond(A) > 1e-3 are inconclusive for the value clauses",
    "the tuple covariance scale has no box constraint of its own: it is drawn such that (kernel covariance scale x "
    "tuple scale) is log-uniform in the box [1e-3, 1e3] of the covariance scale",
    "an exception raised by predict / sample_joint for a state with 8 eps cond(A) > 1e-3, or with a noise variance "
    "below the box, is inconclusive (the property does not constrain the result there), otherwise a violation",
]
CASE_TIMEOUT = 120

EPS = dg.EPS
TOL = {"C": 8.0, "Ca": 16.0, "Ck": 16.0, "Cchol": 4.0, "cap": 1e-3}
# sample_joint adds 1e-5 to every marginal variance although no jitter is needed (candidate finding C08-F1).
# True: reported as a violation (mechanism sample_joint:variance_inflated_by_fixed_initial_jitter_1e-5);
# False: only counted (joint_offset:1e-5).
JOINT_INITIAL_JITTER_IS_FINDING = True
# Composition classes of the kind "composed" (kernel trees the library ships: product of a stationary and a
# non-stationary factor, wrapped or not in a WarpedKernel whose warping acts on the non-stationary factor).
COMP_CLASSES = [
    "warp(prod(matern,expdecay))", "warp(prod(matern,expdecay))", "warp(prod(expdecay,matern))",
    "warp(prod(matern,freezethaw))", "prod(matern,expdecay)", "prod(matern,freezethaw)",
    "warp(prod(matern,matern))", "warp(expdecay)", "warp(freezethaw)",
]
# FabolasKernelFunction.forward reads the internal value of u1 for u1, u2 and u3, diagonal() the real ones:
# diag(K(X,X)) != diagonal(X) as soon as u2 != u1 or u3 != log(u1) (candidate finding C08-F2, reproducer in
# .scratch/kf_C08.json). The classes with a Fabolas factor are generated only when this is True.
INCLUDE_FABOLAS = True
FABOLAS_CLASSES = ["warp(prod(matern,fabolas))", "prod(matern,fabolas)"]

_G = {}


def preload():
    from syne_tune.optimizer.schedulers.searchers.bayesopt.gpautograd import (  # noqa: F401
        constants, custom_op, gp_regression, likelihood, mean, posterior_state, posterior_utils, warping,
    )
    from syne_tune.optimizer.schedulers.searchers.bayesopt.gpautograd.kernel import (  # noqa: F401
        Matern52, ProductKernelFunction, RangeKernelFunction, ExponentialDecayResourcesKernelFunction,
        ExponentialDecayResourcesMeanFunction,
    )
    import mpmath  # noqa: F401
    import scipy.linalg  # noqa: F401


def _imports():
    if _G:
        return _G
    from syne_tune.optimizer.schedulers.searchers.bayesopt.gpautograd import constants
    from syne_tune.optimizer.schedulers.searchers.bayesopt.gpautograd.kernel import (
        Matern52, ProductKernelFunction, RangeKernelFunction, ExponentialDecayResourcesKernelFunction,
        ExponentialDecayResourcesMeanFunction, FreezeThawKernelFunction, FabolasKernelFunction,
    )
    from syne_tune.optimizer.schedulers.searchers.bayesopt.gpautograd.warping import Warping, WarpedKernel
    from syne_tune.optimizer.schedulers.searchers.bayesopt.gpautograd.mean import (
        ScalarMeanFunction, ZeroMeanFunction,
    )
    from syne_tune.optimizer.schedulers.searchers.bayesopt.gpautograd.posterior_state import (
        GaussProcPosteriorState, IncrementalUpdateGPPosteriorState,
    )
    from syne_tune.optimizer.schedulers.searchers.bayesopt.gpautograd.gp_regression import (
        GaussianProcessRegression,
    )
    from syne_tune.optimizer.schedulers.searchers.bayesopt.gpautograd.gpr_mcmc import GPRegressionMCMC
    from syne_tune.optimizer.schedulers.searchers.bayesopt.gpautograd.constants import MCMCConfig
    import scipy.linalg as spl

    _G.update(locals())
    return _G


# ----------------------------------------------------------------------------------- sizes / floors
KINDS = ["matern", "jitter", "gpr", "matern", "jitter", "warped", "matern", "jitter", "product", "gpr",
         "jitter", "range", "matern", "jitter", "expdecay", "warped", "composed", "composed", "composed", "mcmc", "mcmc", "history", "history"]


def _comp_classes():
    return COMP_CLASSES + (FABOLAS_CLASSES if INCLUDE_FABOLAS else [])


def cases(tier, seed):
    n = 1500 if tier == "quick" else 20000
    out = []
    classes = _comp_classes()
    for i in range(n):
        spec = {"seed": seed * 1000003 + i, "kind": KINDS[i % len(KINDS)], "mp": (i % 3 == 0)}
        if spec["kind"] == "composed":
            spec["comp"] = classes[(i // 3) % len(classes)]  # every composition class equally often
        out.append(spec)
    # direct probes of the jitter search (AddJitterOp) on matrices that need more than one attempt
    for i in range(150 if tier == "quick" else 2000):
        out.append({"seed": seed * 1000003 + 500000 + i, "kind": "jitter_op"})
    return out


def floors(tier):
    # measured on the unchanged tree, seeds 0..4 (quick: minimum over the seeds, floors at <= 75 % of it;
    # the six cells DESIGN names are kept at >= 100). thorough has 13.3x the cases: x10.
    f = 1 if tier == "quick" else 10
    q = {
        "cell:ard": 100, "cell:cov_scale_ne_1": 100, "cell:fantasies_gt1": 100, "cell:ntest_gt1": 100,
        "cell:jitter_added": 100, "cell:chain_ge5": 100,
        "cell:jitter_added_noise_inside_box": 5, "cell:tuple_scale": 100, "cell:zero_mean": 100,
        "cell:scalar_mean": 100, "cell:exact_duplicates": 100, "cell:near_duplicates": 100,
        "cell:expand_fantasies": 50, "cell:n_eq_1": 25,
        "cell:kind:gpr": 100, "cell:kind:warped": 100, "cell:kind:product": 45, "cell:kind:range": 50,
        "cell:kind:expdecay": 50,
        "cell:d_ge_7": 150, "cell:ard_d_ge_11": 50, "cell:onehot_blocks": 80,
        "cell:kind:mcmc": 100, "mcmc:states_checked": 350, "cell:mcmc_ge2_distinct_samples": 60,
        "decided:mcmc_state_params": 350, "mcmc:recompute_states": 60, "mcmc:recompute_fantasies": 20,
        "mcmc:assigned_samples": 30, "decided:sample_marginals": 200, "decided:mcmc_model_predict": 100,
        "cell:expdecay_delta:free": 20, "cell:expdecay_delta:fixed_0": 8, "cell:expdecay_delta:fixed_1": 12,
        "cell:expdecay_delta:fixed_interior": 35, "cell:expdecay_delta_fixed_interior_and_mean_nonzero": 30,
        "cell:expdecay_mean_nonzero": 90, "decided:expdecay_mean_function": 45,
        "cell:caller_arrays_overwritten": 350, "cell:caller_arrays_overwritten_chain": 160,
        "decided:state_keeps_own_copy_of_features": 1500, "scribble:base_state": 170, "scribble:chain_step": 950,
        "scribble:scratch_state": 300, "scribble:model_call": 170,
        "cell:kind:history": 100, "decided:state_holds_data_passed": 800, "decided:states_after_fit": 80,
        "decided:states_after_recompute_states": 45, "decided:states_after_refit_with_all_restarts_failed": 70,
        "decided:states_after_refit_with_all_restarts_failed:data_changed": 55,
        "decided:states_after_refit_with_some_restarts_failed": 45,
        "decided:states_after_refit_with_some_restarts_failed:data_changed": 15, "mcmc:refit_grown_data": 20,
        "decided:sample_and_update_generator_advance": 450, "decided:sample_and_update_independent_columns": 120,
        "cell:kind:composed": 120, "decided:diagonal_flag": 1000, "diagonal_flag:True": 150,
        "diagonal_flag:False": 600, "roundtrip:composed": 50,
        "decided:params_roundtrip": 400, "roundtrip:gpr": 35,
        "decided:kernel_textbook": 5000, "decided:kernel_pairwise": 9000, "decided:warp_transform": 100,
        "decided:jitter_structure": 3500, "decided:jitter_sequence": 100, "decided:jitter_minimal": 100,
        "decided:jitter_op": 120, "jitter_op:failed_attempts_2": 10, "jitter_op:failed_attempts_3": 10,
        "jitter_op:failed_attempts_ge4": 10,
        "decided:predict_mean": 1500, "decided:predict_variance": 1500, "decided:variance_bounds": 1700,
        "decided:nlml": 650, "decided:joint_covariance": 2000, "decided:joint_offset": 500,
        "decided:incremental_vs_scratch": 350, "decided:fantasy_columns": 800,
        "decided:sample_and_update_target": 600, "decided:update_does_not_mutate": 2300,
        "decided:expand_fantasies": 60, "decided:gpr_predict": 100,
        "decided:mpmath_posterior": 80, "decided:mpmath_kernel": 30, "decided:mpmath_nlml": 35,
    }
    for cls in set(_comp_classes()):
        q["stage_K:comp:" + cls] = 12  # kernel clauses decided on this composition class
        if cls not in FABOLAS_CLASSES:  # (cases with a Fabolas factor stop after stage K as long as C08-F2 stands)
            q["cell:comp:" + cls] = 10  # posterior clauses decided on this composition class
            q["cell:comp_chain:" + cls] = 4  # ... including an incremental chain
    return {k: v * f for k, v in q.items()}


# ----------------------------------------------------------------------------------- helpers
def _logu(rng, lo, hi, corner=0.08):
    r = rng.random()
    if r < corner:
        return float(lo)
    if r < 2 * corner:
        return float(hi)
    return float(math.exp(rng.uniform(math.log(lo), math.log(hi))))


def _f(x):
    return float(np.asarray(x).reshape(-1)[0])


class ScriptedNormal:
    """random_state stand-in: normal(size=...) returns the next prepared array."""

    def __init__(self, arrays):
        self.arrays = list(arrays)
        self.calls = []
        self.bad = False

    def normal(self, loc=0.0, scale=1.0, size=None):
        self.calls.append(size)
        if not self.arrays:
            self.bad = True
            return np.zeros(size)
        a = self.arrays.pop(0)
        if size is None or tuple(np.atleast_1d(size)) != a.shape:
            self.bad = True
            return np.zeros(size)
        return a.copy()


def _scribble(o, rng, *arrays):
    """The caller re-uses its buffers: overwrite, in place, the arrays that were handed to the library (another
    data set / a rescaling / zeros). A posterior state is documented as immutable, so nothing it returns later
    may depend on this."""
    for a in arrays:
        if not isinstance(a, np.ndarray) or a.size == 0 or not a.flags.writeable:
            continue
        u = rng.random()
        if u < 0.5:
            a[...] = rng.uniform(size=a.shape)
        elif u < 0.8:
            a *= 3.7
            a += 0.25
        else:
            a[...] = 0.0
        o.count("scribble:arrays")


class Raised(Exception):
    pass


def _call(o, api, fn, *a, _trusted=True, **kw):
    """Run an API call of the code under test; an exception is a violation (BUILDING.md) — unless the
    state is so ill-conditioned (or outside the quantifier) that the property does not constrain the result."""
    try:
        return fn(*a, **kw)
    except Exception as e:  # noqa: BLE001
        if not _trusted:
            o.inconclusive(f"raised_in_unconstrained_state:{api}:{type(e).__name__}")
            raise Raised(api)
        msg = str(e)
        key = "other"
        for frag, k in (("jitter", "jitter_upper_bound"), ("shape", "shape"), ("align", "shape"),
                        ("broadcast", "shape"), ("dimension", "shape"), ("positive definite", "not_pd"),
                        ("leading minor", "not_pd"), ("singular", "singular")):
            if frag in msg:
                key = k
                break
        o.violate("no_exception", f"raised:{api}:{type(e).__name__}:{key}", {"error": repr(e)[:300]})
        raise Raised(api)


# ----------------------------------------------------------------------------------- model building
class Model:
    pass


def _matern_new(rng, d, spec):
    """Create a Matern52 block and draw the parameter values to be set (log-uniform in the box)."""
    G = _imports()
    ard = bool(spec.get("ard", rng.random() < (0.55 if d <= 6 else 0.8))) and d > 1
    has_cs = bool(spec.get("has_cs", rng.random() < 0.85))
    k = G["Matern52"](dimension=d, ARD=ard, has_covariance_scale=has_cs)
    k.collect_params().initialize()
    ib_req = [_logu(rng, float(spec.get("ib_lo", 1e-4)), 100.0) for _ in range(d if ard else 1)]
    if "ib" in spec:
        ib_req = [float(v) for v in spec["ib"]][: (d if ard else 1)]
    c_req = float(spec.get("c", _logu(rng, 1e-3, 1e3))) if has_cs else 1.0
    pd = {}
    if len(ib_req) == 1:
        pd["inv_bw"] = ib_req[0]
    else:
        for i, v in enumerate(ib_req):
            pd[f"inv_bw{i}"] = v
    if has_cs:
        pd["covariance_scale"] = c_req
    return k, {"ard": ard, "has_cs": has_cs, "ib_req": ib_req, "c_req": c_req, "pd": pd, "d": d}


def _matern_set(k, req, rng):
    """Public setters of the kernel block: set_params, or the per-parameter setters."""
    if rng.random() < 0.5 or not req["has_cs"]:
        k.set_params(dict(req["pd"]))
    else:
        k.squared_distance.set_params(dict(req["pd"]))
        k.set_covariance_scale(req["c_req"])


def _matern_read(k, req, o):
    """Read the values back through get_params and compare with what was installed. Returns the INSTALLED
    values (one per coordinate): the dense reference is computed from what the test set, coordinate by
    coordinate, not from what the model reports."""
    g = k.get_params()
    d = req["d"]
    if len(req["ib_req"]) == 1:
        got = [_f(g["inv_bw"])]
        ib = np.array(list(req["ib_req"]) * d, dtype=np.float64)
    else:
        missing = [i for i in range(d) if f"inv_bw{i}" not in g]
        if missing:
            o.violate("parameters", "get_params_key_missing:inv_bw", {"missing": missing[:5]})
            raise Raised("get_params")
        got = [_f(g[f"inv_bw{i}"]) for i in range(d)]
        ib = np.array(req["ib_req"], dtype=np.float64)
    c_got = _f(g["covariance_scale"]) if req["has_cs"] else 1.0
    names = ["inv_bw"] if len(got) == 1 else [f"inv_bw[{i}]" for i in range(d)]
    for want, have, name in list(zip(req["ib_req"], got, names)) + [(req["c_req"], c_got, "covariance_scale")]:
        o.count("decided:param_readback")
        if not abs(have - want) <= 1e-12 * abs(want):
            o.violate("parameters", "set_params_value_not_taken:" + name.split("[")[0],
                      {"parameter": name, "set": want, "get": have, "d": d})
    return ib, float(req["c_req"])


def _same_params(o, g1, g2, what):
    """get_params of a model restored with set_params(get_params()) must report the same values."""
    o.count("decided:params_roundtrip")
    bad = [kk for kk in g1 if kk not in g2 or not abs(_f(g2[kk]) - _f(g1[kk])) <= 1e-12 * abs(_f(g1[kk]))]
    if bad or set(g1) != set(g2):
        kk = bad[0] if bad else sorted(set(g1) ^ set(g2))[0]
        o.violate("parameters", f"{what}:get_set_params_roundtrip_changes_value:" + kk.rstrip("0123456789"),
                  {"key": kk, "original": _f(g1.get(kk, np.nan)), "restored": _f(g2.get(kk, np.nan)), "n_keys": len(g1)})


def _matern(rng, d, spec, o):
    """Matern52 with parameters installed through the public setters; in half of the cases the kernel
    handed on is a second instance restored from the first one's get_params() (parameter transfer /
    checkpoint restore). Returns (kernel, installed ib (d,), installed c, ard)."""
    k, req = _matern_new(rng, d, spec)
    _matern_set(k, req, rng)
    ib, c = _matern_read(k, req, o)
    if bool(spec.get("roundtrip", rng.random() < 0.5)):
        G = _imports()
        k2 = G["Matern52"](dimension=d, ARD=req["ard"], has_covariance_scale=req["has_cs"])
        k2.collect_params().initialize()
        _call(o, "Matern52.set_params", k2.set_params, dict(k.get_params()))
        _same_params(o, k.get_params(), k2.get_params(), "Matern52")
        o.count("roundtrip:kernel")
        k = k2
    return k, ib, c, req["ard"]


# Independent references for the learning-curve kernels, derived from the generative model the class docstrings
# and Tiao et al. (2020, arXiv:2003.10865, appendix) describe, not from the code:
#     f(x, r) = h(x) (1 - delta e(r)) + gamma e(r),   h ~ GP(mu_x, k_x) independent of the random decay e,
#     E e(r) = kappa(r) = (beta / (r + beta))^alpha,  beta = alpha / mean_lam,   E e(r) e(r') = kappa(r + r')
# which gives  E f = mu + kappa(r) (gamma - delta mu)  and
#     Cov = k_x(x,x') [1 - delta (kappa(r) + kappa(r') - delta kappa(r+r'))]
#           + (gamma - delta mu(x)) (gamma - delta mu(x')) [kappa(r+r') - kappa(r) kappa(r')].
# Freeze-thaw (delta = 0, one independent decay per configuration):
#     Cov = k_x(x,x') + [x == x'] gamma^2 [kappa(r+r') - kappa(r) kappa(r')].
def ref_kappa(r, alpha, mean_lam):
    W = dg.WORK
    beta = W(alpha) / W(mean_lam)
    return np.power(beta / (np.asarray(r, dtype=W) + beta), W(alpha))


def ref_expdecay(X1, X2, kx_ref, mu, alpha, mean_lam, gamma, delta, off):
    W = dg.WORK
    r1, r2 = np.asarray(X1[:, -1], dtype=W).reshape(-1, 1), np.asarray(X2[:, -1], dtype=W).reshape(1, -1)
    k1, k2, k12 = ref_kappa(r1, alpha, mean_lam), ref_kappa(r2, alpha, mean_lam), ref_kappa(r1 + r2, alpha, mean_lam)
    de, ga, mu = W(delta), W(gamma), W(mu)
    pref = ga - de * mu  # constant config mean
    return kx_ref(X1[:, :-1], X2[:, :-1], off) * (W(1) - de * (k1 + k2 - de * k12)) + pref * pref * (k12 - k1 * k2)


def ref_expdecay_mean(X, mu, alpha, mean_lam, gamma, delta):
    W = dg.WORK
    return W(mu) + ref_kappa(np.asarray(X[:, -1], dtype=W), alpha, mean_lam) * (W(gamma) - W(delta) * W(mu))


def ref_freezethaw(X1, X2, kx_ref, alpha, mean_lam, gamma, off):
    W = dg.WORK
    r1, r2 = np.asarray(X1[:, -1], dtype=W).reshape(-1, 1), np.asarray(X2[:, -1], dtype=W).reshape(1, -1)
    k1, k2, k12 = ref_kappa(r1, alpha, mean_lam), ref_kappa(r2, alpha, mean_lam), ref_kappa(r1 + r2, alpha, mean_lam)
    same = np.all(X1[:, None, :-1] == X2[None, :, :-1], axis=2)
    return kx_ref(X1[:, :-1], X2[:, :-1], off) + same * (W(gamma) * W(gamma)) * (k12 - k1 * k2)


def _curve_params(rng):
    return {"alpha": _logu(rng, 1e-6 * 1.01, 250.0 * 0.99, corner=0.03),
            "mean_lam": _logu(rng, 1e-4 * 1.01, 50.0 * 0.99, corner=0.03),
            "gamma": _logu(rng, 1e-4 * 1.01, 1.0 * 0.99, corner=0.03)}


def _config_mean_value(rng):
    """mean value of the configuration mean function: mostly clearly non-zero (+-0.3..2), sometimes small / 0."""
    u = rng.random()
    if u < 0.7:
        return float(rng.choice([-1.0, 1.0]) * rng.uniform(0.3, 2.0))
    return 0.0 if u < 0.8 else float(rng.normal() * 0.3)


def _expdecay(rng, dx, spec, o):
    """ExponentialDecayResourcesKernelFunction over (x (dx), r). delta: free parameter, or fixed to 0, to 1 or to a
    value strictly inside (0, 1); non-zero configuration mean; alpha, mean_lam, gamma log-uniform in their boxes.
    Returns (kernel, ib, c, ard, kscale, info) with info = installed values + reference functions."""
    G = _imports()
    kx, ib, c, ard = _matern(rng, dx, spec, o)
    mx = G["ScalarMeanFunction"]()
    mx.collect_params().initialize()
    r = rng.random()
    if "delta_fixed" in spec:
        delta_fixed = spec["delta_fixed"]
    elif r < 0.25:
        delta_fixed = None
    elif r < 0.42:
        delta_fixed = 0.0
    elif r < 0.6:
        delta_fixed = 1.0
    else:
        delta_fixed = float(rng.uniform(0.05, 0.95))
    k = G["ExponentialDecayResourcesKernelFunction"](kx, mx, delta_fixed_value=delta_fixed)
    k.collect_params().initialize()
    pd = {kk: _f(v) for kk, v in k.get_params().items()}
    pd.update(_curve_params(rng))
    if delta_fixed is None:
        pd["delta"] = float(rng.choice([0.0, 1.0, rng.uniform(0, 1), rng.uniform(0, 1)]))
    pd["meanx_mean_value"] = float(spec.get("meanx", _config_mean_value(rng)))
    k.set_params(dict(pd))
    g = k.get_params()
    for kk in ("alpha", "mean_lam", "gamma", "delta", "meanx_mean_value"):
        if kk in pd:
            o.count("decided:param_readback")
            if not abs(_f(g[kk]) - pd[kk]) <= 1e-12 * abs(pd[kk]):
                o.violate("parameters", "set_params_value_not_taken:expdecay_" + kk, {"set": pd[kk], "get": _f(g[kk])})
    delta = pd["delta"] if delta_fixed is None else delta_fixed
    mu, al, ml, ga = pd["meanx_mean_value"], pd["alpha"], pd["mean_lam"], pd["gamma"]
    kscale = c * 4.0 + (abs(ga) + abs(mu)) ** 2
    kx_ref = lambda A1, A2, off: dg.matern52(A1, A2, ib, c, off)  # noqa: E731
    info = {
        "alpha": al, "mean_lam": ml, "gamma": ga, "delta": delta, "mu": mu,
        "delta_class": ("free" if delta_fixed is None else "fixed_0" if delta_fixed == 0.0 else "fixed_1" if delta_fixed == 1.0
                        else "fixed_interior"),
        "own": lambda A1, A2, off: ref_expdecay(A1, A2, kx_ref, mu, al, ml, ga, delta, off),
        "mean": lambda A: ref_expdecay_mean(A, mu, al, ml, ga, delta),
        "rf_extra": 8.0 * (1.0 + al),  # kappa = base^alpha: the rounding of the base is amplified by alpha
    }
    return k, ib, c, ard, kscale, info


def _leaf(rng, what, spec, o):
    """One factor of a composed kernel: dict(kernel, dim, kscale, jf, rfparts, nonstat, res_cols, ard, ard_dim, c,
    own = reference formula on the factor's own coordinates, rf_extra)."""
    G = _imports()
    if what == "matern":
        d = int(rng.integers(1, 4))
        k, ib, c, ard = _matern(rng, d, spec, o)
        return dict(kernel=k, dim=d, kscale=c, jf=1.0, rfparts=[(slice(0, d), ib)], nonstat=False, res_cols=[],
                    ard=ard, ard_dim=d if ard else 0, c=c, rf_extra=0.0,
                    own=lambda A1, A2, off: dg.matern52(A1, A2, ib, c, off))
    if what == "expdecay":
        dx = int(rng.integers(1, 4))
        k, ib, c, ard, kscale, info = _expdecay(rng, dx, spec, o)
        return dict(kernel=k, dim=dx + 1, kscale=kscale, jf=1.0, rfparts=[(slice(0, dx), ib)], nonstat=True,
                    res_cols=[dx], ard=ard, ard_dim=dx if ard else 0, c=c, rf_extra=info["rf_extra"], own=info["own"],
                    ed=info)
    if what == "freezethaw":
        dx = int(rng.integers(1, 4))
        kx, ib, c, ard = _matern(rng, dx, spec, o)
        mx = G["ScalarMeanFunction"]()
        mx.collect_params().initialize()
        k = G["FreezeThawKernelFunction"](kx, mx)
        k.collect_params().initialize()
        pd = {kk: _f(v) for kk, v in k.get_params().items()}
        pd.update(_curve_params(rng))
        pd["meanx_mean_value"] = _config_mean_value(rng)
        k.set_params(dict(pd))
        al, ml, ga = pd["alpha"], pd["mean_lam"], pd["gamma"]
        kx_ref = lambda A1, A2, off: dg.matern52(A1, A2, ib, c, off)  # noqa: E731
        return dict(kernel=k, dim=dx + 1, kscale=c + ga ** 2, jf=1.0, rfparts=[(slice(0, dx), ib)],
                    nonstat=True, res_cols=[dx], ard=ard, ard_dim=dx if ard else 0, c=c, rf_extra=8.0 * (1.0 + al),
                    own=lambda A1, A2, off: ref_freezethaw(A1, A2, kx_ref, al, ml, ga, off))
    if what == "fabolas":
        k = G["FabolasKernelFunction"]()
        k.collect_params().initialize()
        u1, u2, u3 = _logu(rng, 1e-3, 1e3), _logu(rng, 1e-3, 1e3), float(rng.normal())
        k.set_params({"u1": u1, "u2": u2, "u3": u3})

        def fab(A1, A2, off):  # docstring: k(x,y) = (U phi(x))^T (U phi(y)), phi = [1, (1-x)^2], U = [[u1,u3],[0,u2]]
            W = dg.WORK
            t1 = (W(1) - np.asarray(A1[:, :1], dtype=W)) ** 2
            t2 = ((W(1) - np.asarray(A2[:, :1], dtype=W)) ** 2).T
            return (W(u1) + W(u3) * t1) * (W(u1) + W(u3) * t2) + W(u2) * W(u2) * t1 * t2

        return dict(kernel=k, dim=1, kscale=(u1 + abs(u3)) ** 2 + u2 ** 2, jf=0.0, rfparts=[], nonstat=True, res_cols=[],
                    ard=False, ard_dim=0, c=u1, rf_extra=4.0, own=fab)
    raise ValueError(what)


def _build_composed(rng, spec, o, M):
    """Kernel trees: [warp(] prod(a, b) [)] or warp(leaf); the warping acts on the non-stationary factor's
    coordinates (sometimes on everything, sometimes on a random range)."""
    G = _imports()
    classes = _comp_classes()
    cls = spec.get("comp", classes[int(rng.integers(0, len(classes)))])
    warp = cls.startswith("warp(")
    inner = cls[5:-1] if warp else cls
    if inner.startswith("prod("):
        na, nb = inner[5:-1].split(",")
        A, B = _leaf(rng, na, spec, o), _leaf(rng, nb, spec, o)
        kernel = G["ProductKernelFunction"](A["kernel"], B["kernel"])
        dim = A["dim"] + B["dim"]
        off = A["dim"]
        rfparts = list(A["rfparts"]) + [(slice(sl.start + off, sl.stop + off), ib) for sl, ib in B["rfparts"]]
        res_cols = list(A["res_cols"]) + [c_ + off for c_ in B["res_cols"]]
        kscale, jf = A["kscale"] * B["kscale"], A["jf"] + B["jf"]
        own = (lambda oa, ob, off_: (lambda A1, A2, o_: oa(A1[:, :off_], A2[:, :off_], o_) * ob(A1[:, off_:], A2[:, off_:], o_)))(
            A["own"], B["own"], off)
        rf_extra = A["rf_extra"] + B["rf_extra"]
        blocks = [(0, A["dim"], A["nonstat"]), (off, dim, B["nonstat"])]
        ard, ard_dim, c_ne_1 = A["ard"] or B["ard"], max(A["ard_dim"], B["ard_dim"]), (A["c"] * B["c"] != 1.0)
    else:
        A = _leaf(rng, inner, spec, o)
        kernel, dim, rfparts, res_cols = A["kernel"], A["dim"], list(A["rfparts"]), list(A["res_cols"])
        kscale, jf = A["kscale"], A["jf"]
        own, rf_extra = A["own"], A["rf_extra"]
        blocks = [(0, dim, A["nonstat"])]
        ard, ard_dim, c_ne_1 = A["ard"], A["ard_dim"], (A["c"] != 1.0)
    M.d = dim
    M.wpars = None
    if warp:
        ns = [(lo, hi) for lo, hi, nonstat in blocks if nonstat]
        u = rng.random()
        if ns and u < 0.6:
            ranges = [ns[0]]  # exactly the non-stationary factor's coordinates
        elif u < 0.8 or dim == 1:
            ranges = [(0, dim)]
        else:
            lo = int(rng.integers(0, dim - 1))
            ranges = [(lo, int(rng.integers(lo + 1, dim + 1)))]
        kernel, M.code_warp, M.wpars = _wrap_warping(rng, kernel, dim, ranges, o)
        M.rf_input = M.code_warp
    if warp:  # the warp itself is checked separately: the inner reference is evaluated on the code's warped inputs
        own = (lambda f_, w_: (lambda A1, A2, o_: f_(w_(A1), w_(A2), o_)))(own, M.code_warp)
    M.kernel, M.kscale, M.jf, M.rfparts, M.own = kernel, kscale, max(jf, 1.0), rfparts, own
    M.own_name, M.diag_is_scale, M.rf_extra = "composed_kernel", False, rf_extra
    M.ed = A.get("ed") or (B.get("ed") if inner.startswith("prod(") else None)
    M.res_cols = res_cols
    M.comp = cls
    M.flags.update(ard=ard, c_ne_1=c_ne_1, ard_dim=ard_dim)
    M.pars = {"class": cls, "params": {kk: _f(v) for kk, v in kernel.get_params().items()}}
    # set_params(get_params()) on the composed kernel must route every value back to where it came from
    if rng.random() < 0.5:
        g1 = {kk: _f(v) for kk, v in kernel.get_params().items()}
        _call(o, "kernel.set_params", kernel.set_params, dict(g1))
        _same_params(o, g1, kernel.get_params(), "composed")
        o.count("roundtrip:composed")


def _wrap_warping(rng, kernel, dim, ranges, o):
    """WarpedKernel(kernel, [Warping(range) ...]) with non-identity powers installed through set_params.
    Returns (warped kernel, function applying the code's warpings, [(lo, hi, a, b)] installed values)."""
    G = _imports()
    warps, wpars = [], []
    for (lo, hi) in ranges:
        w = G["Warping"](dim, (lo, hi))
        w.collect_params().initialize()
        size = hi - lo
        a = [_logu(rng, 0.25, 4.0) for _ in range(size)]
        b = [_logu(rng, 0.25, 4.0) for _ in range(size)]
        one = size == 1
        pd = {}
        for i in range(size):
            pd["power_a" if one else f"power_a_{i}"] = a[i]
            pd["power_b" if one else f"power_b_{i}"] = b[i]
        w.set_params(pd)
        g = w.get_params()
        ga = np.array([_f(g["power_a" if one else f"power_a_{i}"]) for i in range(size)])
        gb = np.array([_f(g["power_b" if one else f"power_b_{i}"]) for i in range(size)])
        a, b = np.array(a), np.array(b)  # the reference uses the installed values
        o.count("decided:param_readback", 2 * size)
        if np.any(np.abs(ga - a) > 1e-12 * a) or np.any(np.abs(gb - b) > 1e-12 * b):
            o.violate("parameters", "set_params_value_not_taken:warping_power",
                      {"set_a": a.tolist(), "get_a": ga.tolist(), "set_b": b.tolist(), "get_b": gb.tolist()})
        warps.append(w)
        wpars.append((lo, hi, a, b))

    def code_warp(X):
        W = X
        for w in warps:
            W = np.asarray(w(W))
        return W

    return G["WarpedKernel"](kernel=kernel, warpings=warps), code_warp, wpars


def build_model(rng, spec, o):
    G = _imports()
    kind = spec["kind"]
    M = Model()
    M.kind = kind
    # encoded input dimension: 1..6, and (a quarter of the cases) 7..14 as produced by one-hot encoded
    # categoricals / many numeric hyperparameters
    d = int(spec.get("d", rng.integers(7, 15) if rng.random() < 0.25 else rng.integers(1, 7)))
    if kind in ("product", "expdecay", "range"):
        d = max(d, 2)
    M.d = d
    M.jf = 1.0  # number of regularised sqrt factors
    M.flags = {}
    M.gp = None
    if kind == "gpr":
        # everything goes through GaussianProcessRegression.set_params / get_params
        k, req = _matern_new(rng, d, spec)
        zero = bool(spec.get("zero_mean", rng.random() < 0.35))
        M.ysc = float(spec.get("ysc", _logu(rng, 1e-3, 1e3, corner=0.0)))
        mean = G["ZeroMeanFunction"]() if zero else G["ScalarMeanFunction"]()
        gp = _call(o, "GaussianProcessRegression", G["GaussianProcessRegression"], kernel=k, mean=mean)
        noise = float(spec.get("noise", _logu(rng, 1e-9, 1e6 if rng.random() < 0.5 else 1e-2, corner=0.06)))
        pd = {"kernel_" + kk: v for kk, v in req["pd"].items()}
        pd["noise_variance"] = noise
        if not zero:
            pd["mean_mean_value"] = float(spec.get("mean_value", rng.normal() * M.ysc * rng.choice([0.0, 1.0, 1.0, 30.0])))
        _call(o, "GaussianProcessRegression.set_params", gp.set_params, dict(pd))
        g = gp.get_params()
        for kk in ("noise_variance", "mean_mean_value"):
            if kk in pd:
                o.count("decided:param_readback")
                if not abs(_f(g[kk]) - pd[kk]) <= 1e-12 * abs(pd[kk]):
                    o.violate("parameters", "set_params_value_not_taken:gpr:" + kk, {"set": pd[kk], "get": _f(g[kk])})
        ib, c = _matern_read(k, req, o)
        ard = req["ard"]
        if bool(spec.get("roundtrip", rng.random() < 0.5)):
            # a second model restored from the first one's get_params()
            k2 = G["Matern52"](dimension=d, ARD=ard, has_covariance_scale=req["has_cs"])
            mean2 = G["ZeroMeanFunction"]() if zero else G["ScalarMeanFunction"]()
            gp2 = _call(o, "GaussianProcessRegression", G["GaussianProcessRegression"], kernel=k2, mean=mean2)
            _call(o, "GaussianProcessRegression.set_params", gp2.set_params, dict(gp.get_params()))
            _same_params(o, gp.get_params(), gp2.get_params(), "GaussianProcessRegression")
            o.count("roundtrip:gpr")
            gp, k, mean = gp2, k2, mean2
        M.gp, M.mean = gp, mean
        M.noise = noise  # installed values, not read back
        M.mean_kind = "zero" if zero else "scalar"
        if zero:
            M.mean_ref = lambda X: np.zeros(X.shape[0])
        else:
            M.mean_value = float(pd["mean_mean_value"])
            M.mean_ref = lambda X: np.ones(X.shape[0]) * M.mean_value
    if kind in ("matern", "gpr", "jitter"):
        M.jit_inbox = False
        if kind == "jitter" and "c" not in spec:
            # regime in which the Cholesky factorisation of K + sigma^2 I can fail: large covariance scale,
            # (near-)duplicate inputs. 40%: noise variance at the lower box bound (measured yield ~10%:
            # inverse bandwidths >= 1, near-duplicates); 60%: noise variance below the box.
            M.jit_inbox = bool(spec.get("jit_inbox", rng.random() < 0.4))
            spec = dict(spec, c=_logu(rng, 200.0 if M.jit_inbox else 30.0, 1e3, corner=0.15), has_cs=True)
            if M.jit_inbox:
                spec.setdefault("ib_lo", 1.0)
        if kind != "gpr":
            k, ib, c, ard = _matern(rng, d, spec, o)
        M.kernel, M.kscale = k, c
        M.own = lambda X1, X2, off: dg.matern52(X1, X2, ib, c, off)
        M.rfparts = [(slice(0, d), ib)]
        M.flags.update(ard=ard, c_ne_1=(c != 1.0), ard_dim=(d if ard else 0))
        M.pars = {"ib": ib.tolist(), "c": c}
    elif kind == "range":
        dk = int(rng.integers(1, d))
        start = int(rng.integers(0, d - dk + 1))
        k0, ib, c, ard = _matern(rng, dk, spec, o)
        M.kernel = G["RangeKernelFunction"](d, k0, start)
        M.kscale = c
        sl = slice(start, start + dk)
        M.own = lambda X1, X2, off: dg.matern52(X1[:, sl], X2[:, sl], ib, c, off)
        M.rfparts = [(sl, ib)]
        M.flags.update(ard=ard, c_ne_1=(c != 1.0), ard_dim=(dk if ard else 0))
        M.pars = {"ib": ib.tolist(), "c": c, "start": start, "dk": dk}
    elif kind == "product":
        d1 = int(rng.integers(1, d))
        k1, ib1, c1, ard1 = _matern(rng, d1, spec, o)
        k2, ib2, c2, ard2 = _matern(rng, d - d1, spec, o)
        M.kernel = G["ProductKernelFunction"](k1, k2)
        M.kscale = c1 * c2
        M.jf = 2.0
        s1, s2 = slice(0, d1), slice(d1, d)
        M.own = lambda X1, X2, off: dg.matern52(X1[:, s1], X2[:, s1], ib1, c1, off) * dg.matern52(
            X1[:, s2], X2[:, s2], ib2, c2, off)
        M.rfparts = [(s1, ib1), (s2, ib2)]
        M.flags.update(ard=ard1 or ard2, c_ne_1=(c1 * c2 != 1.0), ard_dim=max(d1 if ard1 else 0, (d - d1) if ard2 else 0))
        M.pars = {"ib1": ib1.tolist(), "c1": c1, "ib2": ib2.tolist(), "c2": c2}
    elif kind == "warped":
        k0, ib, c, ard = _matern(rng, d, spec, o)
        # one or two warpings on disjoint coordinate ranges
        cuts = sorted(set(int(x) for x in rng.integers(0, d + 1, size=int(rng.integers(2, 5)))))
        if len(cuts) < 2:
            cuts = [0, d]
        ranges = [(cuts[0], cuts[1])]
        if len(cuts) >= 4:
            ranges.append((cuts[2], cuts[3]))
        if rng.random() < 0.4:
            ranges = [(0, d)]
        warps, wpars = [], []
        for (lo, hi) in ranges:
            w = G["Warping"](d, (lo, hi))
            w.collect_params().initialize()
            size = hi - lo
            a = [_logu(rng, 0.25, 4.0) for _ in range(size)]
            b = [_logu(rng, 0.25, 4.0) for _ in range(size)]
            one = size == 1
            pd = {}
            for i in range(size):
                pd["power_a" if one else f"power_a_{i}"] = a[i]
                pd["power_b" if one else f"power_b_{i}"] = b[i]
            w.set_params(pd)
            g = w.get_params()
            ga = np.array([_f(g["power_a" if one else f"power_a_{i}"]) for i in range(size)])
            gb = np.array([_f(g["power_b" if one else f"power_b_{i}"]) for i in range(size)])
            a, b = np.array(a), np.array(b)  # the reference uses the installed values
            o.count("decided:param_readback", 2 * size)
            if np.any(np.abs(ga - a) > 1e-12 * a) or np.any(np.abs(gb - b) > 1e-12 * b):
                o.violate("parameters", "set_params_value_not_taken:warping_power",
                          {"set_a": a.tolist(), "get_a": ga.tolist(), "set_b": b.tolist(), "get_b": gb.tolist()})
            warps.append(w)
            wpars.append((lo, hi, a, b))
        M.kernel = G["WarpedKernel"](kernel=k0, warpings=warps)
        M.kscale = c
        M.warps, M.wpars = warps, wpars

        def code_warp(X):
            W = X
            for w in warps:
                W = np.asarray(w(W))
            return W

        M.code_warp = code_warp
        # the inner kernel is validated on the code's warped inputs; the warp itself separately
        M.own = lambda X1, X2, off: dg.matern52(code_warp(X1), code_warp(X2), ib, c, off)
        M.rfparts = [(slice(0, d), ib)]
        M.rf_input = code_warp
        M.flags.update(ard=ard, c_ne_1=(c != 1.0), ard_dim=(d if ard else 0))
        M.pars = {"ib": ib.tolist(), "c": c, "warp": [(lo, hi, a.tolist(), b.tolist()) for lo, hi, a, b in wpars]}
    elif kind == "expdecay":
        k, ib, c, ard, kscale, info = _expdecay(rng, d - 1, spec, o)
        M.kernel, M.kscale = k, kscale
        M.own, M.own_name, M.diag_is_scale, M.rf_extra, M.ed = info["own"], "expdecay_kernel", False, info["rf_extra"], info
        M.rfparts = [(slice(0, d - 1), ib)]
        M.flags.update(ard=ard, c_ne_1=(c != 1.0), ard_dim=((d - 1) if ard else 0))
        M.pars = dict({kk: _f(v) for kk, v in k.get_params().items()}, delta=info["delta"], delta_class=info["delta_class"])
    elif kind == "composed":
        _build_composed(rng, spec, o, M)
        d = M.d
    else:
        raise ValueError(kind)

    # ---- mean
    M.noise_below_box = False
    M.cs = 1.0
    M.tuple = False
    if kind == "gpr":
        return M
    if kind == "expdecay":
        M.mean = G["ExponentialDecayResourcesMeanFunction"](M.kernel)
        M.mean_kind = "expdecay"
        M.mean_ref = lambda X: np.asarray(M.mean(X), dtype=np.float64).reshape(-1)
    else:
        zero = bool(spec.get("zero_mean", rng.random() < 0.35))
        M.ysc = float(spec.get("ysc", _logu(rng, 1e-3, 1e3, corner=0.0)))
        if zero:
            M.mean = G["ZeroMeanFunction"]()
            M.mean_kind = "zero"
            M.mean_ref = lambda X: np.zeros(X.shape[0])
        else:
            mval = float(spec.get("mean_value", rng.normal() * M.ysc * rng.choice([0.0, 1.0, 1.0, 30.0])))
            M.mean = G["ScalarMeanFunction"]()
            M.mean.collect_params().initialize()
            M.mean.set_mean_value(mval)
            got = _f(M.mean.get_mean_value())
            o.count("decided:param_readback")
            if got != mval:
                o.violate("parameters", "set_params_value_not_taken:mean_value", {"set": mval, "get": got})
            M.mean_kind = "scalar"
            M.mean_value = mval
            M.mean_ref = lambda X: np.ones(X.shape[0]) * M.mean_value
    if kind == "expdecay":
        M.ysc = 1.0
    # ---- noise, tuple scale
    M.kscale_total = {"product": M.kscale, "expdecay": M.pars.get("kernelx_covariance_scale", 1.0) if kind == "expdecay" else 1.0}.get(
        kind, M.kscale)
    if kind == "jitter":
        r = rng.random()
        if M.jit_inbox:
            M.noise = float(rng.choice([1e-9, 1e-9, 1e-9, 2e-9]))
        elif r < 0.45:
            M.noise = 0.0
            M.noise_below_box = True
        else:
            M.noise = float(10 ** rng.uniform(-16, -11))
            M.noise_below_box = True
    else:
        M.noise = _logu(rng, 1e-9, 1e6, corner=0.06)
        if rng.random() < 0.5:
            M.noise = _logu(rng, 1e-9, 1e-2, corner=0.06)  # the regime BO actually lives in
    if "noise" in spec:
        M.noise = float(spec["noise"])
    if bool(spec.get("tuple", rng.random() < (0.7 if kind == "jitter" else 0.4))):
        M.tuple = True
        # the tuple scale has no box of its own: the total scale kernel-scale * tuple-scale is kept inside the
        # box of the covariance scale
        total = _logu(rng, 1e-3, 1e3) if kind != "jitter" else _logu(rng, 100.0, 1e3, corner=0.2)
        M.cs = float(spec.get("cs", total / M.kscale_total))
    return M


def gen_inputs(rng, spec, M):
    d = M.d
    r = rng.random()
    n = int(spec.get("n", rng.integers(1, 7) if r < 0.3 else rng.integers(1, 41)))
    if M.kind == "jitter" and "n" not in spec:
        n = int(rng.integers(10 if getattr(M, "jit_inbox", False) else 4, 41))
    nt = int(spec.get("nt", 1 if rng.random() < 0.15 else rng.integers(2, 13)))
    m = int(spec.get("m", 1 if rng.random() < 0.5 else rng.integers(2, 7)))
    grid = rng.random() < 0.25
    X = rng.integers(0, 5, size=(n, d)) / 4.0 if grid else rng.uniform(size=(n, d))
    onehot = []
    if d >= 7 and M.kind != "expdecay" and rng.random() < 0.6:
        # some coordinates are one-hot blocks of categorical hyperparameters
        pos = int(rng.integers(0, 3))
        while pos + 2 <= d and len(onehot) < 3:
            sz = int(rng.integers(2, 6))
            if pos + sz > d:
                break
            onehot.append((pos, sz))
            pos += sz + int(rng.integers(0, 3))
        for (pos, sz) in onehot:
            X[:, pos:pos + sz] = 0.0
            X[np.arange(n), pos + rng.integers(0, sz, size=n)] = 1.0
    p_dup = float(spec.get("p_dup", rng.choice([0.0, 0.0, 0.2, 0.6])))
    if M.kind == "jitter" and "p_dup" not in spec:
        p_dup = float(rng.choice([0.5, 0.8, 0.95]))
    p_exact = 0.75 if M.kind == "jitter" else 0.5
    near_lo, near_hi = -12, -3
    if getattr(M, "jit_inbox", False):
        p_exact, near_hi, p_dup = 0.1, -6, 0.8
    n_exact = n_near = 0
    for i in range(1, n):
        if rng.random() < p_dup:
            j = int(rng.integers(0, i))
            if rng.random() < p_exact:
                X[i] = X[j]
                n_exact += 1
            else:
                X[i] = np.clip(X[j] + 10 ** rng.uniform(near_lo, near_hi) * rng.normal(size=d), 0, 1)
                n_near += 1
    Xt = rng.uniform(size=(nt, d))
    for (pos, sz) in onehot:
        Xt[:, pos:pos + sz] = 0.0
        Xt[np.arange(nt), pos + rng.integers(0, sz, size=nt)] = 1.0
    M.onehot = onehot
    for t in range(nt):
        r = rng.random()
        if r < 0.15:
            Xt[t] = X[int(rng.integers(0, n))]
        elif r < 0.3:
            Xt[t] = np.clip(X[int(rng.integers(0, n))] + 10 ** rng.uniform(-10, -2) * rng.normal(size=d), 0, 1)
        elif r < 0.38 and t > 0:
            Xt[t] = Xt[int(rng.integers(0, t))]
        elif r < 0.45:
            Xt[t] = rng.integers(0, 2, size=d).astype(float)
    for col in ([-1] if M.kind == "expdecay" else getattr(M, "res_cols", [])):
        # resource attribute: mostly a small grid of levels (rows duplicated above keep their configuration
        # and get their own level)
        X[:, col] = rng.integers(0, 9, size=n) / 8.0 if rng.random() < 0.7 else rng.uniform(size=n)
        Xt[:, col] = rng.integers(0, 9, size=nt) / 8.0
    ysc = M.ysc
    base = M.mean_ref(X) if M.mean_kind == "scalar" else np.zeros(n)
    if rng.random() < 0.5:
        w = rng.normal(size=(d, m))
        Y = np.sin(3.0 * X @ w) * ysc + rng.normal(size=(n, m)) * ysc * 0.05
    else:
        Y = rng.normal(size=(n, m)) * ysc
    Y = Y + base.reshape(-1, 1)
    return X, Xt, Y, n, nt, m, n_exact, n_near


# ----------------------------------------------------------------------------------- stage K
def _rf(M, X1, X2):
    """round-off factor 1 + 5 (|ib*x_i|^2 + |ib*x_j|^2) of the squared-distance expansion."""
    f = getattr(M, "rf_input", None)
    W1, W2 = (f(X1), f(X2)) if f else (X1, X2)
    out = np.ones((X1.shape[0], X2.shape[0])) * (1.0 + getattr(M, "rf_extra", 0.0))
    for sl, ib in M.rfparts:
        a1 = np.sum((W1[:, sl] * ib) ** 2, axis=1)
        a2 = np.sum((W2[:, sl] * ib) ** 2, axis=1)
        out = out + 5.0 * (a1[:, None] + a2[None, :])
    return out


def lowsym(K):
    """The symmetric matrix a lower-triangle Cholesky (scipy potrf, lower=True) actually factorises."""
    K = np.asarray(K)
    return np.tril(K) + np.tril(K, -1).T


def _wit(D, band):
    r = np.abs(D) / band
    idx = np.unravel_index(int(np.nanargmax(np.where(np.isnan(r), np.inf, r))), r.shape)
    return {"index": [int(i) for i in idx], "diff": float(np.asarray(D)[idx]), "band": float(np.asarray(band)[idx]),
            "ratio": float(r[idx])}


def _exceeds(D, band):
    D = np.asarray(D, dtype=np.float64)
    return bool(np.any(~(np.abs(D) <= band)))


def stage_kernel(o, M, X, Xt, rng, do_mp):
    G = _imports()
    NJ = G["constants"].NUMERICAL_JITTER
    k = M.kernel
    n, nt = X.shape[0], Xt.shape[0]
    Kxx = np.asarray(_call(o, "kernel(X,X)", k, X, X), dtype=np.float64)
    Kxt = np.asarray(_call(o, "kernel(X,Xt)", k, X, Xt), dtype=np.float64)
    Ktx = np.asarray(_call(o, "kernel(Xt,X)", k, Xt, X), dtype=np.float64)
    Ktt = np.asarray(_call(o, "kernel(Xt,Xt)", k, Xt, Xt), dtype=np.float64)
    dX = np.asarray(_call(o, "kernel.diagonal", k.diagonal, X), dtype=np.float64).reshape(-1)
    dT = np.asarray(_call(o, "kernel.diagonal", k.diagonal, Xt), dtype=np.float64).reshape(-1)
    for nm, A, shp in (("Kxx", Kxx, (n, n)), ("Kxt", Kxt, (n, nt)), ("Ktx", Ktx, (nt, n)), ("Ktt", Ktt, (nt, nt)),
                       ("diagX", dX, (n,)), ("diagT", dT, (nt,))):
        if A.shape != shp or not np.all(np.isfinite(A)):
            o.violate("kernel", f"kernel:bad_shape_or_nonfinite:{nm}", {"shape": list(A.shape), "want": list(shp)})
            raise Raised("kernel")
    sc = M.kscale
    rxx, rxt, rtt = _rf(M, X, X), _rf(M, X, Xt), _rf(M, Xt, Xt)
    bxx, bxt, btt = (TOL["Ck"] * EPS * sc * r for r in (rxx, rxt, rtt))
    # symmetry
    o.count("decided:kernel_symmetry", 3)
    if _exceeds(Kxx - Kxx.T, bxx):
        o.violate("kernel", "kernel:gram_not_symmetric", _wit(Kxx - Kxx.T, bxx))
    if _exceeds(Ktt - Ktt.T, btt):
        o.violate("kernel", "kernel:gram_not_symmetric", _wit(Ktt - Ktt.T, btt))
    if _exceeds(Kxt - Ktx.T, bxt):
        o.violate("kernel", "kernel:cross_gram_not_transpose", _wit(Kxt - Ktx.T, bxt))
    # diag(K) == diagonal()  (documented sqrt regulariser => band 0.5*NJ*scale per factor)
    o.count("decided:kernel_diagonal", 2)
    jb = 0.5 * NJ * sc * M.jf * 1.02
    diag_ok = True
    comp = getattr(M, "comp", None)
    for nm, K_, d_, b_ in (("X", Kxx, dX, bxx), ("Xt", Ktt, dT, btt)):
        D = np.diag(K_) - d_
        band = jb + np.diag(b_)
        if _exceeds(D, band):
            diag_ok = False
            o.violate("kernel", "kernel:diag_differs_from_diagonal()" + (":fabolas_factor" if comp and "fabolas" in comp else ""),
                      dict(_wit(D, band), which=nm, kernel=comp or M.kind))
    # diagonal_depends_on_X() == False promises an input-independent diagonal (WarpedKernel.diagonal relies on
    # it to skip the warping): diagonal() at X, at X* and at fresh points, and the Gram diagonals, must agree
    flag = _call(o, "kernel.diagonal_depends_on_X", k.diagonal_depends_on_X)
    o.count("decided:diagonal_flag")
    o.count("diagonal_flag:" + str(bool(flag)))
    if not flag:
        Xf = rng.uniform(size=(6, X.shape[1]))
        Xf[0], Xf[1] = 0.0, 1.0
        dF = np.asarray(_call(o, "kernel.diagonal", k.diagonal, Xf), dtype=np.float64).reshape(-1)
        gF = np.diag(np.asarray(_call(o, "kernel(X,X)", k, Xf, Xf), dtype=np.float64))
        alld = np.concatenate([dX, dT, dF])
        allg = np.concatenate([np.diag(Kxx), np.diag(Ktt), gF])
        rb = TOL["Ck"] * EPS * sc * float(np.max(_rf(M, Xf, Xf)))
        spread_d = float(np.max(alld) - np.min(alld))
        spread_g = float(np.max(allg) - np.min(allg))
        if spread_d > 8 * EPS * sc or spread_g > 2 * (jb + float(np.max(np.diag(bxx))) + float(np.max(np.diag(btt))) + rb):
            diag_ok = False
            o.violate("kernel", "kernel:diagonal_depends_on_X_false_but_diagonal_varies",
                      {"kernel": comp or M.kind, "spread_of_diagonal()": spread_d, "spread_of_gram_diagonal": spread_g,
                       "scale": sc})
    # single pair calls
    pairs = [(int(rng.integers(0, n)), int(rng.integers(0, nt))) for _ in range(min(8, n * nt))]
    for (i, j) in pairs:
        v = _f(_call(o, "kernel(x_i,x_j)", k, X[i:i + 1], Xt[j:j + 1]))
        o.count("decided:kernel_pairwise")
        if not abs(v - Kxt[i, j]) <= bxt[i, j]:
            o.violate("kernel", "kernel:pair_value_differs_from_gram_entry",
                      {"i": i, "j": j, "pair": v, "gram": float(Kxt[i, j]), "band": float(bxt[i, j])})
    for _ in range(min(4, n)):
        i, j = int(rng.integers(0, n)), int(rng.integers(0, n))
        v = _f(_call(o, "kernel(x_i,x_j)", k, X[i:i + 1], X[j:j + 1]))
        o.count("decided:kernel_pairwise")
        if not abs(v - Kxx[i, j]) <= bxx[i, j]:
            o.violate("kernel", "kernel:pair_value_differs_from_gram_entry",
                      {"i": i, "j": j, "pair": v, "gram": float(Kxx[i, j]), "band": float(bxx[i, j]), "XX": True})
    # own textbook formula
    own_name = getattr(M, "own_name", "matern52")
    if M.own is not None:
        for nm, K_, A1, A2, b_ in (("Kxx", Kxx, X, X, bxx), ("Kxt", Kxt, X, Xt, bxt), ("Ktt", Ktt, Xt, Xt, btt)):
            ref_reg = np.asarray(M.own(A1, A2, NJ), dtype=np.float64)
            ref_txt = np.asarray(M.own(A1, A2, 0.0), dtype=np.float64)
            o.count("decided:kernel_textbook")
            bad = False
            if _exceeds(K_ - ref_txt, jb + b_):
                o.violate("kernel", "kernel:entry_differs_from_textbook_" + own_name,
                          dict(_wit(K_ - ref_txt, jb + b_), which=nm, pars=M.pars))
                bad = True
            if not bad and _exceeds(K_ - ref_reg, b_):
                o.violate("kernel", "kernel:entry_differs_from_regularised_" + own_name,
                          dict(_wit(K_ - ref_reg, b_), which=nm, pars=M.pars))
            else:
                if np.max(np.abs(K_ - ref_reg) / b_) > 0.25:
                    o.count("near_tol:kernel")
        o.count("decided:kernel_prior_variance")
        if getattr(M, "diag_is_scale", True):
            dref = sc * np.ones(n)
            if _exceeds(dX - dref, 4 * EPS * sc) or _exceeds(dT - sc, 4 * EPS * sc):
                o.violate("kernel", "kernel:diagonal()_differs_from_covariance_scale",
                          {"diag": float(dX[0]), "scale": sc})
        else:
            # input-dependent prior variance: diagonal() against the reference k(x, x) (textbook k_x(x,x) = scale)
            for nm, d_, A_, b_ in (("X", dX, X, bxx), ("Xt", dT, Xt, btt)):
                dref = np.float64(np.diag(np.asarray(M.own(A_, A_, 0.0))))
                if _exceeds(d_ - dref, jb + np.diag(b_)):
                    o.violate("kernel", "kernel:diagonal()_differs_from_reference_" + own_name,
                              dict(_wit(d_ - dref, jb + np.diag(b_)), which=nm, pars=M.pars))
    if getattr(M, "wpars", None):
        W = M.code_warp(Xt)
        Wref = np.array(Xt, dtype=dg.WORK)
        bandw = np.zeros(Xt.shape)
        for (lo, hi, a, b) in M.wpars:
            xs = Xt[:, lo:hi]
            Wref[:, lo:hi] = dg.kumaraswamy(xs, a, b, NJ)
            # conditioning of the warp w.r.t. round-off in its inner expressions
            r_ = NJ + (1 - 2 * NJ) * xs
            u = 1.0 - r_ ** a
            amp = b * np.maximum(u, 1e-300) ** (b - 1.0) * (1.0 + a)  # d warp / d u, scaled
            bandw[:, lo:hi] = 32 * EPS * (1.0 + amp)
        bandw = np.maximum(bandw, 4 * EPS)
        o.count("decided:warp_transform")
        Dw = np.asarray(W, dtype=dg.WORK) - Wref
        if _exceeds(np.float64(Dw), bandw):
            o.violate("kernel", "warping:differs_from_kumaraswamy", dict(_wit(np.float64(Dw), bandw), pars=M.pars))
    if do_mp and M.kind in ("matern", "gpr", "jitter") and n <= 5:
        ib, c = np.array(M.pars["ib"]), M.pars["c"]
        Kmp = dg.mp_matern52(X, Xt[:3], ib, c, NJ)
        Kld = np.asarray(dg.matern52(X, Xt[:3], ib, c, NJ), dtype=np.float64)
        if np.any(np.abs(Kld - Kmp) > 4 * EPS * c):
            o.inconclusive("refmodel_kernel_disagrees_with_mpmath")
        else:
            o.count("decided:mpmath_kernel")
            D = Kxt[:, :3] - Kmp
            if _exceeds(D, bxt[:, :3]):
                o.violate("kernel", "kernel:entry_differs_from_mpmath_matern52", _wit(D, bxt[:, :3]))
    return {"Kxx": Kxx, "Kxt": Kxt, "Ktt": Ktt, "dX": dX, "dT": dT, "bxx": bxx, "bxt": bxt, "btt": btt, "diag_ok": diag_ok}


# ----------------------------------------------------------------------------------- stage J
def stage_chol(o, tag, L, Kc64, sigma2, spherical, n_base=None, base_s=None):
    """Monitor E = L L^T - K. Returns (exact diagonal shift D or None, info).
    Kc64 is the matrix of kernel values the state was built from (obtained with the same kernel calls the
    state makes): the Gram matrix for a state computed from scratch; for an incrementally extended state
    the base Gram matrix bordered by the columns k(X_old, x_new) and the entries diagonal()(x_new)."""
    G = _imports()
    n = Kc64.shape[0]
    info = {"jitter": "none"}
    L = np.asarray(L, dtype=np.float64)
    if L.shape != (n, n) or not np.all(np.isfinite(L)):
        o.violate("jitter", f"chol_fact:bad_shape_or_nonfinite:{tag}", {"shape": list(L.shape), "n": n})
        return None, info
    Lw = L.astype(dg.WORK)
    Gm = Lw @ Lw.T
    E = Gm - lowsym(Kc64).astype(dg.WORK)
    gd = np.float64(np.diag(Gm))
    band = TOL["Cchol"] * (n + 2) * EPS * np.sqrt(np.outer(gd, gd))
    Eo = np.float64(E - np.diag(np.diag(E)))
    o.count("decided:jitter_structure")
    if _exceeds(Eo, band):
        o.violate("jitter", f"jitter:offdiagonal_of_system_matrix_changed:{tag}", _wit(Eo, band))
        return None, info
    dvec = np.float64(np.diag(E))
    bd = np.diag(band)
    if spherical:
        ibest = int(np.argmin(bd))  # the best resolved entry defines s
        s = float(dvec[ibest])
        if _exceeds(dvec - s, bd + bd[ibest]):
            o.violate("jitter", f"jitter:diagonal_shift_not_constant:{tag}", _wit(dvec - s, bd + bd[ibest]))
            return None, info
        slack = 2 * float(bd[ibest])
        if s < sigma2 - slack:
            o.violate("jitter", f"jitter:s_below_noise_variance:{tag}", {"s": s, "sigma2": sigma2, "band": slack})
            return None, info
        if s - sigma2 <= slack:
            return np.ones(n) * sigma2, info
        # jitter was added: must be in the documented sequence, and minimal
        j0 = 1e-9 * max(float(np.mean(np.diag(Kc64))), 1.0)
        cands, j = [], j0
        for _ in range(14):  # the documented trial values, formed as the code forms them
            cands.append(sigma2 + j)
            j = j * 10.0
        diffs = [abs(s - c_) for c_ in cands]
        kbest = int(np.argmin(diffs))
        o.count("decided:jitter_sequence")
        if diffs[kbest] > slack + 1e-9 * cands[kbest]:
            o.violate("jitter", f"jitter:not_in_documented_sequence:{tag}",
                      {"s": s, "sigma2": sigma2, "initial_jitter": j0, "nearest": cands[kbest], "band": slack})
            return None, info
        prev = sigma2 if kbest == 0 else cands[kbest - 1]
        try:
            G["spl"].cholesky(Kc64 + np.diag(np.ones((n,)) * prev), lower=True)
            o.violate("jitter", f"jitter:not_minimal:{tag}", {"s": s, "previous_trial_value_works": prev})
        except G["spl"].LinAlgError:
            pass
        o.count("decided:jitter_minimal")
        info["jitter"] = "step%d" % min(kbest, 3)
        info["k"] = kbest
        return np.ones(n) * cands[kbest], info
    # incrementally extended factor: diagonal, old part == base_s, new entries sigma2 unless clamp
    D = np.zeros(n)
    MINC = G["constants"].MIN_CHOLESKY_DIAGONAL_VALUE
    for i in range(n):
        if i < n_base:
            if abs(dvec[i] - base_s) > 2 * bd[i]:
                o.violate("jitter", f"jitter:base_diagonal_changed_by_update:{tag}",
                          {"i": i, "d": float(dvec[i]), "base_s": base_s, "band": float(bd[i])})
                return None, info
            D[i] = base_s
        else:
            clamp = L[i, i] <= MINC * (1 + 1e-6)
            want = sigma2
            if dvec[i] < want - bd[i]:
                o.violate("jitter", f"jitter:new_diagonal_below_noise_variance:{tag}",
                          {"i": i, "d": float(dvec[i]), "sigma2": sigma2, "band": float(bd[i])})
                return None, info
            if dvec[i] - want > bd[i]:
                if not clamp:
                    o.violate("jitter", f"jitter:new_diagonal_above_noise_variance_without_clamp:{tag}",
                              {"i": i, "d": float(dvec[i]), "sigma2": sigma2, "band": float(bd[i]),
                               "L_ii": float(L[i, i])})
                    return None, info
                info["jitter"] = "clamp"
                D[i] = float(dvec[i])
            else:
                D[i] = want
    return D, info


# ----------------------------------------------------------------------------------- stage P
class Dense:
    """Dense reference for one state: A = K + diag(D), residuals R (float64, formed as the code forms them)."""

    def __init__(self, K64, D, R64):
        self.n = K64.shape[0]
        self.A64 = lowsym(K64) + np.diag(D)
        self.cond = dg.cond2(self.A64)
        self.rel = TOL["C"] * EPS * self.cond
        self.R64 = R64
        self.post = dg.Posterior(self.A64, R64)
        self.ok = self.post.ok
        self.trust = self.ok and self.rel <= TOL["cap"]

    def predict(self, Kxs_c, kss_c, mstar, Ktt_c=None):
        return self.post.predict(Kxs_c, kss_c, mstar, Ktt_c)

    def first_order(self, Kxs_c, dA, dKxs):
        """|change| of means (nt, m) and variances (nt,) if A / K* are perturbed entrywise by <= dA / dKxs."""
        beta = np.abs(np.float64(dg.solve_upper_t(self.post.L, dg.solve_lower(self.post.L, Kxs_c))))  # |A^-1 K*|
        aa = np.abs(np.float64(self.post.alpha))
        pm = beta.T @ dA @ aa + dKxs.T @ aa
        pv = np.sum(beta * (dA @ beta), axis=0) + 2.0 * np.sum(beta * dKxs, axis=0)
        return pm, pv


def _sqq(q, dense):
    """sqrt(q_i quad_j) formed in the reference's precision (q_i may underflow in float64)."""
    return np.float64(np.sqrt(np.outer(np.asarray(q, dtype=dg.WORK), dense.post.quad)))


def check_predict(o, tag, mu, var, dense, Kxs_c, kss_c, mstar, m, floor, extra=None):
    """mu (nt, m), var (nt,) from the code vs the dense reference. Returns (ref means, ref var) or None."""
    nt = Kxs_c.shape[1]
    mu = np.asarray(mu, dtype=np.float64)
    var = np.asarray(var, dtype=np.float64)
    if mu.shape != (nt, m) or var.shape != (nt,):
        o.violate("predict", f"predict:bad_output_shape:{tag}",
                  {"means": list(mu.shape), "variances": list(var.shape), "want": [nt, m]})
        return None
    o.count("decided:variance_bounds")
    if not np.all(np.isfinite(mu)) or not np.all(np.isfinite(var)):
        if (extra or {}).get("noise_below_box"):
            o.inconclusive("nonfinite_output_with_noise_below_box")
        else:
            o.violate("variance_bounds", f"predict:nonfinite_output:{tag}", {"cond": dense.cond})
        return None
    if np.any(var < floor):
        i = int(np.argmin(var))
        o.violate("variance_bounds", f"predict:variance_below_floor:{tag}", {"i": i, "var": float(var[i]), "floor": floor})
    if not dense.trust:
        return None
    rm, rv, q, _ = dense.predict(Kxs_c, kss_c, mstar)
    rm64, rv64, q64 = np.float64(rm), np.float64(rv), np.float64(q)
    quad = np.float64(dense.post.quad)
    tol_m = dense.rel * _sqq(q, dense) + TOL["Ca"] * EPS * (np.abs(mstar).reshape(-1, 1) + np.abs(rm64))
    tol_v = dense.rel * q64 + TOL["Ca"] * EPS * np.abs(kss_c)
    o.count("decided:predict_mean")
    D = mu - rm64
    if _exceeds(D, tol_m):
        w = _wit(D, tol_m)
        col = w["index"][1]
        mech = f"predict:mean_differs_from_dense:{tag}"
        if m > 1:
            # does the whole column equal the reference for another (different) target column? => columns mixed
            others = [j for j in range(m) if j != col and np.all(np.abs(mu[:, col] - rm64[:, j]) <= tol_m[:, j])
                      and np.any(np.abs(rm64[:, col] - rm64[:, j]) > tol_m[:, j] + tol_m[:, col])]
            if others:
                mech = f"predict:fantasy_column_matches_other_target_column:{tag}"
        o.violate("predict_mean", mech, dict(w, cond=dense.cond, code=float(mu[tuple(w["index"])]),
                                              ref=float(rm64[tuple(w["index"])]), **(extra or {})))
    elif np.max(np.abs(D) / tol_m) > 0.25:
        o.count("near_tol:mean")
    if m > 1:
        o.count("decided:fantasy_columns")
    o.count("decided:predict_variance")
    rvc = np.maximum(rv64, floor)
    D = var - rvc
    if _exceeds(D, tol_v):
        w = _wit(D, tol_v)
        o.violate("predict_variance", f"predict:variance_differs_from_dense:{tag}",
                  dict(w, cond=dense.cond, code=float(var[w["index"][0]]), ref=float(rvc[w["index"][0]]),
                       prior=float(kss_c[w["index"][0]]), **(extra or {})))
    elif np.max(np.abs(D) / tol_v) > 0.25:
        o.count("near_tol:variance")
    over = var - (np.maximum(kss_c, floor) + tol_v)  # a prior variance below the floor is reported as the floor
    if np.any(over > 0):
        i = int(np.argmax(over))
        o.violate("variance_bounds", f"predict:variance_above_prior_variance:{tag}",
                  {"i": i, "var": float(var[i]), "prior": float(kss_c[i]), "tol": float(tol_v[i])})
    return rm64, rv64, tol_m, tol_v, q64


def check_nlml(o, tag, val, dense):
    if not dense.trust:
        return
    v = np.asarray(val, dtype=np.float64).reshape(-1)
    if v.size != 1 or not np.isfinite(v[0]):
        o.violate("nlml", f"nlml:bad_value:{tag}", {"value": repr(val)[:100]})
        return
    ref = dense.post.nlml()
    r = float(ref[0])
    n = dense.n
    quad = float(dense.post.quad[0])
    slog = float(np.sum(np.abs(np.log(np.float64(np.diag(dense.post.L))))))
    tol = dense.rel * (quad + n) + TOL["Ca"] * EPS * (abs(r) + 2 * slog + n + quad)
    o.count("decided:nlml")
    if not abs(v[0] - r) <= tol:
        o.violate("nlml", f"nlml:differs_from_dense:{tag}",
                  {"code": float(v[0]), "ref": r, "tol": tol, "cond": dense.cond, "quad_term": 0.5 * quad,
                   "logdet_term": 0.5 * float(dense.post.logdet), "n": n})
    elif abs(v[0] - r) > 0.25 * tol:
        o.count("near_tol:nlml")


def check_joint(o, tag, state, Xt, dense, Kxs_c, Ktt_c, mstar, m):
    """Scripted unit-vector draws: samples - mean = columns of the factor F of the joint covariance
    (the test Gram matrix is symmetric only up to round-off and the code's Cholesky reads the lower
    triangle: the reference takes the same triangle)."""
    nt = Xt.shape[0]
    ns = nt + 1
    arrays = []
    for k in range(ns):
        Z = np.zeros((nt, m, 1))
        if k < nt:
            for j in range(m):
                Z[(k + j) % nt, j, 0] = 1.0
        arrays.append(Z)
    rs = ScriptedNormal(arrays)
    S = np.asarray(_call(o, "sample_joint", state.sample_joint, Xt, num_samples=ns, random_state=rs,
                         _trusted=dense.trust), dtype=np.float64)
    if rs.bad or rs.arrays:
        o.inconclusive("scripted_random_state_not_consumed_as_expected")
        return
    want = (nt, ns) if m == 1 else (nt, m, ns)
    if S.shape != want or not np.all(np.isfinite(S)):
        o.violate("joint", f"sample_joint:bad_output_shape_or_nonfinite:{tag}", {"shape": list(S.shape), "want": list(want)})
        return
    S = S.reshape(nt, m, ns)
    if not dense.trust:
        return
    Ktt_c = lowsym(Ktt_c)
    rm, rv, q, cov = dense.predict(Kxs_c, np.diag(Ktt_c), mstar, Ktt_c)
    rm64, q64, cov64 = np.float64(rm), np.float64(q), np.float64(cov)
    quad = np.float64(dense.post.quad)
    mean_s = S[:, :, nt]
    tol_m = dense.rel * _sqq(q, dense) + TOL["Ca"] * EPS * (np.abs(mstar).reshape(-1, 1) + np.abs(rm64))
    o.count("decided:joint_mean")
    if _exceeds(mean_s - rm64, tol_m):
        o.violate("joint", f"sample_joint:mean_differs_from_dense:{tag}", dict(_wit(mean_s - rm64, tol_m), cond=dense.cond))
        return
    kd = np.abs(np.diag(Ktt_c))
    offs, res_list, tolmax = [], [], 0.0
    for j in range(m):
        F = np.zeros((nt, nt))
        for k in range(nt):
            F[:, (k + j) % nt] = S[:, j, k] - mean_s[:, j]
        Fw = F.astype(dg.WORK)
        Gm = np.float64(Fw @ Fw.T)
        gd = np.diag(Gm)
        # rounding of (column + mean) - mean
        # rounding of (column + mean) - mean: dF_a per entry of row a of F
        sg = np.sqrt(np.maximum(np.maximum(gd, np.diag(cov64)), 0))
        dF = 4 * EPS * (np.abs(mean_s[:, j]) + sg)
        if np.max(dF) > 1e-3 * np.min(sg):
            o.inconclusive("joint_samples_unresolvable_mean_dominates")
            return
        rnd = math.sqrt(nt) * np.outer(dF, sg) + 0.5 * nt * np.outer(dF, dF)
        tol = (dense.rel * np.sqrt(np.outer(q64, q64)) + TOL["Ca"] * EPS * np.sqrt(np.outer(kd, kd))
               + TOL["Cchol"] * (nt + 2) * EPS * np.sqrt(np.outer(gd, gd)) + rnd + rnd.T)
        E = Gm - cov64
        Eo = E - np.diag(np.diag(E))
        o.count("decided:joint_covariance")
        if _exceeds(Eo, tol):
            o.violate("joint", f"sample_joint:covariance_offdiagonal_differs_from_dense:{tag}",
                      dict(_wit(Eo, tol), cond=dense.cond, column=j))
            return
        dv = np.diag(E)
        td = np.diag(tol)
        ibest = int(np.argmin(td))  # the best resolved entry defines the offset
        sj = float(dv[ibest])
        if _exceeds(dv - sj, td + td[ibest]):
            o.violate("joint", f"sample_joint:variance_offset_not_constant:{tag}",
                      dict(_wit(dv - sj, td + td[ibest]), cond=dense.cond, column=j, offset=sj))
            return
        if sj < -float(td[ibest]):
            o.violate("joint", f"sample_joint:sample_variance_below_posterior_variance:{tag}", {"offset": sj, "column": j})
            return
        offs.append(sj)
        res_list.append(float(td[ibest]))
        tolmax = max(tolmax, float(np.max(tol)))
    if offs:
        sj = offs[0]
        res = float(min(res_list))
        pv = float(np.min(np.abs(np.diag(Ktt_c))))
        if not res < 1e-7:
            o.count("joint_offset:not_resolved_to_1e-7")
            return
        # Is a diagonal shift needed at all? Only if the posterior covariance is not numerically positive
        # definite. lam = smallest eigenvalue of the reference covariance, tolmax = its uncertainty.
        lam = float(np.linalg.eigvalsh(0.5 * (cov64 + cov64.T))[0])
        needed = not lam > tolmax
        o.count("decided:joint_offset")
        if sj <= res:
            o.count("joint_offset:none")
        elif needed:
            o.count("joint_offset:posterior_covariance_numerically_singular")
        elif abs(sj - 1e-5) <= 2e-7 + res:
            # the samples' covariance is S* + 1e-5 I although S* itself can be factorised: not round-off
            o.count("joint_offset:1e-5")
            if sj > 1e-3 * pv:
                o.count("joint_offset:1e-5_exceeds_0.1pct_of_prior_variance")
            if JOINT_INITIAL_JITTER_IS_FINDING:
                o.violate("joint", "sample_joint:variance_inflated_by_fixed_initial_jitter_1e-5",
                          {"offset": sj, "resolution": res, "min_eig_posterior_cov": lam, "min_prior_variance": pv,
                           "relative_to_prior_variance": sj / pv, "cond": dense.cond, "n_test": nt})
        else:
            o.violate("joint", "sample_joint:variance_offset_unexplained",
                      {"offset": sj, "resolution": res, "min_eig_posterior_cov": lam, "cond": dense.cond})


def check_mp(o, tag, mu, var, nl, dense, Kxs_c, kss_c, mstar, m, floor):
    """n <= 6: the same comparison against mpmath (50 digits), and the reference against mpmath."""
    if not dense.trust:
        return
    ex = dg.mp_posterior(dense.A64, dense.R64, Kxs_c, kss_c, mstar)
    rm, rv, q, _ = dense.predict(Kxs_c, kss_c, mstar)
    q64, quad = np.float64(q), np.float64(dense.post.quad)
    tol_m = dense.rel * _sqq(q, dense) + TOL["Ca"] * EPS * (np.abs(mstar).reshape(-1, 1) + np.abs(ex["means"]))
    tol_v = dense.rel * q64 + TOL["Ca"] * EPS * np.abs(kss_c)
    tol_m0, tol_v0 = tol_m, tol_v
    if (np.any(np.abs(np.float64(rm) - ex["means"]) > 0.05 * tol_m0) or np.any(np.abs(np.float64(rv) - ex["var"]) > 0.05 * tol_v0)):
        o.inconclusive("refmodel_posterior_disagrees_with_mpmath")
        return
    o.count("decided:mpmath_posterior")
    if _exceeds(np.asarray(mu) - ex["means"], tol_m):
        o.violate("predict_mean", f"predict:mean_differs_from_mpmath:{tag}", dict(_wit(np.asarray(mu) - ex["means"], tol_m), cond=dense.cond))
    D = np.asarray(var) - np.maximum(ex["var"], floor)
    if _exceeds(D, tol_v):
        o.violate("predict_variance", f"predict:variance_differs_from_mpmath:{tag}", dict(_wit(D, tol_v), cond=dense.cond))
    if nl is not None and m == 1:
        n = dense.n
        quadf = float(quad[0])
        slog = float(np.sum(np.abs(np.log(np.float64(np.diag(dense.post.L))))))
        tol = dense.rel * (quadf + n) + TOL["Ca"] * EPS * (abs(ex["nlml"][0]) + 2 * slog + n + quadf)
        if abs(float(dense.post.nlml()[0]) - ex["nlml"][0]) > 0.05 * tol + 2 * EPS * abs(ex["nlml"][0]):
            o.inconclusive("refmodel_nlml_disagrees_with_mpmath")
            return
        o.count("decided:mpmath_nlml")
        if not abs(_f(nl) - ex["nlml"][0]) <= tol:
            o.violate("nlml", f"nlml:differs_from_mpmath:{tag}", {"code": _f(nl), "mp": float(ex["nlml"][0]), "tol": tol})


# ----------------------------------------------------------------------------------- the case
# ----------------------------------------------------------------------------------- MCMC surrogate
def check_sample_marginals(o, tag, state, Xt, dense, Kxs_c, kss_c, mstar, m, floor, rng):
    """Scripted draws z: sample_marginals must return mean + z*std of the state's own posterior."""
    nt = Xt.shape[0]
    ns = int(rng.integers(1, 4))
    zs = [rng.normal(size=(nt, m, 1)) for _ in range(ns)]
    rs = ScriptedNormal([z.copy() for z in zs])
    S = np.asarray(_call(o, "sample_marginals", state.sample_marginals, Xt, num_samples=ns, random_state=rs,
                         _trusted=dense.trust), dtype=np.float64)
    if rs.bad or rs.arrays:
        o.inconclusive("scripted_random_state_not_consumed_as_expected")
        return
    want = (nt, ns) if m == 1 else (nt, m, ns)
    if S.shape != want:
        o.violate("sample_marginals", f"sample_marginals:bad_output_shape:{tag}", {"shape": list(S.shape), "want": list(want)})
        return
    if not dense.trust:
        return
    S = S.reshape(nt, m, ns)
    rm, rv, q, _ = dense.predict(Kxs_c, kss_c, mstar)
    rm64, rv64, q64 = np.float64(rm), np.float64(rv), np.float64(q)
    std = np.sqrt(np.maximum(rv64, floor))
    tol_m = dense.rel * _sqq(q, dense) + TOL["Ca"] * EPS * (np.abs(mstar).reshape(-1, 1) + np.abs(rm64))
    tol_v = dense.rel * q64 + TOL["Ca"] * EPS * np.abs(kss_c)
    o.count("decided:sample_marginals")
    for k_, z in enumerate(zs):
        exp_s = rm64 + z[:, :, 0] * std.reshape(-1, 1)
        tol = tol_m + np.abs(z[:, :, 0]) * (tol_v / (2 * std) + 4 * EPS * std).reshape(-1, 1)
        if _exceeds(S[:, :, k_] - exp_s, tol):
            o.violate("sample_marginals", f"sample_marginals:differs_from_mean_plus_z_std:{tag}",
                      dict(_wit(S[:, :, k_] - exp_s, tol), cond=dense.cond, sample=k_))
            return


def _state_vs_dense(o, state, ib, c, noise, mval, d, X, Xt, Y, rng, tag, floor, counted, extra, kind):
    """One GaussProcPosteriorState of a model against the dense posterior of (X, Y) for a Matern-5/2 kernel with
    inverse bandwidths ib, covariance scale c, noise variance noise and constant mean mval: the state must hold
    the data, its kernel object must be that kernel (stage K), its factor that of K + s I (stage J), and
    predict / nlml / sample_marginals / sample_joint follow (stage P). Returns (dense, KS, mstar) or None."""
    F = np.asarray(state.features)
    o.count("decided:state_holds_data_passed")
    if F.shape != X.shape or not np.array_equal(F, X):
        o.violate("model_states", f"{kind}:state_holds_other_data_than_passed:{tag}",
                  {"state_features_shape": list(F.shape), "data_shape": list(X.shape), **extra})
        return None
    Ms = Model()
    Ms.kind, Ms.d, Ms.kernel, Ms.kscale, Ms.jf = kind, d, state.kernel, c, 1.0
    Ms.own = (lambda ib_, c_: (lambda X1, X2, off: dg.matern52(X1, X2, ib_, c_, off)))(ib, c)
    Ms.rfparts = [(slice(0, d), ib)]
    Ms.pars = dict({"ib": np.asarray(ib).tolist(), "c": c, "phase": tag}, **extra)
    KS = stage_kernel(o, Ms, X, Xt, rng, False)
    if not KS["diag_ok"]:
        return None
    D, info = stage_chol(o, tag, state.chol_fact, KS["Kxx"], noise, True)
    if D is None:
        return None
    m = Y.shape[1]
    dense = Dense(KS["Kxx"], D, Y - mval)
    if not dense.ok:
        o.inconclusive("reference_cholesky_failed")
        return None
    if not dense.trust:
        o.inconclusive("cond_too_large")
    mstar = np.ones(Xt.shape[0]) * mval
    mu, var = _call(o, "predict", state.predict, Xt, _trusted=dense.trust)
    out = check_predict(o, tag, mu, var, dense, KS["Kxt"], KS["dT"], mstar, m, floor, extra=extra)
    if out is not None:
        counted[0] = True
    if m == 1:
        check_nlml(o, tag, _call(o, "neg_log_likelihood", state.neg_log_likelihood), dense)
    check_sample_marginals(o, tag, state, Xt, dense, KS["Kxt"], KS["dT"], mstar, m, floor, rng)
    if rng.random() < 0.4:
        check_joint(o, tag, state, Xt, dense, KS["Kxt"], KS["Ktt"], mstar, m)
    return dense, KS, mstar


def _parse_sample(model, vec):
    """Split a hyperparameter vector of the MCMC model (model.samples[i]) by the likelihood's public
    param_encoding_pairs(): noise_variance, covariance_scale, inverse_bandwidths, mean_value."""
    out, pos = {}, 0
    vec = np.asarray(vec, dtype=np.float64).reshape(-1)
    for param, enc in model.likelihood.param_encoding_pairs():
        dim = enc.dimension
        name = param.name
        for key in ("noise_variance", "covariance_scale", "inverse_bandwidths", "mean_value"):
            if key in name:
                out[key] = vec[pos:pos + dim].copy()
                break
        else:
            out.setdefault("other", []).append((name, vec[pos:pos + dim].copy()))
        pos += dim
    out["_len_ok"] = pos == vec.size
    return out


def _mcmc_check_states(o, model, X, Xt, Ycols, d, ard, has_cs, rng, tag, floor, counted):
    """Every posterior state against the dense definition evaluated with THAT state's own sample.
    Ycols(i) gives the target columns state i was built from."""
    samples = [np.asarray(v, dtype=np.float64).reshape(-1) for v in model.samples]
    states = model.states
    if states is None or len(states) != len(samples):
        o.violate("mcmc", f"mcmc:number_of_states_differs_from_number_of_samples:{tag}",
                  {"states": None if states is None else len(states), "samples": len(samples)})
        raise Raised("mcmc")
    preds = _call(o, "GPRegressionMCMC.predict", model.predict, Xt)
    if len(preds) != len(states):
        o.violate("mcmc", f"mcmc:predict_returns_wrong_number_of_states:{tag}", {"got": len(preds), "want": len(states)})
        raise Raised("mcmc")
    parsed = [_parse_sample(model, v) for v in samples]

    def reported(state):
        g = state.kernel.get_params()
        ib = np.array([_f(g[f"inv_bw{i}"]) for i in range(d)]) if (ard and d > 1) else np.array([_f(g["inv_bw"])])
        c = _f(g["covariance_scale"]) if has_cs else 1.0
        mv = _f(state.mean.get_params()["mean_value"])
        nv = _f(state.noise_variance)
        return np.concatenate([[nv], [c] if has_cs else [], ib, [mv]])

    def as_vec(ps):
        return np.concatenate([ps["noise_variance"], ps["covariance_scale"] if has_cs else [], ps["inverse_bandwidths"],
                               ps["mean_value"]])

    def close(a, b):
        return a.shape == b.shape and bool(np.all(np.abs(a - b) <= 1e-12 * np.abs(b) + 1e-300))

    for i, (state, ps) in enumerate(zip(states, parsed)):
        if not ps["_len_ok"] or any(k_ not in ps for k_ in ("noise_variance", "inverse_bandwidths", "mean_value")):
            o.inconclusive("mcmc_sample_vector_layout_not_understood")
            return
        own = as_vec(ps)
        rep = reported(state)
        o.count("decided:mcmc_state_params")
        if not close(rep, own):
            # kernel and mean blocks are shared objects, the noise variance is a copy: compare without it
            other = [j for j, pj in enumerate(parsed) if j != i and close(rep[1:], as_vec(pj)[1:])]
            mech = ("mcmc:state_reports_kernel_and_mean_parameters_of_another_sample" if other
                    else "mcmc:state_parameters_differ_from_its_sample")
            o.violate("mcmc", mech, {"state": i, "n_states": len(states), "reported": rep.tolist(), "own_sample": own.tolist(),
                                     "matches_sample": other[:1], "phase": tag})
        ib = ps["inverse_bandwidths"] if ps["inverse_bandwidths"].size == d else np.repeat(ps["inverse_bandwidths"], d)
        c = float(ps["covariance_scale"][0]) if has_cs else 1.0
        noise, mval = float(ps["noise_variance"][0]), float(ps["mean_value"][0])
        Y = Ycols(i)
        m = Y.shape[1]
        o.count("mcmc:states_checked")
        res = _state_vs_dense(o, state, ib, c, noise, mval, d, X, Xt, Y, rng, f"mcmc_{tag}", floor, counted,
                              {"state": i, "n_states": len(states)}, "mcmc")
        if res is None:
            continue
        dense, KS, mstar = res
        # the model's own predict (one entry per state, means flattened for a single column)
        pm, pv = preds[i]
        pm = np.asarray(pm, dtype=np.float64)
        o.count("decided:mcmc_model_predict")
        if pm.shape != ((Xt.shape[0],) if m == 1 else (Xt.shape[0], m)):
            o.violate("predict", f"mcmc.predict:bad_output_shape:{tag}", {"shape": list(pm.shape), "columns": m})
        else:
            check_predict(o, f"mcmc_model_{tag}", pm.reshape(Xt.shape[0], m), pv, dense, KS["Kxt"], KS["dT"], mstar, m, floor,
                          extra={"state": i, "n_states": len(states)})


def _run_mcmc(spec, o, sig):
    """GPRegressionMCMC with a small MCMCConfig: fit (slice sampling), then recompute_states on new data /
    fantasy matrices, optionally with hyperparameter samples assigned by the test (model.samples)."""
    G = _imports()
    rng = np.random.default_rng(int(spec["seed"]))
    FLOOR = G["constants"].MIN_POSTERIOR_VARIANCE
    d = int(spec.get("d", rng.integers(1, 7)))
    ard = bool(spec.get("ard", rng.random() < 0.6)) and d > 1
    has_cs = bool(spec.get("has_cs", rng.random() < 0.85))
    M = Model()
    M.kind, M.d, M.mean_kind, M.ysc = "mcmc", d, "zero", float(10 ** rng.uniform(-0.5, 0.5))
    M.mean_ref = lambda X_: np.zeros(X_.shape[0])
    sp = dict(spec)
    sp.setdefault("n", int(rng.integers(2, 21)))
    sp["m"] = 1
    X, Xt, Y, n, nt, _, n_exact, n_near = gen_inputs(rng, sp, M)
    Y = Y + rng.normal() * M.ysc * rng.choice([0.0, 1.0])
    n_samples = int(spec.get("n_samples", rng.integers(2, 13)))
    n_burnin = int(spec.get("n_burnin", rng.integers(0, n_samples)))
    n_thinning = int(spec.get("n_thinning", rng.integers(1, 4)))
    cfg = G["MCMCConfig"](n_samples=n_samples, n_burnin=n_burnin, n_thinning=n_thinning)

    def build_kernel():
        return G["Matern52"](dimension=d, ARD=ard, has_covariance_scale=has_cs)

    model = _call(o, "GPRegressionMCMC", G["GPRegressionMCMC"], build_kernel=build_kernel, mcmc_config=cfg,
                  random_seed=int(rng.integers(0, 2 ** 31 - 1)))
    tg = Y[:, 0].copy() if rng.random() < 0.5 else Y.copy()
    # fitting (slice sampling) is not what the property constrains: a sampler failure is inconclusive
    scrib = bool(spec.get("scribble", rng.random() < 0.4))

    def model_call(api, fn, Xd, Yd):
        data = {"features": np.array(Xd, copy=True), "targets": np.array(Yd, copy=True)}
        _call(o, api, fn, data, _trusted=(api != "GPRegressionMCMC.fit"))
        if scrib:
            _scribble(o, rng, data["features"], data["targets"])
            o.count("scribble:model_call")

    model_call("GPRegressionMCMC.fit", model.fit, X, tg)
    o.ev("mcmc", n, d, n_samples, n_burnin, n_thinning, len(model.samples))
    counted = [False]
    phases = ["fit"]
    if len(model.samples) == 0:
        o.inconclusive("mcmc_no_sample_retained")
        return
    _mcmc_check_states(o, model, X, Xt, lambda i: Y, d, ard, has_cs, rng, "fit", FLOOR, counted)
    distinct = len({tuple(np.asarray(v).reshape(-1).tolist()) for v in model.samples})
    # ---- hyperparameter samples assigned by the test: anywhere inside the box constraints
    if bool(spec.get("assign", rng.random() < 0.45)):
        k_ = min(int(rng.integers(2, 7)), n_samples)  # never more states than mcmc_config.n_samples
        vecs = []
        for _ in range(k_):
            v = [_logu(rng, 1e-9, 1e-2 if rng.random() < 0.5 else 1e6, corner=0.06)]
            if has_cs:
                v.append(_logu(rng, 1e-3, 1e3))
            v += [_logu(rng, 1e-4, 100.0) for _ in range(d if ard else 1)]
            v.append(float(rng.normal() * M.ysc))
            vecs.append(np.array(v))
        if rng.random() < 0.3:
            vecs[-1] = vecs[0].copy()  # a repeated sample is legal
        model.samples = vecs
        distinct = max(distinct, len({tuple(v.tolist()) for v in vecs}))
        o.count("mcmc:assigned_samples")
        phases.append("assigned")
    # ---- recompute_states: new data, or a fantasy matrix (n_samples * nf columns, state i gets block i)
    if bool(spec.get("recompute", rng.random() < 0.75)) or "assigned" in phases:
        n2 = int(rng.integers(1, n + 1))
        X2, Xt2, Y2, n2, _, _, _, _ = gen_inputs(rng, dict(sp, n=n2, nt=nt), M)
        Xn = np.concatenate([X, X2], axis=0) if rng.random() < 0.6 else X2
        yn = (np.concatenate([Y, Y2], axis=0) if Xn.shape[0] == n + n2 else Y2)
        nf = 0
        if rng.random() < 0.4:
            nf = int(rng.integers(1, 3))
            Yn = np.tile(yn, (1, n_samples * nf)) + rng.normal(size=(yn.shape[0], n_samples * nf)) * 0.3 * M.ysc
            if n_samples * nf == 1:
                nf = 0
        if nf == 0:
            Yn = yn
            cols = lambda i: Yn  # noqa: E731
        else:
            cols = (lambda nf_: (lambda i: Yn[:, i * nf_:(i + 1) * nf_]))(nf)
            o.count("mcmc:recompute_fantasies")
        model_call("GPRegressionMCMC.recompute_states", model.recompute_states, Xn, Yn)
        o.count("mcmc:recompute_states")
        phases.append("recompute" + (f"_nf{nf}" if nf else ""))
        _mcmc_check_states(o, model, Xn, Xt, cols, d, ard, has_cs, rng, "recompute", FLOOR, counted)
    # ---- a second fit on grown data: the states must be those of the data passed to THIS call
    if bool(spec.get("refit", rng.random() < 0.3)):
        n3 = int(rng.integers(1, 9))
        X3, _, Y3, n3, _, _, _, _ = gen_inputs(rng, dict(sp, n=n3, nt=nt), M)
        Xg, Yg = np.concatenate([X, X3], axis=0), np.concatenate([Y, Y3], axis=0)
        model.mcmc_config = cfg
        model_call("GPRegressionMCMC.fit", model.fit, Xg, Yg)
        o.count("mcmc:refit_grown_data")
        phases.append("refit")
        if len(model.samples) > 0:
            _mcmc_check_states(o, model, Xg, Xt, lambda i: Yg, d, ard, has_cs, rng, "refit", FLOOR, counted)
    if counted[0] and scrib:
        o.count("cell:caller_arrays_overwritten")
    if counted[0]:
        o.count("cell:kind:mcmc")
        if distinct >= 2:
            o.count("cell:mcmc_ge2_distinct_samples")
        if ard:
            o.count("cell:ard")
        if nt > 1:
            o.count("cell:ntest_gt1")
    sig.update(n=n, d=d, nt=nt, ard=ard, has_cs=has_cs, cfg=[n_samples, n_burnin, n_thinning],
               retained=len(model.samples), phases=phases)
    sig["nontrivial"] = n >= 2 and len(model.samples) >= 1
    o.sample = {"kind": "mcmc", "n": n, "d": d, "n_test": nt, "ard": ard, "mcmc_config": [n_samples, n_burnin, n_thinning],
                "states": len(model.samples), "distinct_samples": distinct, "phases": phases,
                "sample0": np.asarray(model.samples[0]).reshape(-1).tolist()}


# ----------------------------------------------------------------------------------- model-level histories
class _OptimizerFault:
    """Injected optimiser fault for the duration of one fit() call: scipy.optimize.minimize (the library calls
    it once per restart) raises FloatingPointError on the chosen restarts, otherwise runs unchanged."""

    def __init__(self, fail):
        self.fail = fail  # "all" or a set of restart indices
        self.calls, self.raised = 0, 0

    def __enter__(self):
        import scipy.optimize as so

        self._so, self._orig = so, so.minimize

        def minimize(*a, **kw):
            idx = self.calls
            self.calls += 1
            if self.fail == "all" or idx in self.fail:
                self.raised += 1
                raise FloatingPointError("injected: numerical failure in the optimiser (restart %d)" % idx)
            return self._orig(*a, **kw)

        so.minimize = minimize
        return self

    def __exit__(self, *exc):
        self._so.minimize = self._orig
        return False


def _run_history(spec, o, sig):
    """GaussianProcessRegression driven as a searcher drives it: fit(data_1), then fit / recompute_states with
    grown or replaced data, with and without an injected optimiser fault (all restarts raise / some restarts
    raise). After EVERY call model.states must be the dense posterior of the data passed to that call under the
    parameters the model reports after the call."""
    G = _imports()
    rng = np.random.default_rng(int(spec["seed"]))
    FLOOR = G["constants"].MIN_POSTERIOR_VARIANCE
    d = int(spec.get("d", rng.integers(1, 5)))
    ard = bool(spec.get("ard", rng.random() < 0.5)) and d > 1
    has_cs = bool(spec.get("has_cs", rng.random() < 0.85))
    zero = bool(spec.get("zero_mean", rng.random() < 0.3))
    M = Model()
    M.kind, M.d, M.mean_kind, M.ysc = "history", d, "zero", float(10 ** rng.uniform(-0.5, 0.5))
    M.mean_ref = lambda X_: np.zeros(X_.shape[0])
    sp = dict(spec, m=1)
    nt = int(rng.integers(1, 7))
    n_starts = int(spec.get("n_starts", rng.integers(1, 4)))
    kernel = G["Matern52"](dimension=d, ARD=ard, has_covariance_scale=has_cs)
    mean = G["ZeroMeanFunction"]() if zero else G["ScalarMeanFunction"]()
    cfg = G["constants"].OptimizationConfig(lbfgs_tol=1e-6, lbfgs_maxiter=int(rng.integers(3, 16)), verbose=False,
                                            n_starts=n_starts)
    model = _call(o, "GaussianProcessRegression", G["GaussianProcessRegression"], kernel=kernel, mean=mean,
                  optimization_config=cfg, random_seed=int(rng.integers(0, 2 ** 31 - 1)),
                  fit_reset_params=bool(rng.random() < 0.5))
    n_calls = int(spec.get("calls", rng.integers(2, 5)))
    scrib = bool(spec.get("scribble", rng.random() < 0.4))
    X = Y = Xt = None
    counted = [False]
    hist = []
    for step in range(n_calls):
        n_new = int(rng.integers(2, 11)) if step == 0 else int(rng.integers(1, 7))
        Xn, Xt_, Yn, n_new, _, _, _, _ = gen_inputs(rng, dict(sp, n=n_new, nt=nt), M)
        if step == 0:
            X, Y, Xt = Xn, Yn, Xt_
        elif rng.random() < 0.75:
            X, Y = np.concatenate([X, Xn], axis=0), np.concatenate([Y, Yn], axis=0)  # grown data
        elif rng.random() < 0.5:
            X, Y = Xn, Yn  # replaced data
        else:
            Y = Y + rng.normal(size=Y.shape) * 0.3 * M.ysc  # same inputs, new targets
        op = "fit" if (step == 0 or rng.random() < 0.7) else "recompute_states"
        fault = "none"
        data = {"features": X.copy(), "targets": Y[:, 0].copy() if rng.random() < 0.5 else Y.copy()}
        if op == "fit":
            u = rng.random()
            if step > 0 and u < 0.45 or step == 0 and u < 0.15:
                fault = "all"
            elif u < 0.7 and n_starts >= 2:
                fault = "some"
            if fault == "none":
                _call(o, "GaussianProcessRegression.fit", model.fit, data)
            else:
                fail = "all"
                if fault == "some":
                    k_ = int(rng.integers(1, n_starts))
                    fail = set(int(x) for x in rng.choice(n_starts, size=k_, replace=False))
                with _OptimizerFault(fail) as inj:
                    _call(o, "GaussianProcessRegression.fit", model.fit, data)
                if inj.calls != n_starts or inj.raised != (n_starts if fault == "all" else len(fail)):
                    o.inconclusive("optimizer_fault_not_injected_as_planned")
                    fault = "unplanned"
        else:
            _call(o, "GaussianProcessRegression.recompute_states", model.recompute_states, data)
        hist.append(op + ":" + fault)
        o.ev("history", step, op, fault, X.shape[0])
        if scrib:  # the caller re-uses its buffers; the reference keeps the private X, Y
            _scribble(o, rng, data["features"], data["targets"])
            o.count("scribble:model_call")
        # the model's current parameters (chosen by the model: get_params is the only source)
        g = model.get_params()
        ib = (np.array([_f(g[f"kernel_inv_bw{i}"]) for i in range(d)]) if ard else np.array([_f(g["kernel_inv_bw"])] * d))
        c = _f(g["kernel_covariance_scale"]) if has_cs else 1.0
        noise = _f(g["noise_variance"])
        mval = 0.0 if zero else _f(g["mean_mean_value"])
        states = model.states
        key = {"fit:none": "decided:states_after_fit", "fit:all": "decided:states_after_refit_with_all_restarts_failed",
               "fit:some": "decided:states_after_refit_with_some_restarts_failed",
               "recompute_states:none": "decided:states_after_recompute_states"}.get(op + ":" + fault)
        tag = {"fit:none": "after_fit", "fit:all": "after_fit_all_restarts_failed", "fit:some": "after_fit_some_restarts_failed",
               "recompute_states:none": "after_recompute_states"}.get(op + ":" + fault, "after_fit")
        if states is None or len(states) != 1:
            o.violate("model_states", f"history:no_single_posterior_state:{tag}", {"states": None if states is None else len(states)})
            raise Raised("history")
        res = _state_vs_dense(o, states[0], ib, c, noise, mval, d, X, Xt, Y, rng, tag, FLOOR, counted,
                              {"step": step, "history": list(hist), "n": int(X.shape[0])}, "history")
        if key:
            o.count(key)
            if step > 0 and key.startswith("decided:states_after_refit"):
                o.count(key + ":data_changed")
        if res is not None:
            dense, KS, mstar = res
            pm, pv = _call(o, "GaussianProcessRegression.predict", model.predict, Xt)[0]
            check_predict(o, "model_" + tag, np.asarray(pm, dtype=np.float64).reshape(Xt.shape[0], 1), pv, dense,
                          KS["Kxt"], KS["dT"], mstar, 1, FLOOR, extra={"step": step})
    if counted[0]:
        o.count("cell:kind:history")
        if scrib:
            o.count("cell:caller_arrays_overwritten")
        if ard:
            o.count("cell:ard")
    sig.update(d=d, ard=ard, has_cs=has_cs, zero=zero, n_starts=n_starts, hist=hist, n_final=int(X.shape[0]))
    sig["nontrivial"] = X.shape[0] >= 2 and len(hist) >= 2
    o.sample = {"kind": "history", "d": d, "ard": ard, "n_starts": n_starts, "history": hist, "n_final": int(X.shape[0]),
                "params": {kk: _f(v) for kk, v in model.get_params().items()}}


def run_case(spec):
    o = Obs()
    sig = {"kind": spec.get("kind")}
    try:
        if spec.get("kind") == "jitter_op":
            _run_jitter_op(spec, o, sig)
            o.set_sig(sig, bool(sig.get("nontrivial")))
            return o.result()
        if spec.get("kind") == "mcmc":
            _run_mcmc(spec, o, sig)
        elif spec.get("kind") == "history":
            _run_history(spec, o, sig)
        else:
            _run(spec, o, sig)
    except Raised:
        pass
    nontrivial = bool(sig.get("nontrivial")) and any(
        k.startswith("decided:predict_mean") for k in o.counters)
    sig["decided"] = sorted(k for k in o.counters if k.startswith("decided:"))
    sig["inconclusive"] = sorted(set(o.inconc))
    o.set_sig(sig, nontrivial)
    return o.result()


def _run_jitter_op(spec, o, sig):
    """AddJitterOp on harness-made symmetric matrices that are numerically singular or slightly indefinite
    (rank-deficient PSD minus delta * I), so that the search needs 0, 1, 2, ... failed attempts: the returned
    matrix must be x + s * I (off-diagonal untouched, constant diagonal shift) with s the first value of the
    documented sequence sigsq_init, sigsq_init + j0 * 10^k for which the factorisation works (stage J oracle)."""
    G = _imports()
    from syne_tune.optimizer.schedulers.searchers.bayesopt.gpautograd.custom_op import AddJitterOp, flatten_and_concat

    rng = np.random.default_rng(int(spec["seed"]))
    n = int(rng.integers(2, 13))
    rank = int(rng.integers(1, n))
    scale = float(10.0 ** rng.uniform(-1, 3))
    B = rng.standard_normal((n, rank))
    x = scale * (B @ B.T) / rank
    x = 0.5 * (x + x.T)
    j0 = 1e-9 * max(float(np.mean(np.diag(x))), 1.0)
    steps = int(rng.integers(0, 6))  # aimed number of failing sequence values
    delta = 0.0 if steps == 0 else j0 * 10.0 ** (steps - 1) * float(rng.uniform(0.15, 0.85))
    sig0 = float(rng.choice([0.0, 1e-12, 1e-9, 1e-7]) if rng.random() < 0.7 else 0.3 * delta)
    x = x - np.eye(n) * (delta + sig0)
    try:
        res = np.asarray(AddJitterOp(flatten_and_concat(x, np.array([sig0]))), dtype=np.float64)
        L = G["spl"].cholesky(res, lower=True)
    except Exception as e:  # noqa: BLE001
        o.violate("jitter", f"jitter_op:raised:{type(e).__name__}", {"error": repr(e)[:200], "n": n, "delta": delta, "sigsq_init": sig0})
        return
    o.count("decided:jitter_op")
    D, info = stage_chol(o, "jitter_op", L, x, sig0, True)
    if D is None:
        return
    k = info.get("k", -1) + 1 if info.get("jitter") != "none" else 0
    o.count("jitter_op:failed_attempts_%s" % (k if k < 4 else "ge4"))
    sig.update({"n": n, "rank": rank, "failed_attempts": k, "sig0_class": 0 if sig0 == 0 else 1})
    sig["nontrivial"] = k >= 1


def _run(spec, o, sig):
    G = _imports()
    rng = np.random.default_rng(int(spec["seed"]))
    FLOOR = G["constants"].MIN_POSTERIOR_VARIANCE
    M = build_model(rng, spec, o)
    X, Xt, Y, n, nt, m, n_exact, n_near = gen_inputs(rng, spec, M)
    kind = M.kind
    do_mp = bool(spec.get("mp")) and n <= 6
    o.ev("case", kind, n, M.d, nt, m)

    # ---- chain plan
    rmax = min(n - 1, 12)
    if "chain" in spec:
        r = min(int(spec["chain"]), rmax)
    else:
        u = rng.random()
        r = 0 if u < 0.25 else int(rng.integers(1, rmax + 1)) if rmax >= 1 else 0
        if u > 0.6 and rmax >= 5:
            r = int(rng.integers(5, rmax + 1))
    if kind == "jitter" and "chain" not in spec and rng.random() < 0.5:
        r = 0
    if M.noise_below_box:
        r = 0  # update() documents that it works with the initial noise variance: meaningless below the box
    n0 = n - r
    expand = bool(spec.get("expand", m > 1 and r >= 1 and rng.random() < 0.35))
    ops = []
    for i in range(r):
        ops.append("sample" if rng.random() < float(spec.get("p_sample", 0.3)) else "update")
    if expand:
        Y[:n0, :] = Y[:n0, :1]

    # ---- stage K
    KS = stage_kernel(o, M, X, Xt, rng, do_mp)
    if getattr(M, "comp", None):
        o.count("stage_K:comp:" + M.comp)
    if M.mean_kind == "expdecay":
        # ExponentialDecayResourcesMeanFunction: mu + kappa(r) (gamma - delta mu)
        ed = M.ed
        o.count("decided:expdecay_mean_function")
        for nm, A_ in (("X", X), ("Xt", Xt)):
            code = np.asarray(_call(o, "mean(X)", M.mean, A_), dtype=np.float64).reshape(-1)
            ref = np.float64(ed["mean"](A_))
            band = TOL["Ck"] * EPS * (abs(ed["mu"]) + abs(ed["gamma"]) + abs(ed["delta"] * ed["mu"])) * (1.0 + ed["rf_extra"])
            if code.shape != ref.shape or _exceeds(code - ref, band):
                o.violate("mean", "mean:expdecay_mean_function_differs_from_reference",
                          dict(_wit(code - ref, np.ones_like(ref) * band) if code.shape == ref.shape else {}, which=nm,
                               delta_class=ed["delta_class"], delta=ed["delta"], mean_value=ed["mu"], gamma=ed["gamma"]))
                break
    if not KS["diag_ok"]:
        # the prior variance is ambiguous (diagonal() disagrees with the Gram matrix): the posterior stages,
        # which take k** and the new diagonal entries from diagonal(), would only repeat this
        o.count("stopped_after_stage_K:diagonal_inconsistent")
        sig.update(n=n, d=M.d, nt=nt, m=m, flags=M.flags, comp=getattr(M, "comp", None))
        return
    cs = M.cs
    Kc = KS["Kxx"] * cs  # as the code forms it: kernel matrix times the (1,1) scale
    Kxt_c = KS["Kxt"] * cs
    Ktt_c = KS["Ktt"] * cs
    kss_c = KS["dT"] * cs
    kband = KS["bxx"] * abs(cs)
    kband_xt = KS["bxt"] * abs(cs)
    doc_band = 0.5 * G["constants"].NUMERICAL_JITTER * M.kscale * M.jf * abs(cs) * 1.02 + np.diag(kband)
    sig["nontrivial"] = n >= 2 and bool(
        np.max(np.abs(KS["Kxx"] - np.diag(np.diag(KS["Kxx"]))) / np.sqrt(np.outer(KS["dX"], KS["dX"]))) > 1e-3)

    # ---- objects
    noise_arr = np.array([M.noise])
    gp = M.gp
    if gp is not None:
        noise_arr = np.asarray(gp.likelihood.get_noise_variance(as_ndarray=True), dtype=np.float64).reshape(1).copy()
    sigma2 = M.noise
    kern = M.kernel
    # 40 % of the cases: the caller overwrites, in place, every array it handed to the library right after the
    # call that received it (references are kept private copies of the original data)
    scrib = bool(spec.get("scribble", rng.random() < 0.4))
    handed = []

    def mk_kern():
        if not M.tuple:
            return M.kernel
        a_ = np.array([cs])
        handed.append(a_)
        return (M.kernel, a_)

    def hand(a_):
        a_ = np.array(a_, copy=True)
        handed.append(a_)
        return a_

    def after_call(what, state=None, Xpriv=None):
        if not scrib:
            del handed[:]
            return
        _scribble(o, rng, *handed)
        del handed[:]
        o.count("scribble:" + what)
        if state is not None:
            o.count("decided:state_keeps_own_copy_of_features")
            F_ = np.asarray(state.features)
            if F_.shape != Xpriv.shape or not np.array_equal(F_, Xpriv):
                o.violate("immutable_state", f"state:features_changed_when_caller_overwrote_its_array:{what}",
                          {"n": int(Xpriv.shape[0])})

    def kcall(A, B):
        """kernel values exactly as a state obtains them: same call, same arguments, times the tuple scale."""
        return np.asarray(kern(A, B), dtype=np.float64) * cs

    mstar = M.mean_ref(Xt)
    jit_classes = []
    decided_any = [False]

    def posterior_checks(tag, state, Kmat, Kxs, D, Ycur, mcols, joint=False, mp=False, nlml=True):
        idx_n = Kmat.shape[0]
        R64 = Ycur[:idx_n] - M.mean_ref(X[:idx_n]).reshape(-1, 1)
        dense = Dense(Kmat, D, R64)
        if not dense.ok:
            o.inconclusive("reference_cholesky_failed")
            return None
        if not dense.trust:
            o.inconclusive("cond_too_large")
        res = _call(o, "predict", state.predict, Xt, _trusted=(dense.trust or not M.noise_below_box))
        mu, var = res
        out = check_predict(o, tag, mu, var, dense, Kxs, kss_c, mstar, mcols, FLOOR,
                            extra={"n": idx_n, "n_test": nt, "columns": mcols, "noise_below_box": M.noise_below_box})
        if out is not None:
            decided_any[0] = True
        nl = None
        if mcols == 1 and nlml:
            nl = _call(o, "neg_log_likelihood", state.neg_log_likelihood)
            check_nlml(o, tag, nl, dense)
        if joint:
            check_joint(o, tag, state, Xt, dense, Kxs, Ktt_c, mstar, mcols)
        if mp:
            check_mp(o, tag, mu, var, nl, dense, Kxs, kss_c, mstar, mcols, FLOOR)
        return dense, np.asarray(mu, dtype=np.float64), np.asarray(var, dtype=np.float64), out

    # ---- incremental chain
    chain_final = None
    Ycur = Y.copy()
    if r >= 1:
        Y0 = Ycur[:n0, :1] if expand else Ycur[:n0]
        Xc = X[:n0].copy()
        S = _call(o, "IncrementalUpdateGPPosteriorState", G["IncrementalUpdateGPPosteriorState"],
                  hand(Xc), hand(Y0), M.mean, mk_kern(), hand(noise_arr))
        after_call("base_state", S, Xc)
        Kch = kcall(Xc, Xc)  # the state's own call: kernel(features, features)
        if _exceeds(Kch - Kc[:n0, :n0], kband[:n0, :n0]):
            o.violate("kernel", "kernel:gram_of_subset_differs_from_submatrix", _wit(Kch - Kc[:n0, :n0], kband[:n0, :n0]))
        Dbase, info = stage_chol(o, "base", S.chol_fact, Kch, sigma2, True)
        jit_classes.append("base:" + info["jitter"])
        if Dbase is None:
            raise Raised("jitter")
        base_s = float(Dbase[0])
        if info["jitter"] != "none":
            o.count("jitter_added:base")
        if expand:
            S1 = _call(o, "expand_fantasies", S.expand_fantasies, m)
            o.count("decided:expand_fantasies")
            if S1.num_fantasies != m:
                o.violate("fantasies", "expand_fantasies:wrong_number_of_columns", {"got": S1.num_fantasies, "want": m})
                raise Raised("expand")
            S = S1
            posterior_checks("expanded", S, Kch, kcall(Xc, Xt), Dbase, Ycur, m, nlml=False)
        cur = n0
        Dcur = Dbase.copy()
        check_at = int(rng.integers(0, r))
        for step, op in enumerate(ops):
            x = X[cur]
            x2 = x.reshape(1, -1).copy()
            feat = hand(x2) if rng.random() < 0.7 else hand(x)
            oldL, oldP, oldF = S.chol_fact.tobytes(), S.pred_mat.tobytes(), np.asarray(S.features).tobytes()
            kcol = kcall(Xc, x2)  # the update's own call: kernel(features, feature)
            kself = _f(kern.diagonal(x2)) * cs
            if _exceeds(kcol - Kc[:cur, cur:cur + 1], kband[:cur, cur:cur + 1]):
                o.violate("kernel", "kernel:column_call_differs_from_gram_column",
                          _wit(kcol - Kc[:cur, cur:cur + 1], kband[:cur, cur:cur + 1]))
            if op == "update":
                tgt = hand(Ycur[cur].reshape(1, -1)) if rng.random() < 0.7 else hand(Ycur[cur])
                Snew = _call(o, "update", S.update, feat, tgt)
                o.count("chain:update")
            else:
                z = rng.normal(size=(1, m)) * rng.choice([1.0, 1.0, 3.0])
                mask = None
                if rng.random() < 0.4:
                    mask = rng.random(size=m) < 0.5
                # either a scripted stand-in returning z, or a real RandomState that the harness replays with a
                # twin: the m targets must use m consecutive draws of the generator that was passed
                replay = bool(spec.get("replay", rng.random() < 0.6))
                if replay:
                    sd_ = int(rng.integers(0, 2 ** 31 - 1))
                    rs, twin = np.random.RandomState(sd_), np.random.RandomState(sd_)
                    z = twin.normal(size=(1, m))
                    if mask is None and m > 1 and len(set(z.reshape(-1).tolist())) < m:
                        replay = False
                else:
                    rs = ScriptedNormal([z.copy()])
                tgt_code, Snew = _call(o, "sample_and_update", S.sample_and_update, feat,
                                       mean_impute_mask=mask, random_state=rs)
                o.count("chain:sample_and_update")
                tgt_code = np.asarray(tgt_code, dtype=np.float64)
                if isinstance(rs, ScriptedNormal):
                    if rs.bad or rs.arrays:
                        o.inconclusive("scripted_random_state_not_consumed_as_expected")
                        return
                else:
                    o.count("decided:sample_and_update_generator_advance")
                    nxt_code, nxt_twin = float(rs.normal()), float(twin.normal())
                    if nxt_code != nxt_twin:
                        o.violate("sample_and_update", "sample_and_update:random_state_not_advanced_by_m_draws",
                                  {"columns": m, "masked": mask is not None})
                if tgt_code.shape != (1, m):
                    o.violate("sample_and_update", "sample_and_update:bad_target_shape",
                              {"shape": list(tgt_code.shape), "want": [1, m]})
                    raise Raised("sample")
                dense = Dense(Kch, Dcur, Ycur[:cur] - M.mean_ref(X[:cur]).reshape(-1, 1))
                if not np.all(np.isfinite(tgt_code)):
                    if dense.ok and dense.trust:
                        o.violate("sample_and_update", "sample_and_update:nonfinite_target", {"cond": dense.cond})
                    else:
                        o.inconclusive("nonfinite_target_ill_conditioned_state")
                    raise Raised("sample")
                if dense.ok and dense.trust:
                    m_x = M.mean_ref(x2)
                    rm, rv, q, _ = dense.predict(kcol, np.array([kself]), m_x)
                    rm64, rv64, q64 = np.float64(rm), float(rv[0]), float(q[0])
                    quad = np.float64(dense.post.quad)
                    zz = z.copy()
                    if mask is not None:
                        zz[0, mask] = 0.0
                    std = math.sqrt(max(rv64, FLOOR))
                    exp_t = rm64 + zz * std
                    tol_m = dense.rel * _sqq(q, dense) + TOL["Ca"] * EPS * (abs(_f(m_x)) + np.abs(rm64))
                    tol_v = dense.rel * q64 + TOL["Ca"] * EPS * abs(kself)
                    tol_t = tol_m + np.abs(zz) * (tol_v / (2 * std) + 4 * EPS * std)
                    o.count("decided:sample_and_update_target")
                    if m > 1 and mask is None and not isinstance(rs, ScriptedNormal):
                        o.count("decided:sample_and_update_independent_columns")
                    if _exceeds(tgt_code - exp_t, tol_t):
                        w = _wit(tgt_code - exp_t, tol_t)
                        j = w["index"][1]
                        mech = "sample_and_update:target_differs_from_mean_plus_z_std"
                        if mask is not None and mask[j]:
                            mech = "sample_and_update:mean_imputed_column_not_predictive_mean"
                        elif m > 1 and mask is None:
                            # every column explained by ONE variate (the first draw)? => not independent
                            shared = rm64 + zz[0, 0] * std
                            if not _exceeds(tgt_code - shared, tol_m + abs(zz[0, 0]) * (tol_v / (2 * std) + 4 * EPS * std)):
                                mech = "sample_and_update:one_variate_shared_by_all_fantasy_columns"
                        o.violate("sample_and_update", mech, dict(w, cond=dense.cond, z=float(zz[0, j]), std=std))
                elif dense.ok:
                    o.inconclusive("cond_too_large")
                Ycur[cur] = tgt_code.reshape(-1)
                handed.append(tgt_code)  # the returned target belongs to the caller as well
            # originals are immutable
            o.count("decided:update_does_not_mutate")
            if (S.chol_fact.tobytes() != oldL or S.pred_mat.tobytes() != oldP
                    or np.asarray(S.features).tobytes() != oldF):
                o.violate("incremental", f"{op}:original_state_mutated", {"step": step})
            S = Snew
            cur += 1
            Xc = np.concatenate([Xc, x2], axis=0)
            after_call("chain_step", S, Xc)
            Kch = np.block([[Kch, kcol], [kcol.T, np.array([[kself]])]])
            if S.num_data != cur or np.asarray(S.features).shape != (cur, M.d) or not np.array_equal(
                    np.asarray(S.features), Xc):
                o.violate("incremental", f"{op}:features_of_new_state_wrong", {"num_data": int(S.num_data), "want": cur})
                raise Raised("features")
            Dcur, info = stage_chol(o, "chain", S.chol_fact, Kch, sigma2, False, n_base=n0, base_s=base_s)
            if Dcur is None:
                raise Raised("jitter")
            if info["jitter"] == "clamp":
                o.count("chain:clamp_active")
                jit_classes.append("chain:clamp")
            if step == check_at and step != r - 1:
                posterior_checks("chain_mid", S, Kch, kcall(Xc, Xt), Dcur, Ycur, m)
        fin = posterior_checks("chain_end", S, Kch, kcall(Xc, Xt), Dcur, Ycur, m, joint=(rng.random() < 0.3),
                               mp=(do_mp and rng.random() < 0.5))
        chain_final = (S, Dcur, fin, Kch)
        o.count("chain:length", r)

    # ---- state recomputed from scratch on all data
    if gp is not None:
        tg = Ycur[:, 0].copy() if (m == 1 and rng.random() < 0.5) else Ycur.copy()
        data = {"features": hand(X), "targets": hand(tg)}
        _call(o, "recompute_states", gp.recompute_states, data)
        Sfull = gp.states[0]
    else:
        Sfull = _call(o, "GaussProcPosteriorState", G["GaussProcPosteriorState"],
                      hand(X), hand(Ycur) if (m > 1 or rng.random() < 0.5) else hand(Ycur[:, 0]),
                      M.mean, mk_kern(), hand(noise_arr))
    after_call("scratch_state", Sfull, X)
    Dfull, info = stage_chol(o, "scratch", Sfull.chol_fact, Kc, sigma2, True)
    jit_classes.append("scratch:" + info["jitter"])
    if Dfull is None:
        raise Raised("jitter")
    jitter_added = info["jitter"] != "none"
    fin_full = posterior_checks("scratch", Sfull, Kc, Kxt_c, Dfull, Ycur, m, joint=True, mp=do_mp)
    if gp is not None and fin_full is not None:
        preds = _call(o, "GaussianProcessRegression.predict", gp.predict, Xt)
        o.count("decided:gpr_predict")
        pm, pv = preds[0]
        pm = np.asarray(pm, dtype=np.float64)
        want = (nt,) if m == 1 else (nt, m)
        if len(preds) != 1 or pm.shape != want:
            o.violate("predict", "gpr.predict:bad_output_shape", {"shape": list(pm.shape), "want": list(want)})
        else:
            check_predict(o, "gpr", pm.reshape(nt, m), pv, fin_full[0], Kxt_c, kss_c, mstar, m, FLOOR)
        if m == 1 and fin_full[0].trust:
            lik = _call(o, "likelihood(data)", gp.likelihood, {"features": X.copy(), "targets": Ycur[:, :1].copy()})
            check_nlml(o, "gpr_likelihood", lik, fin_full[0])

    # ---- incremental == from scratch
    if chain_final is not None and fin_full is not None and chain_final[2] is not None:
        S, Dc, finc, Kch = chain_final
        # The two states represent K_chain + diag(Dc) and K + diag(Dfull). They are the same matrix up to
        # (i) round-off of the kernel evaluations (the chain evaluates columns one at a time), bounded by the
        # kernel band of stage K, and (ii) on the diagonal the documented sqrt regulariser: an update takes
        # the new diagonal entry from kernel.diagonal(), the recomputed state from the Gram matrix.
        dA = np.abs((lowsym(Kch) + np.diag(Dc)) - (lowsym(Kc) + np.diag(Dfull)))
        allowed = kband + np.diag(doc_band)
        dense = fin_full[0]
        if np.all(dA <= allowed) and finc[3] is not None and fin_full[3] is not None:
            _, _, tm1, tv1, _ = finc[3]
            _, _, tm2, tv2, _ = fin_full[3]
            pm_, pv_ = dense.first_order(Kxt_c, 1.5 * dA, 1.5 * kband_xt)
            rel_pert = float(np.linalg.norm(dA, 2)) * dense.cond / float(np.linalg.norm(dense.A64, 2))
            if rel_pert > 0.1:
                o.count("incremental_vs_scratch:skipped_perturbation_not_small")
            else:
                o.count("decided:incremental_vs_scratch")
                if np.any(np.diag(dA) > 4 * EPS * np.diag(Kc)):
                    o.count("incremental_vs_scratch:diag_differs_within_documented_band")
                Dm = finc[1] - fin_full[1]
                if _exceeds(Dm, tm1 + tm2 + pm_):
                    o.violate("incremental", "incremental:mean_differs_from_recomputed_state",
                              dict(_wit(Dm, tm1 + tm2 + pm_), chain=ops, cond=dense.cond))
                Dv = finc[2] - fin_full[2]
                if _exceeds(Dv, tv1 + tv2 + pv_):
                    o.violate("incremental", "incremental:variance_differs_from_recomputed_state",
                              dict(_wit(Dv, tv1 + tv2 + pv_), chain=ops, cond=dense.cond))
        elif not np.all(dA <= allowed):
            o.count("incremental_vs_scratch:skipped_jitter_differs")

    # ---- cells (only for cases in which a posterior value clause was decided)
    if decided_any[0]:
        if M.flags.get("ard"):
            o.count("cell:ard")
            if M.flags.get("ard_dim", 0) >= 11:
                o.count("cell:ard_d_ge_11")
        if M.d >= 7:
            o.count("cell:d_ge_7")
        if M.onehot:
            o.count("cell:onehot_blocks")
        if M.flags.get("c_ne_1") or (M.tuple and cs != 1.0):
            o.count("cell:cov_scale_ne_1")
        if M.tuple and cs != 1.0:
            o.count("cell:tuple_scale")
        if m > 1:
            o.count("cell:fantasies_gt1")
        if nt > 1:
            o.count("cell:ntest_gt1")
        if jitter_added or any(c.startswith("base:step") for c in jit_classes):
            o.count("cell:jitter_added")
            if not M.noise_below_box:
                o.count("cell:jitter_added_noise_inside_box")
        if M.noise_below_box:
            o.count("cell:noise_below_box")
        if r >= 5:
            o.count("cell:chain_ge5")
        if expand:
            o.count("cell:expand_fantasies")
        o.count("cell:" + M.mean_kind + "_mean")
        if n_exact:
            o.count("cell:exact_duplicates")
        if n_near:
            o.count("cell:near_duplicates")
        o.count("cell:kind:" + kind)
        if scrib:
            o.count("cell:caller_arrays_overwritten")
            if r >= 1:
                o.count("cell:caller_arrays_overwritten_chain")
        if getattr(M, "ed", None):
            o.count("cell:expdecay_delta:" + M.ed["delta_class"])
            if M.ed["mu"] != 0.0:
                o.count("cell:expdecay_mean_nonzero")
                if M.ed["delta_class"] == "fixed_interior":
                    o.count("cell:expdecay_delta_fixed_interior_and_mean_nonzero")
        if getattr(M, "comp", None):
            o.count("cell:comp:" + M.comp)
            if r >= 1:
                o.count("cell:comp_chain:" + M.comp)
        if n == 1:
            o.count("cell:n_eq_1")
    sig.update(n=n, d=M.d, nt=nt, m=m, flags=M.flags, tuple=M.tuple, mean=M.mean_kind, jit=jit_classes,
               ops=ops, expand=expand, comp=getattr(M, "comp", None))
    o.sample = {"kind": kind, "n": n, "d": M.d, "n_test": nt, "columns": m, "noise_variance": sigma2,
                "tuple_scale": cs if M.tuple else None, "mean": M.mean_kind, "pars": M.pars,
                "exact_dups": n_exact, "near_dups": n_near, "chain": ops, "expand_fantasies": expand,
                "jitter": jit_classes,
                "cond_scratch": None if fin_full is None else fin_full[0].cond,
                "x0": X[0].tolist(), "y0": Ycur[0].tolist()}
