"""C09 — gradients used for model fitting and acquisition search are the true derivatives.

Reference-model monitor with a one-event history: the real functions are run on generated
inputs and an independent finite-difference oracle (``stv.refmodels.findiff``: Richardson
extrapolated central differences with an error estimate and a *measured* round-off level)
judges every gradient component the code returns. Three engines, one case kind each:

``crit``  ``create_lbfgs_arguments(likelihood, [data])`` -> ``f(vec) = (value, grad)`` — exactly the
          objective ``GaussianProcessOptimizeModel.fit`` hands to L-BFGS-B. For parameter vectors
          inside the internal box: every component of ``grad`` vs differences of the criterion;
          (run with ``verbose`` False and True, the log records being captured; parameter points
          include exact special internal values: the box bounds, 0.0 — Box-Cox lambda 0 — and 1.0;
          Box-Cox transforms also with ``initial_boxcox_lambda`` 0 / 1 / -0.5);
          ``value`` vs ``add_regularizer_to_criterion`` evaluated alone with the same (plain
          numpy) parameters and vs "criterion + sum of regularisers of the encoded parameters"
          assembled by the harness from ``param_encoding_pairs()``.
``acq``   fitted ``GaussProcPredictor`` objects (0..4 pending evaluations, 1..10 fantasy samples; single
          posterior state from ``GaussianProcessRegression``, or 2..5 states per output with their own
          hyper-parameters from the MCMC path ``GPRegressionMCMC`` / ``GaussProcMCMCEstimator``, also
          with unequal state counts; the predictor dict of EIpu / CEI lists the active metric first or last)
          and EI / LCB / EIpu / CEI on top: ``compute_acq_with_gradient(x)`` vs differences of
          ``compute_acq`` (one batched call for the whole stencil), value equality, EI against
          the closed form from ``scipy.stats.norm`` with mean/std from ``predict`` and the
          incumbent recomputed from ``predict`` at all observed+pending candidates, and
          ``-compute_acq >= 0`` (``compute_acq`` is the criterion to be *minimised*: minus EI).
          Each acquisition-function object lives through a *history*: between the evaluations for its own
          predictor it is asked to score inputs for an unrelated ("foreign") predictor / dict of
          predictors via ``predictor=``; after every such step value == value of a fresh object and of
          the same object before the call, closed form w.r.t. the *own* incumbent, and gradient ==
          differences are checked again; the value obtained through ``predictor=`` must equal the value
          of an acquisition function created for those predictors.
``syn``   hand-written ``Predictor`` objects (linear mean per fantasy sample, std in {1e-13 .. 1e-9}:
          below / at / just above the 1e-10 floor of ``get_quantiles``; constant at or below the floor,
          slowly varying above) under EI / LCB / EIpu / CEI: value == closed form with the floor applied
          consistently (``s_eff = max(std, 1e-10)`` everywhere), gradient == differences of the value.
          GP states on a metric of scale 1e-8 (``tiny``) give std below the floor next to observed points;
          there the EI value is judged against the same closed form (the gradient is not: below the floor
          the head gradient w.r.t. a *varying* std ignores the floor).
``ops``   the custom autograd primitives: ``cholesky_factorization`` (vjp vs differences along
          symmetric directions on random SPD matrices) and ``AddJitterOp`` (matrix part and
          ``sigsq`` part), alone and chained as in ``cholesky_computations``.

Deliberately non-smooth points are detected, counted (``nonsmooth:*``) and not judged:
jitter added by ``AddJitterOp`` (observed by a read-only wrapper around the primitive: the
jitter depends on ``mean(diag)`` and its vjp ignores that on purpose), predictive variance at
the ``MIN_POSTERIOR_VARIANCE`` clamp, std below the ``1e-10`` clamp of ``get_quantiles``,
predicted cost below ``MIN_COST`` in EIpu — on the point or anywhere on its stencil — and ``x`` within
round-off distance of a training input (``SquaredDistance`` returns ``abs(D)``; the sign of a computed
``D`` at round-off level, hence the derivative of ``abs``, is arbitrary there). The CEI
"feasibility switch" (no feasible incumbent for a fantasy sample => that sample's term is
P(feasible) only) is a function of the predictor, not of ``x``: each regime is smooth in ``x``
and is judged; the regimes are counted separately (``cei_regime:*``) and the only real switch —
a candidate whose constraint mean is within round-off of 0 — is counted as
``nonsmooth:cei_feasibility_margin`` and not judged.
"""
import math
import re

from stv import envshim  # noqa: F401
from stv.obs import Obs
from stv.refmodels import findiff as fd

import numpy as np

ID = "C09"
LEVEL = "exploration"
RULE = (
    "crit case = seeded data set (n 2..25, d 1..5, near-duplicate rows sometimes) x likelihood cell "
    "(Matern52 +-ARD, +-input warping over the full or a partial coordinate range, scalar/zero mean, "
    "identity/Box-Cox targets, logarithm or softplus ('positive') encodings, all priors as shipped) x "
    "several parameter vectors in the internal box (uniform / at bounds / moderate); every gradient "
    "component is judged. acq case = tuning-job state (n 2..25, d 1..5, 0..4 pending, 1..10 fantasy samples, "
    "target+cost+constraint metrics, all/none/some candidates feasible) -> GaussProcPredictors (really "
    "fitted by L-BFGS or with random in-box parameters) -> EI, LCB, EIpu, CEI at several x in the open "
    "cube (uniform, near the boundary, near a data point); a second family uses MCMC surrogates (2..5 posterior "
    "states per output, equal or unequal counts) and both orders of the predictor dict of EIpu/CEI. ops case = random SPD / PSD matrices (n 1..12, "
    "condition number up to 1e8) through cholesky_factorization / AddJitterOp. Distinct = digest of "
    "(kind, cell, sizes, what was decided / found non-smooth); non-trivial = at least one gradient "
    "component with a non-zero derivative was judged against a trustworthy difference quotient."
)
ASSUMPTIONS = [
    "derivatives are judged only where Richardson extrapolation over two step sizes is trustworthy: "
    "truncation estimate |R - D(h/2)| plus 3*delta/h (delta = measured round-off level of the value under "
    "1e-13 relative perturbations) must not exceed tol/10, tol = atol + rtol*max(|grad_i|,|R|); otherwise the "
    "component is inconclusive. A trustworthy component is violated iff |grad_i - R| > tol (calibrated: the "
    "observed discrepancy never exceeded 6x the error estimate on the unchanged tree).",
    "tolerances: criterion rtol 1e-4, atol 1e-7*max(1,|value|); acquisition rtol 1e-3, atol 1e-8*|value| "
    "(+1e-300); ops rtol 1e-4, atol 1e-8*scale. Value equality: |a-b| <= 1e-9*max(|a|,|b|) (+1e-300 / "
    "+1e-12*max(1,.) for the criterion).",
    "EI closed form: mean over fantasy samples of (inc-m-xi)*Phi(u)+s*phi(u), u=(inc-m-xi)/s, xi the "
    "acquisition function's documented jitter parameter; band 1e-9*s*(|u|Phi+phi); EI >= -4*eps*s*(|u|Phi+phi).",
    "points where AddJitterOp added jitter, or a variance/std/cost clamp is active on the stencil, are "
    "counted as non-smooth and not judged (inside an active std or cost clamp the hand-derived head "
    "gradients ignore the clamp; this is outside what is judged here); likewise x whose scaled squared "
    "distance to a training input is <= 256*eps*(|x|^2+|X_i|^2): abs(D) in SquaredDistance.forward then "
    "differentiates with the sign of round-off (observed: 4 % error of d var/dx at distance 1.5e-8)",
    "x stays at least 1.5e-3 away from the faces of the unit cube so that the stencil stays inside the "
    "domain of the warping transform",
    "MCMC predictors (several posterior states per output) are covered without pending evaluations only: "
    "GaussProcMCMCEstimator with pending evaluations asserts whenever n_burnin > 0 or n_thinning > 1",
]
CASE_TIMEOUT = 150
SHARDS_PER_JOB = 3

# ----------------------------------------------------------------------------------- tolerances
CRIT_RTOL = 1e-4
# points where AddJitterOp had to add jitter (condition number 1e11 and more): the value carries round-off of
# relative size ~1e-5, so only larger steps resolve a derivative, and only to a few per cent; a correct but
# ill-conditioned computation passes (observed discrepancy <= 3 %), an error by a factor does not
CRIT_RTOL_JITTER = 0.1
CRIT_STEPS_JITTER = (0.3, 0.1, 1e-2)
CRIT_ATOL_REL = 1e-7
CRIT_STEPS = (1e-3, 1e-4, 1e-2)
ACQ_RTOL = 1e-3
ACQ_ATOL_REL = 1e-8
ACQ_STEPS = (1e-3, 1e-4, 1e-5)
X_MARGIN = 1.5e-3
OPS_RTOL = 1e-4
OPS_ATOL_REL = 1e-8
TRUST = 10.0  # an estimate is trustworthy iff TRUST * (its error estimate) <= tol
VALUE_RTOL = 1e-9

_TARGET, _COST, _CONSTR = "target", "cost", "constraint"

# ----------------------------------------------------------------------------------- spies
_SPY = {"installed": False, "jitter_events": 0, "reach": {}, "last_jitter": 0.0, "bad_jitter": []}


def _addjitter_structure(x, sigsq, out, factor, growth):
    """Documented contract of AddJitterOp: returns ``x + sigsq_final * Id`` with ``sigsq_final`` one of
    ``sigsq_init, sigsq_init + initial_jitter * growth ** k (k = 0, 1, ...)``, ``initial_jitter =
    factor * max(mean(diag(x)), 1)``. -> (jitter, problem or None)."""
    n = out.shape[0]
    dmat = out - x
    off = dmat[~np.eye(n, dtype=bool)]
    if off.size and np.any(off != 0.0):
        return 0.0, "off_diagonal_changed"
    shift = np.diag(dmat)
    c = float(np.median(shift))
    ulp = 4.0 * float(np.max(np.spacing(np.abs(np.diag(x)) + abs(c))))
    if np.any(np.abs(shift - c) > ulp):
        return c - sigsq, "diagonal_shift_not_constant"
    jit = c - sigsq
    init = factor * max(1.0, float(np.mean(np.diag(x))))
    if jit <= 0.5 * init:
        return (0.0, None) if abs(jit) <= ulp + 1e-6 * init else (jit, "shift_differs_from_sigsq_init_without_jitter")
    k = math.log(jit / init) / math.log(growth)
    if k < -1e-3 or abs(jit / (init * growth ** round(k)) - 1.0) > 1e-5 + ulp / jit:
        return jit, "jitter_not_initial_jitter_times_growth_pow_k"
    return jit, None



def _reach(name):
    _SPY["reach"][name] = _SPY["reach"].get(name, 0) + 1


def _install_spies():
    """Read-only wrappers around the anchored mechanism functions (module globals looked up at
    call time by the code under test). They return what the original returns."""
    if _SPY["installed"]:
        return
    from autograd.tracer import getval
    from syne_tune.optimizer.schedulers.searchers.bayesopt.gpautograd import (
        custom_op,
        posterior_utils,
        posterior_state,
    )
    from syne_tune.optimizer.schedulers.searchers.bayesopt.models import meanstd_acqfunc_impl as impl

    orig_jit = posterior_utils.AddJitterOp

    def add_jitter_spy(inputs, *a, **kw):
        out = orig_jit(inputs, *a, **kw)
        _reach("AddJitterOp")
        try:
            iv = np.asarray(getval(inputs), dtype=float)
            ov = np.asarray(getval(out), dtype=float)
            n = ov.shape[0]
            x = iv[:-1].reshape(n, n)
            extra = float(np.max(np.diag(ov) - np.diag(x) - iv[-1]))
            fac = kw.get("initial_jitter_factor", custom_op.INITIAL_JITTER_FACTOR)
            thr = 0.5 * fac * max(1.0, float(np.mean(np.diag(x))))
            _SPY["last_jitter"] = 0.0
            if extra > thr:
                _SPY["jitter_events"] += 1
                _SPY["last_jitter"] = extra
            jit_, problem = _addjitter_structure(x, float(iv[-1]), ov, fac, kw.get("jitter_growth", custom_op.JITTER_GROWTH))
            if problem and len(_SPY["bad_jitter"]) < 50:
                _SPY["bad_jitter"].append({"problem": problem, "n": n, "sigsq_init": float(iv[-1]), "diagonal_shift_minus_sigsq_init": jit_,
                                           "initial_jitter": fac * max(1.0, float(np.mean(np.diag(x))))})
        except Exception:  # noqa: BLE001 - observation must never disturb the run
            _SPY["jitter_events"] += 1
        return out

    posterior_utils.AddJitterOp = add_jitter_spy

    def counting(mod, name, key):
        orig = getattr(mod, name)

        def wrapper(*a, **kw):
            _reach(key)
            return orig(*a, **kw)

        wrapper.__wrapped__ = orig
        setattr(mod, name, wrapper)

    counting(custom_op, "cholesky_factorization_backward", "cholesky_factorization_backward")
    counting(posterior_state, "backward_gradient_given_predict", "backward_gradient_given_predict")
    counting(impl, "_postprocess_gradient", "_postprocess_gradient")
    counting(impl, "get_quantiles", "get_quantiles")
    _SPY["installed"] = True


def preload():
    import scipy.stats  # noqa: F401
    import syne_tune.optimizer.schedulers.searchers.bayesopt.models.gp_model  # noqa: F401
    import syne_tune.optimizer.schedulers.searchers.bayesopt.models.meanstd_acqfunc_impl  # noqa: F401
    import syne_tune.optimizer.schedulers.searchers.bayesopt.gpautograd.optimization_utils  # noqa: F401
    import syne_tune.optimizer.schedulers.searchers.bayesopt.gpautograd.warping  # noqa: F401
    import syne_tune.optimizer.schedulers.searchers.bayesopt.gpautograd.target_transform  # noqa: F401
    import syne_tune.optimizer.schedulers.searchers.bayesopt.utils.test_objects  # noqa: F401

    _install_spies()


# ----------------------------------------------------------------------------------- cases
STD_FLOOR = 1e-10  # get_quantiles: "s[s < 1e-10] = 1e-10"
SYN_STDS = [1e-13, 1e-11, 5e-11, 1e-10, 2e-10, 1e-9]
CELLS = [(a, w, m, t) for a in (0, 1) for w in (0, 1) for m in ("scalar", "zero") for t in ("id", "boxcox")]
SIZES = {
    # crit cases (x points each), acq cases (4 acquisition functions x xpoints each), ops cases
    "quick": {"crit": 288, "crit_sing": 64, "crit_points": 6, "acq": 160, "acq_mcmc": 64, "acq_x": 5, "syn": 144, "ops": 320},
    "thorough": {"crit": 2400, "crit_sing": 640, "crit_points": 6, "acq": 1600, "acq_mcmc": 640, "acq_x": 5, "syn": 1440, "ops": 3200},
}


def _cell_name(ard, warp, mean, tr):
    return f"{'ard' if ard else 'iso'}-{'warp' if warp else 'nowarp'}-{mean}-{tr}"


def cases(tier, seed):
    sz = SIZES["quick" if tier == "quick" else "thorough"]
    rng = np.random.default_rng([seed, 9])
    out = []
    base = seed * 1000003
    for i in range(sz["crit"]):
        ard, warp, mean, tr = CELLS[i % len(CELLS)]
        out.append(
            {
                "kind": "crit", "seed": base + i, "n": int(rng.integers(2, 26)), "d": int(rng.integers(1, 6)),
                "ard": ard, "warp": warp, "mean": mean, "transform": tr, "points": sz["crit_points"],
                "enc": "positive" if rng.random() < 0.15 else "logarithm",
                # documented option of create_lbfgs_arguments / OptimizationConfig.verbose / opt_verbose
                "verbose": bool(((i // len(CELLS)) + (i // len(CELLS)) // 8) % 2),
                # BoxCoxTargetTransform(initial_boxcox_lambda=...): None = default 0.5
                "boxcox_init": [None, 0.0, None, 1.0, None, 0.0, -0.5, None][(i // len(CELLS)) % 8],
            }
        )
        if out[-1]["transform"] == "boxcox" and (i // len(CELLS)) % 8 == 5:
            out[-1]["n"] = int(rng.integers(2, 5))  # fewer than 5 targets: lambda stays fixed at its initial value 0.0
    for i in range(sz["crit_sing"]):
        # near-singular K + noise * I inside the box: dense grid + duplicated inputs, long length scale,
        # covariance scale at / near its upper bound, noise at / near its lower bound -> jitter loop
        out.append(
            {
                "kind": "crit", "seed": base + 300000 + i, "n": 0, "d": 1, "ard": i % 2, "warp": 0, "mean": ["scalar", "zero"][(i // 2) % 2],
                "transform": "id", "points": 4, "enc": "logarithm", "verbose": False, "boxcox_init": None,
                "singular": {"grid": int(rng.integers(15, 61)), "dup": int(rng.integers(4, 21))},
            }
        )
    for i in range(sz["acq"]):
        ard, warp, mean, tr = CELLS[(i * 7 + i // 16) % len(CELLS)]
        npend = int(rng.integers(0, 5)) if i % 4 else int(rng.integers(1, 5))
        out.append(
            {
                "kind": "acq", "seed": base + 500000 + i, "n": int(rng.integers(2, 26)), "d": int(rng.integers(1, 6)),
                "ard": ard, "warp": warp, "mean": mean, "transform": tr,
                "npend": npend, "nfant": int(rng.integers(1, 11)) if i % 3 else int(rng.integers(2, 11)),
                "fit": bool(i % 3 == 0), "xpoints": sz["acq_x"],
                "feas": ["mixed", "all", "none", "edge", "edge"][i % 5],
                # order of the predictor dict handed to EIpu / CEI: active metric first or last
                "order": "last" if (i // 2) % 2 else "first",
            }
        )
        if i % 4 == 1:
            # re-fit sequence: predictor1 = est.fit_from_state(state1); est.fit_from_state(state2 with more data)
            out[-1]["refit"] = {"extra": int(rng.integers(1, 9)), "update_params": bool(i % 8 == 1)}
            out[-1]["refit_keeps_pending"] = bool((i // 8) % 2)
        if i % 8 == 7 or i % 16 == 3:
            # metric reported on a tiny scale (1e-8) with normalisation on: de-normalised predictive
            # std below the 1e-10 floor of get_quantiles at / next to observed points
            out[-1].update({"tiny": True, "transform": "id", "npend": min(out[-1]["npend"], 1)})
    for i in range(sz["acq_mcmc"]):
        # several posterior states per output (MCMC surrogate: hyper-parameters sampled by slice sampling);
        # no pending evaluations (GaussProcMCMCEstimator draws n_samples fantasies but keeps
        # (n_samples - n_burnin) // n_thinning states, which its own assertion rejects)
        ard, warp, _, _ = CELLS[(i * 5 + i // 16) % len(CELLS)]
        out.append(
            {
                "kind": "acq", "seed": base + 700000 + i, "n": int(rng.integers(3, 21)), "d": int(rng.integers(1, 5)),
                "ard": ard, "warp": warp, "mean": "scalar", "transform": "id", "npend": 0, "nfant": 1,
                "fit": True, "xpoints": sz["acq_x"], "feas": ["mixed", "all", "none"][i % 3],
                "order": "first" if i % 4 == 0 else "last", "mcmc": True,
                # retained samples per output model (target, cost, constraint); differ in half of the cases
                "mcmc_states": [int(rng.integers(2, 6))] * 3 if i % 2 else [int(rng.integers(2, 6)) for _ in range(3)],
            }
        )
    for i in range(sz["syn"]):
        # hand-written Predictors (public interface) in the degenerate-variance regime of get_quantiles
        out.append(
            {
                "kind": "syn", "seed": base + 800000 + i, "d": int(rng.integers(1, 5)), "n": int(rng.integers(2, 8)),
                "nf": [1, 1, 3, 5][i % 4], "std": SYN_STDS[i % len(SYN_STDS)], "xpoints": 4,
                "order": "last" if (i // 6) % 2 else "first",
            }
        )
    for i in range(sz["ops"]):
        out.append({"kind": "ops", "seed": base + 900000 + i, "n": int(rng.integers(1, 13))})
    # interleave the kinds so that every shard gets a similar mix
    order = rng.permutation(len(out))
    return [out[j] for j in order]


def floors(tier):
    """Calibrated on the unchanged tree (seeds 0..4, minimum over the seeds, ~25-30 % margin)."""
    m = 1 if tier == "quick" else 7
    f = {}
    for c in CELLS:
        f["decided:crit_point:" + _cell_name(*c)] = 50 * m
    f["decided:crit_point"] = 900 * m
    f["decided:crit_point:verbose_true"] = 400 * m
    f["decided:crit_point:verbose_false"] = 400 * m
    f["reach:verbose_log_records"] = 1000 * m
    f["reach:jitter_loop_taken"] = 2000 * m
    f["crit_points_jitter_loop_taken"] = 40 * m
    f["decided:crit_grad_under_jitter:noise_variance"] = 50 * m
    f["decided:op:AddJitterOp_jitter_loop"] = 60 * m
    f["decided:op:AddJitterOp_jitter_loop_slope"] = 30 * m
    f["decided:AddJitterOp_output_structure"] = 50000 * m
    # gradient components judged at exact special internal values (bounds, 0.0, 1.0), per parameter kind
    for pc, k in (("noise_variance", 300), ("covariance_scale", 300), ("inverse_bandwidths", 600), ("mean_value", 80),
                  ("boxcox_lambda", 200), ("power_a", 350), ("power_b", 350)):
        f["decided:crit_special:" + pc] = k * m
    f["decided:crit_special:boxcox_lambda:zero"] = 40 * m  # lambda == 0.0 exactly, free parameter
    f["decided:crit_special:boxcox_lambda:fixed_zero"] = 35 * m  # lambda == 0.0, fixed (n < 5, initial value 0)
    f["decided:crit_special:boxcox_lambda:one"] = 25 * m
    f["decided:crit_special:boxcox_lambda:lower_bound"] = 40 * m
    f["decided:crit_special:boxcox_lambda:upper_bound"] = 35 * m
    f["decided:crit_value"] = 2000 * m
    f["decided:crit_value_incl_priors"] = 1000 * m
    f["decided:crit_grad_component"] = 6500 * m
    for pc in ("noise_variance", "covariance_scale", "inverse_bandwidths", "mean_value", "boxcox_lambda", "power_a", "power_b"):
        f["decided_nonzero:crit_grad:" + pc] = 200 * m
    for a in ("EI", "LCB", "EIpu", "CEI"):
        f["decided:acq_point:" + a] = 300 * m
        f["decided:acq_point:fantasies_gt1:" + a] = 150 * m
    f["decided:acq_point:fantasies_gt1"] = 800 * m
    for a in ("EIpu", "CEI"):
        f["decided:acq_point:active_not_first:" + a] = 150 * m
        f["decided:acq_point:mcmc_active_not_first:" + a] = 60 * m
    f["decided:acq_point:mcmc"] = 300 * m
    for a in ("EI", "LCB", "EIpu", "CEI"):
        f["decided:acq_point:older_predictor_after_refit:" + a] = 40 * m
    for a in ("EI", "EIpu", "CEI"):
        f["decided:acq_point:std_below_floor:" + a] = 120 * m
        f["decided:acq_point:std_at_floor:" + a] = 40 * m
        f["decided:acq_point:std_just_above_floor:" + a] = 80 * m
        f["decided:syn_closed_form:std_below_floor:" + a] = 200 * m
    f["decided:ei_closed_form:std_below_floor:gp"] = 20 * m
    for a in ("EI", "LCB", "EIpu", "CEI"):
        f["decided:acq_point:after_foreign_predictor_call:" + a] = 150 * m
        f["decided:acq_value_history_independent:" + a] = 400 * m
    f["decided:acq_value_same_as_before_foreign_call"] = 500 * m
    f["decided:ei_closed_form:after_foreign_predictor_call"] = 400 * m
    f["decided:acq_foreign_value"] = 3000 * m
    f["decided:ei_closed_form:mcmc"] = 100 * m
    f["decided:acq_point:CEI:none_feasible"] = 100 * m
    f["decided:acq_point:CEI:mixed"] = 15 * m
    f["decided:ei_closed_form"] = 600 * m
    f["decided:ei_closed_form:fantasies_gt1"] = 400 * m
    f["decided:ei_nonneg"] = 1800 * m
    f["decided:acq_value"] = 2400 * m
    f["decided:op:cholesky_factorization"] = 1400 * m
    f["decided:op:AddJitterOp"] = 800 * m
    f["decided:op:chained"] = 1200 * m
    f["reach:cholesky_factorization_backward"] = 5000 * m
    f["reach:_postprocess_gradient"] = 5000 * m
    f["reach:backward_gradient_given_predict"] = 3000 * m
    f["reach:get_quantiles"] = 5000 * m
    return f


# ----------------------------------------------------------------------------------- helpers
def _pclass(name):
    """'squareddistance3_inverse_bandwidths_internal' -> 'inverse_bandwidths' (stable key)."""
    s = name.split("_", 1)[1] if "_" in name else name
    return re.sub(r"_internal$", "", s)


def _judge(g, d, atol, rtol):
    """-> ('inconclusive'|'held'|'violated', tol). g: component returned by the code; d: fd.Deriv."""
    if d is None or not d.finite:
        return "inconclusive", float("nan")
    tol = atol + rtol * max(abs(g) if math.isfinite(g) else 0.0, abs(d.value))
    if not d.trusted or not (TRUST * d.err <= tol):
        return "inconclusive", tol
    if not math.isfinite(g):
        return "violated", tol
    return ("held" if abs(g - d.value) <= tol else "violated"), tol


def _ratio_class(g, r):
    """Stable description of *how* a gradient component is wrong (part of the mechanism key)."""
    if not math.isfinite(g):
        return "nonfinite"
    if r == 0 or abs(r) < 1e-300:
        return "nonzero_where_zero"
    q = g / r
    if abs(g) <= 1e-6 * abs(r):
        return "zero_where_nonzero"
    for name, val in (("x2", 2.0), ("x0.5", 0.5), ("sign", -1.0)):
        if abs(q - val) <= 1e-3 * abs(val):
            return name
    return "other"


# ===================================================================================== crit
def _gen_data(rng, n, d, positive):
    X = rng.uniform(size=(n, d))
    dup = False
    if n >= 3 and rng.random() < 0.12:
        X[-1] = np.clip(X[0] + rng.normal(scale=10 ** rng.uniform(-6, -3), size=d), 0.0, 1.0)
        dup = True
    w = rng.normal(size=d) * 3
    f = np.sin(X @ w) + 0.5 * (X**2) @ rng.normal(size=d) + 0.1 * rng.normal(size=n)
    if positive:
        y = np.exp(rng.uniform(0.2, 1.5) * f) * 10 ** rng.uniform(-2, 2)
        if rng.random() < 0.1:
            y[int(rng.integers(n))] = 10 ** rng.uniform(-12, -8)  # at / below the target threshold
    else:
        y = f * 10 ** rng.uniform(-1, 1) + rng.normal() * 3
        if rng.random() < 0.7:  # as transform_state_to_data does
            y = (y - np.mean(y)) / max(float(np.std(y)), 1e-9)
    return X, y.reshape(-1, 1), dup


def _warp_ranges(rng, d):
    if d == 1 or rng.random() < 0.5:
        return [(0, d)]
    l = int(rng.integers(0, d))
    r = int(rng.integers(l + 1, d + 1))
    out = [(l, r)]
    if r < d and rng.random() < 0.5:
        l2 = int(rng.integers(r, d))
        out.append((l2, int(rng.integers(l2 + 1, d + 1))))
    return out


def _make_likelihood(rng, d, ard, warp, mean, transform, enc, boxcox_init=None):
    from syne_tune.optimizer.schedulers.searchers.bayesopt.gpautograd.kernel import Matern52
    from syne_tune.optimizer.schedulers.searchers.bayesopt.gpautograd.warping import Warping, WarpedKernel
    from syne_tune.optimizer.schedulers.searchers.bayesopt.gpautograd.mean import ScalarMeanFunction, ZeroMeanFunction
    from syne_tune.optimizer.schedulers.searchers.bayesopt.gpautograd.target_transform import BoxCoxTargetTransform
    from syne_tune.optimizer.schedulers.searchers.bayesopt.gpautograd.likelihood import (
        GaussianProcessMarginalLikelihood,
    )

    kernel = Matern52(d, ARD=bool(ard), encoding_type=enc)
    ranges = None
    if warp:
        ranges = _warp_ranges(rng, d)
        kernel = WarpedKernel(kernel, [Warping(d, r, encoding_type=enc) for r in ranges])
    lik = GaussianProcessMarginalLikelihood(
        kernel=kernel,
        mean=ScalarMeanFunction() if mean == "scalar" else ZeroMeanFunction(),
        target_transform=BoxCoxTargetTransform(initial_boxcox_lambda=boxcox_init) if transform == "boxcox" else None,
        encoding_type=enc,
    )
    return lik, ranges


def _sample_internal(rng, enc, size, regime):
    """One parameter (vector of ``size``) inside its internal box constraints."""
    lo, hi = enc.constraints_internal
    lo_e, hi_e = enc.constraints
    if lo is not None and hi is not None:
        lo, hi = float(lo), float(hi)
        if lo == hi:
            return np.full(size, lo)
        u = rng.uniform(lo, hi, size=size)
        if regime == "edge":
            pick = rng.random(size)
            u = np.where(pick < 0.25, lo, np.where(pick < 0.5, hi, u))
        elif regime == "moderate":
            c = float(np.reshape(enc.init_val_int, (-1,))[0])
            u = np.clip(c + 0.2 * (hi - lo) * rng.uniform(-1, 1, size=size), lo, hi)
        elif regime == "special":
            # exact special values inside the box: the bounds, internal 0.0 (Box-Cox lambda 0 = log
            # transform; exp-encoded parameter 1.0), 1.0 (Box-Cox lambda 1 = shift)
            cands = [lo, hi] + [v for v in (0.0, 0.0, 1.0) if lo <= v <= hi]
            pick = rng.integers(0, len(cands) + 1, size=size)
            u = np.array([cands[k] if k < len(cands) else u[j] for j, k in enumerate(pick)], dtype=float)
        return u
    if hi is not None:  # 'positive' (softplus) encoding: lower bound enforced by the encoding
        lo_v = max(float(lo_e if lo_e is not None else getattr(enc, "lower", 0.0)), 1e-12) * 1.01
        hi_v = float(hi_e)
        if regime == "moderate":
            v = np.exp(rng.uniform(math.log(max(lo_v, 1e-3)), math.log(min(hi_v, 10.0)), size=size))
        else:
            v = np.exp(rng.uniform(math.log(lo_v), math.log(hi_v), size=size))
            if regime == "edge":
                v = np.where(rng.random(size) < 0.25, hi_v, v)
            if regime == "special":
                pick = rng.random(size)
                v = np.where(pick < 0.3, hi_v, np.where((pick < 0.6) & (lo_v < 1.0 < hi_v), 1.0, v))
        return np.array([float(enc.decode(float(x), "v")) for x in v])
    # unconstrained (scalar mean value)
    w = 1.0 if regime == "moderate" else 3.0
    u = rng.uniform(-w, w, size=size)
    if regime == "special":
        pick = rng.integers(0, 4, size=size)
        u = np.where(pick == 0, 0.0, np.where(pick == 1, 1.0, np.where(pick == 2, -1.0, u)))
    return u


def _special_kind(enc, v):
    """Is the internal value ``v`` of a parameter component an exact special value?"""
    lo, hi = enc.constraints_internal
    if lo is not None and hi is not None and float(lo) == float(hi):
        return "fixed_zero" if v == 0.0 else "fixed"
    if lo is not None and v == float(lo):
        return "lower_bound"
    if hi is not None and v == float(hi):
        return "upper_bound"
    if v == 0.0:
        return "zero"
    if v == 1.0:
        return "one"
    return None


class _Crit:
    """Plain (no autograd) evaluation of the criterion at a flat parameter vector, laid out as
    documented for ``apply_lbfgs``: parameters sorted by name, each flattened."""

    def __init__(self, lik, data, pdict):
        from syne_tune.optimizer.schedulers.searchers.bayesopt.gpautograd.optimization_utils import (
            add_regularizer_to_criterion,
        )

        self.lik, self.data, self.pdict = lik, data, pdict
        self.names = sorted(pdict)
        self.sizes = [int(np.prod(pdict[k].data().shape)) for k in self.names]
        self.offsets = np.concatenate([[0], np.cumsum(self.sizes)]).astype(int)
        self._areg = add_regularizer_to_criterion
        self.jitter_on_last = False
        self.evals = 0

    def set_plain(self, vec):
        for k, a, b in zip(self.names, self.offsets[:-1], self.offsets[1:]):
            self.pdict[k].set_data(np.array(vec[a:b], dtype=float))

    def __call__(self, vec):
        self.set_plain(vec)
        j0 = _SPY["jitter_events"]
        v = self._areg(self.lik, [self.data])
        self.jitter_on_last = _SPY["jitter_events"] > j0
        self.jitter_level = _SPY["last_jitter"] if self.jitter_on_last else 0.0
        self.evals += 1
        return float(np.reshape(v, (-1,))[0])

    def priors_by_hand(self, vec):
        """criterion(data) + sum over param_encoding_pairs of regularizer(encoded parameter)."""
        self.set_plain(vec)
        total = float(np.reshape(self.lik(self.data), (-1,))[0])
        nreg = 0
        for p, enc in self.lik.param_encoding_pairs():
            if enc.regularizer is not None:
                total += float(np.reshape(enc.regularizer(enc.get(np.array(p.data(), dtype=float))), (-1,))[0])
                nreg += 1
        return total, nreg

    def comp_name(self, i):
        k = int(np.searchsorted(self.offsets, i, side="right") - 1)
        return self.names[k]


def _value_equal(a, b, extra_abs=0.0):
    if not (math.isfinite(a) and math.isfinite(b)):
        return (math.isnan(a) and math.isnan(b)) or a == b
    return abs(a - b) <= VALUE_RTOL * max(abs(a), abs(b)) + extra_abs


def _raised_mech(e, enc_type, vec):
    mech = f"raised:lbfgs_objective:{type(e).__name__}"
    if enc_type == "positive" and np.any(np.asarray(vec) > 709.0):
        # log1p(exp(x)) of the softplus encoding overflows for internal values > ~709.78
        mech += ":softplus_encoding_internal_value_gt_709"
    return mech


def _run_crit(spec, o):
    from syne_tune.optimizer.schedulers.searchers.bayesopt.gpautograd.optimization_utils import (
        create_lbfgs_arguments,
    )

    rng = np.random.default_rng([spec["seed"], 1])
    n, d = spec["n"], spec["d"]
    cell = _cell_name(spec["ard"], spec["warp"], spec["mean"], spec["transform"])
    enc_type = spec.get("enc", "logarithm")
    sing = spec.get("singular")
    if sing:
        X = np.linspace(0.0, 1.0, sing["grid"]).reshape(-1, 1)
        X = np.vstack([X, X[rng.integers(0, sing["grid"], size=sing["dup"])]])
        y = np.sin(3.0 * X[:, 0:1] + rng.uniform(0, 3)) + 0.1 * rng.normal(size=(X.shape[0], 1))
        y = (y - np.mean(y)) / float(np.std(y))
        n, dup = X.shape[0], True
        o.count("crit_cases_singular_arm")
    else:
        X, y, dup = _gen_data(rng, n, d, positive=spec["transform"] == "boxcox")
    verbose = bool(spec.get("verbose", False))
    lik, ranges = _make_likelihood(rng, d, spec["ard"], spec["warp"], spec["mean"], spec["transform"], enc_type, spec.get("boxcox_init"))
    lik.reset_params(np.random.RandomState(spec["seed"] % (2**31)))  # what GaussianProcessRegression.__init__ does
    data = {"features": X, "targets": y}
    lik.on_fit_start(data)  # what GaussianProcessOptimizeModel.fit does first
    f0_, pdict = create_lbfgs_arguments(criterion=lik, crit_args=[data], verbose=verbose)
    log_records = []

    def f(v_):
        """The SciPy objective; with verbose on, the log records it emits are captured (logging is
        silenced globally by the harness otherwise)."""
        if not verbose:
            return f0_(v_)
        import logging as _lg
        from syne_tune.optimizer.schedulers.searchers.bayesopt.gpautograd import optimization_utils as _ou

        class _H(_lg.Handler):
            def emit(self, record):
                log_records.append(record.getMessage()[:200])

        h_, lvl, dis = _H(), _ou.logger.level, _lg.root.manager.disable
        _ou.logger.addHandler(h_)
        _ou.logger.setLevel(_lg.INFO)
        _lg.disable(_lg.NOTSET)
        prop = _ou.logger.propagate
        _ou.logger.propagate = False
        try:
            return f0_(v_)
        finally:
            _ou.logger.propagate = prop
            _lg.disable(dis)
            _ou.logger.setLevel(lvl)
            _ou.logger.removeHandler(h_)

    vtag = ":verbose" if verbose else ""
    crit = _Crit(lik, data, pdict)
    encs = {p.name: e for p, e in lik.param_encoding_pairs()}
    assert set(encs) == set(crit.names), (sorted(encs), crit.names)
    o.count("crit_cases")
    o.count("enc:" + enc_type)
    if dup:
        o.count("crit_cases_with_near_duplicate_rows")
    nvec = int(crit.offsets[-1])
    vecs = spec.get("vecs")
    decided_any, obs_sig = False, []
    npoints = len(vecs) if vecs else spec["points"]
    for pi in range(npoints):
        regime = ["uniform", "special", "edge", "moderate", "uniform", "special"][pi % 6]
        if vecs:
            vec = np.array(vecs[pi], dtype=float)
            regime = "given"
        else:
            vec = np.concatenate([_sample_internal(rng, encs[k], s, regime) for k, s in zip(crit.names, crit.sizes)])
            if sing:
                for k_, a_, b_ in zip(crit.names, crit.offsets[:-1], crit.offsets[1:]):
                    lo_, hi_ = encs[k_].constraints_internal
                    pc_ = _pclass(k_)
                    if pc_ == "noise_variance":
                        vec[a_:b_] = [float(lo_), math.log(2e-9), math.log(10 ** rng.uniform(-9, -8))][int(rng.integers(3))]
                    elif pc_ == "covariance_scale":
                        vec[a_:b_] = float(hi_) if rng.random() < 0.6 else math.log(rng.uniform(200.0, 1000.0))
                    elif pc_ == "inverse_bandwidths":
                        vec[a_:b_] = math.log(10 ** rng.uniform(-2.0, -1.0))
                regime = "singular"
        assert vec.shape == (nvec,)
        o.count("crit_points")
        o.ev("crit_point", cell, regime, [float(v) for v in vec])
        j0 = _SPY["jitter_events"]
        try:
            val, grad = f(np.array(vec))
        except Exception as e:  # noqa: BLE001
            o.violate("criterion_gradient", _raised_mech(e, enc_type, vec),
                      {"cell": cell, "enc": enc_type, "vec": vec, "params": crit.names, "error": repr(e)[:300], "n": n, "d": d})
            continue
        jitter = _SPY["jitter_events"] > j0
        jit0 = _SPY["last_jitter"] if jitter else 0.0
        val = float(np.reshape(val, (-1,))[0])
        grad = np.array(grad, dtype=float).reshape(-1)
        if grad.shape != (nvec,):
            o.violate("criterion_gradient", "crit_grad_wrong_shape", {"shape": grad.shape, "nvec": nvec})
            continue
        # ---- value returned with the gradient == value returned alone (same parameters)
        alone = crit(vec)
        if not math.isfinite(val) and not math.isfinite(alone):
            o.inconclusive("crit_value_nonfinite")
            obs_sig.append((regime, "nonfinite"))
            continue
        o.count("decided:crit_value")
        band = 1e-12 * max(1.0, abs(val))
        if not _value_equal(val, alone, band):
            o.violate("value_with_gradient_equals_value_alone", "crit_value_differs_from_add_regularizer_to_criterion",
                      {"cell": cell, "with_grad": val, "alone": alone, "vec": vec})
        elif val != alone:
            o.count("roundoff_band:crit_value")
        byhand, nreg = crit.priors_by_hand(vec)
        o.count("decided:crit_value_incl_priors")
        o.count("regularizer_terms", nreg)
        if not _value_equal(val, byhand, band * 100):
            o.violate("value_with_gradient_equals_value_alone", "crit_value_differs_from_criterion_plus_priors",
                      {"cell": cell, "with_grad": val, "criterion_plus_priors": byhand, "n_regularizers": nreg, "vec": vec})
        # ---- gradient
        if jitter != crit.jitter_on_last:
            o.count("nonsmooth:jitter_added")
            o.inconclusive("crit_point_jitter_added_inconsistently")
            obs_sig.append((regime, "jitter"))
            continue
        if jitter:
            # jitter loop taken: sigsq_final = sigsq_init + jitter with jitter = 1e-9 * max(1, mean diag K) * 10^k.
            # Piecewise constant in every parameter except the covariance scale (mean diag K), whose
            # influence on the jitter the vjp ignores on purpose: that component is not judged; the others
            # are, on stencils along which the jitter level does not change.
            o.count("nonsmooth:jitter_added")
            o.count("crit_points_jitter_loop_taken")
        rtol_pt = CRIT_RTOL_JITTER if jitter else CRIT_RTOL
        delta = fd.noise_level(crit, vec, rng)
        atol = CRIT_ATOL_REL * max(1.0, abs(val))
        n_held = n_inc = n_viol = 0
        stencil_jitter = False
        for i in range(nvec):
            e_i = np.zeros(nvec)
            e_i[i] = 1.0
            jit = {"seen": False}
            pc = _pclass(crit.comp_name(i))
            if jitter and pc == "covariance_scale":
                o.count("nonsmooth:jitter_depends_on_covariance_scale")
                n_inc += 1
                continue

            def phi(t, _e=e_i, _j=jit):
                v = crit(vec + t * _e)
                # the stencil must stay in the regime of the base point (no jitter / same jitter level)
                _j["seen"] = _j["seen"] or (abs(crit.jitter_level - jit0) > 0.3 * jit0) or (crit.jitter_on_last != jitter)  # levels differ by factors of 10
                return v

            gi = float(grad[i])
            dres = fd.best_of_ladder(phi, CRIT_STEPS_JITTER if jitter else CRIT_STEPS, delta, lambda r, _g=gi: (atol + rtol_pt * max(abs(_g) if math.isfinite(_g) else 0.0, abs(r))) / TRUST, f0=alone)
            if jit["seen"]:
                stencil_jitter = True
                n_inc += 1
                continue
            verdict, tol = _judge(gi, dres, atol, rtol_pt)
            if jitter and verdict != "inconclusive":
                o.count("decided:crit_grad_under_jitter")
                o.count("decided:crit_grad_under_jitter:" + pc)
            sk = _special_kind(encs[crit.comp_name(i)], float(vec[i]))
            if sk and verdict != "inconclusive":
                o.count("decided:crit_special:" + pc)
                o.count(f"decided:crit_special:{pc}:{sk}")
            if verdict == "inconclusive":
                n_inc += 1
                o.count("inconclusive_component:" + pc)
            elif verdict == "held":
                n_held += 1
                o.count("decided:crit_grad_component")
                o.count("decided:crit_grad:" + pc)
                if abs(dres.value) > tol:
                    decided_any = True
                    o.count("decided_nonzero:crit_grad:" + pc)
            else:
                n_viol += 1
                o.count("decided:crit_grad_component")
                o.violate(
                    "criterion_gradient",
                    f"crit_grad_mismatch:{pc}:{_ratio_class(gi, dres.value)}{(':at_' + sk) if sk else ''}{vtag}{':jitter_loop_taken' if jitter else ''}",
                    {"cell": cell, "verbose": verbose, "special_value": sk, "enc": enc_type, "param": crit.comp_name(i), "component": i, "grad": gi, "richardson": dres.value,
                     "err_estimate": dres.err, "tol": tol, "h": dres.h, "value": val, "n": n, "d": d, "vec": vec},
                )
        if stencil_jitter:
            o.count("nonsmooth:jitter_on_stencil")
        if n_inc == 0:
            o.count("decided:crit_point:" + cell)
            o.count("decided:crit_point")
            o.count("decided:crit_point:verbose_" + ("true" if verbose else "false"))
            obs_sig.append((regime, "all"))
        elif n_held + n_viol > 0:
            o.count("partly_decided:crit_point:" + cell)
            o.inconclusive("crit_point_some_components_untrustworthy")
            obs_sig.append((regime, "part"))
        else:
            o.inconclusive("crit_point_no_component_trustworthy")
            obs_sig.append((regime, "none"))
        # value equality also away from the base point (the differences above used the value alone)
        k = int(rng.integers(nvec))
        v2 = np.array(vec)
        v2[k] += 1e-3
        try:
            val2 = float(np.reshape(f(np.array(v2))[0], (-1,))[0])
            al2 = crit(v2)
            if math.isfinite(val2) or math.isfinite(al2):
                o.count("decided:crit_value")
                if not _value_equal(val2, al2, 1e-12 * max(1.0, abs(val2))):
                    o.violate("value_with_gradient_equals_value_alone", "crit_value_differs_from_add_regularizer_to_criterion",
                              {"cell": cell, "with_grad": val2, "alone": al2, "vec": v2})
        except Exception as e:  # noqa: BLE001
            o.violate("criterion_gradient", _raised_mech(e, enc_type, v2), {"cell": cell, "enc": enc_type, "vec": v2, "error": repr(e)[:300]})
    o.count("crit_evaluations", crit.evals)
    if verbose:
        o.count("reach:verbose_log_records", len(log_records))
        o.count("verbose_log_records_with_criterion", sum(1 for r_ in log_records if "criterion" in r_))
    o.set_sig(["crit", cell, enc_type, verbose, spec.get("boxcox_init"), min(n // 5, 4), d, ranges, sorted(set(obs_sig))], nontrivial=decided_any)
    o.sample = {"kind": "crit", "cell": cell, "enc": enc_type, "n": n, "d": d, "warp_ranges": ranges, "n_params": nvec,
                "points": obs_sig, "param_names": [_pclass(k) for k in crit.names]}


# ===================================================================================== acq
def _build_state(rng, spec, extra=0):
    from syne_tune.config_space import uniform
    from syne_tune.optimizer.schedulers.searchers.utils.hp_ranges_factory import make_hyperparameter_ranges
    from syne_tune.optimizer.schedulers.searchers.bayesopt.utils.test_objects import create_tuning_job_state

    n, d, npend = spec["n"], spec["d"], spec["npend"]
    n1 = n
    n = n + extra  # rows [0:n1] observed in the first state, [n1:n] observed later, [n:] pending
    hp_ranges = make_hyperparameter_ranges({f"x{i}": uniform(0.0, 1.0) for i in range(d)})
    Xall = rng.uniform(size=(n + npend, d))
    if n >= 3 and rng.random() < 0.1:
        Xall[1] = np.clip(Xall[0] + rng.normal(scale=1e-3, size=d), 0, 1)
    w = rng.normal(size=d) * 3
    f = np.sin(Xall @ w) + 0.5 * (Xall**2) @ rng.normal(size=d) + 0.1 * rng.normal(size=n + npend)
    positive = spec["transform"] == "boxcox"
    if positive:
        y = np.exp(rng.uniform(0.2, 1.2) * f) * 10 ** rng.uniform(-1, 1)
    else:
        y = f * 10 ** rng.uniform(-1.5, 1.5) + rng.normal() * 3
    if spec.get("tiny"):
        y = (f + rng.normal()) * 1e-8 * rng.uniform(0.3, 3.0)
    cost = np.exp(0.7 * (Xall @ rng.normal(size=d)) + 0.1 * rng.normal(size=n + npend)) * 10 ** rng.uniform(-1, 2)
    g = Xall @ rng.normal(size=d) + 0.05 * rng.normal(size=n + npend)
    g = g - np.mean(g[:n])
    feas = spec.get("feas", "mixed")
    if feas == "all":
        g = g - np.max(g) - 0.3 * (np.std(g) + 0.1)
    elif feas == "none":
        g = g - np.min(g) + 0.3 * (np.std(g) + 0.1)
    elif feas == "edge":  # observed candidates just infeasible: feasibility hinges on the fantasised pending ones
        g = g - np.min(g[:n]) + 0.02 * (np.std(g) + 0.1)
    configs = [{f"x{i}": float(Xall[r, i]) for i in range(d)} for r in range(n + npend)]
    metrics = [{_TARGET: float(y[r]), _COST: float(cost[r]), _CONSTR: float(g[r])} for r in range(n)]
    if extra:
        state2 = create_tuning_job_state(
            hp_ranges=hp_ranges, cand_tuples=[dict(c) for c in configs[:n]], metrics=[dict(m_) for m_ in metrics],
            pending_tuples=[dict(c) for c in configs[n:]] if (npend and spec.get("refit_keeps_pending", True)) else None,
        )
        state = create_tuning_job_state(
            hp_ranges=hp_ranges, cand_tuples=[dict(c) for c in configs[:n1]], metrics=[dict(m_) for m_ in metrics[:n1]],
            pending_tuples=[dict(c) for c in configs[n:]] if npend else None,
        )
        return state, hp_ranges, np.vstack([Xall[:n1], Xall[n:]]), state2
    state = create_tuning_job_state(
        hp_ranges=hp_ranges, cand_tuples=[dict(c) for c in configs[:n]], metrics=metrics,
        pending_tuples=[dict(c) for c in configs[n:]] if npend else None,
    )
    return state, hp_ranges, Xall


def _build_predictor(rng, spec, state, hp_ranges, metric, boxcox, normalize, fit, seed):
    from syne_tune.optimizer.schedulers.searchers.bayesopt.gpautograd.constants import OptimizationConfig
    from syne_tune.optimizer.schedulers.searchers.bayesopt.gpautograd.gp_regression import GaussianProcessRegression
    from syne_tune.optimizer.schedulers.searchers.bayesopt.gpautograd.kernel import Matern52
    from syne_tune.optimizer.schedulers.searchers.bayesopt.gpautograd.mean import ZeroMeanFunction
    from syne_tune.optimizer.schedulers.searchers.bayesopt.gpautograd.target_transform import BoxCoxTargetTransform
    from syne_tune.optimizer.schedulers.searchers.bayesopt.gpautograd.warping import kernel_with_warping
    from syne_tune.optimizer.schedulers.searchers.bayesopt.models.gp_model import GaussProcEmpiricalBayesEstimator

    d = spec["d"]
    kernel = Matern52(d, ARD=bool(spec["ard"]))
    if spec["warp"]:
        kernel = kernel_with_warping(kernel, hp_ranges)
    gpmodel = GaussianProcessRegression(
        kernel=kernel,
        mean=ZeroMeanFunction() if spec["mean"] == "zero" else None,
        target_transform=BoxCoxTargetTransform() if boxcox else None,
        optimization_config=OptimizationConfig(lbfgs_tol=1e-6, lbfgs_maxiter=int(rng.integers(5, 40)), verbose=False, n_starts=int(rng.integers(1, 3))),
        random_seed=int(seed % (2**31)),
    )
    est = GaussProcEmpiricalBayesEstimator(
        active_metric=metric, gpmodel=gpmodel, num_fantasy_samples=spec["nfant"], normalize_targets=normalize,
    )
    if not fit:
        regime = "moderate" if rng.random() < 0.6 else "uniform"
        lik = gpmodel.likelihood
        for p, enc in lik.param_encoding_pairs():
            p.set_data(_sample_internal(rng, enc, int(np.prod(p.data().shape)), regime))
    j0 = _SPY["jitter_events"]
    pred = est.fit_from_state(state, update_params=bool(fit))
    _LAST_EST["est"] = est
    return pred, _SPY["jitter_events"] > j0


_LAST_EST = {}


def _build_predictor_mcmc(rng, spec, state, hp_ranges, metric, normalize, n_states, seed):
    """GaussProcPredictor with ``n_states`` posterior states (one per retained MCMC sample, each with
    its own hyper-parameters) through the library's own MCMC path."""
    from syne_tune.optimizer.schedulers.searchers.bayesopt.gpautograd.constants import MCMCConfig
    from syne_tune.optimizer.schedulers.searchers.bayesopt.gpautograd.gpr_mcmc import GPRegressionMCMC
    from syne_tune.optimizer.schedulers.searchers.bayesopt.gpautograd.kernel import Matern52
    from syne_tune.optimizer.schedulers.searchers.bayesopt.gpautograd.warping import kernel_with_warping
    from syne_tune.optimizer.schedulers.searchers.bayesopt.models.gp_mcmc_model import GaussProcMCMCEstimator

    d = spec["d"]

    def build_kernel():
        kernel = Matern52(d, ARD=bool(spec["ard"]))
        return kernel_with_warping(kernel, hp_ranges) if spec["warp"] else kernel

    burn, thin = int(rng.integers(1, 4)), int(rng.integers(1, 3))
    cfg = MCMCConfig(n_samples=burn + thin * n_states, n_burnin=burn, n_thinning=thin)
    gpmodel = GPRegressionMCMC(build_kernel=build_kernel, mcmc_config=cfg, random_seed=int(seed % (2**31)))
    est = GaussProcMCMCEstimator(gpmodel=gpmodel, active_metric=metric, normalize_targets=normalize)
    j0 = _SPY["jitter_events"]
    pred = est.fit_from_state(state, update_params=True)
    return pred, _SPY["jitter_events"] > j0


def _sample_x(rng, d, Xall, k):
    lo, hi = X_MARGIN, 1.0 - X_MARGIN
    mode = k % 5
    if mode == 3:  # close to a data point (small predictive variance)
        x = Xall[int(rng.integers(Xall.shape[0]))] + rng.normal(scale=10 ** rng.uniform(-4, -1.5), size=d)
    elif mode == 4:  # (almost) on a data point: variance / std clamps may be active
        x = Xall[int(rng.integers(Xall.shape[0]))] + rng.normal(scale=10 ** rng.uniform(-8, -4), size=d)
    elif mode == 2:  # close to the boundary of the cube
        x = rng.uniform(lo, hi, size=d)
        j = int(rng.integers(d))
        x[j] = lo if rng.random() < 0.5 else hi
    else:
        x = rng.uniform(lo, hi, size=d)
    return np.clip(x, lo, hi)


def _stencil(x, steps):
    d = x.size
    rows = []
    for h in steps:
        for i in range(d):
            for t in (h, -h, 0.5 * h, -0.5 * h):
                r = x.copy()
                r[i] += t
                rows.append(r)
    return np.array(rows)


def _clamps_active(preds, names, rows):
    """Which deliberately non-smooth guards are active anywhere on the stencil."""
    from syne_tune.optimizer.schedulers.searchers.bayesopt.gpautograd.constants import MIN_POSTERIOR_VARIANCE
    from syne_tune.optimizer.schedulers.searchers.bayesopt.models.meanstd_acqfunc_impl import MIN_COST

    out = set()
    for nm in names:
        p = preds[nm]
        for st in p.posterior_states:
            norm_var = np.asarray(st.predict(rows)[1], dtype=float)
            if np.any(norm_var <= MIN_POSTERIOR_VARIANCE * (1 + 1e-9)):
                out.add("variance_clamp:" + nm)
        for pr in p.predict(rows):
            if nm == _TARGET and np.any(np.asarray(pr["std"]) <= 1e-10 * (1 + 1e-6)):
                out.add("std_clamp")
            if nm == _COST and np.any(np.asarray(pr["mean"]) <= MIN_COST * (1 + 1e-6)):
                out.add("cost_clamp")
    return out


def _sqdist_guard_active(pred, x):
    """``SquaredDistance.forward`` returns ``abs(D)`` to guard against round-off: where the squared
    distance between ``x`` and a training input is itself at round-off level, the sign of the computed
    ``D`` (and with it the derivative autograd assigns to ``abs``) is arbitrary. Detected with the
    model's own blocks (read-only): ``|D| <= 256 eps (|x_scaled|^2 + |X_i scaled|^2)``."""
    return any(_sqdist_guard_active_state(st, x) for st in pred.posterior_states)


def _sqdist_guard_active_state(st, x):
    kernel = st.kernel[0] if isinstance(st.kernel, tuple) else st.kernel
    X = np.asarray(st.features, dtype=float)
    R = np.asarray(x, dtype=float).reshape(1, -1)
    try:
        base = kernel
        if hasattr(kernel, "warpings"):
            for w in kernel.warpings:
                X, R = np.asarray(w(X)), np.asarray(w(R))
            base = kernel.kernel
        sq = base.squared_distance
        ib = np.reshape(np.asarray(sq._inverse_bandwidths(), dtype=float), (1, -1))
        dabs = np.asarray(sq(X, R), dtype=float).reshape(-1)
        norm2 = np.sum((X * ib) ** 2, axis=1) + np.sum((R * ib) ** 2)
        return bool(np.any(dabs <= 256 * np.finfo(float).eps * norm2))
    except Exception:  # noqa: BLE001 - unknown kernel structure: be conservative
        return True


def _run_acq(spec, o):
    from scipy.stats import norm
    from syne_tune.optimizer.schedulers.searchers.bayesopt.models.meanstd_acqfunc_impl import (
        EIAcquisitionFunction, LCBAcquisitionFunction, EIpuAcquisitionFunction, CEIAcquisitionFunction,
    )

    rng = np.random.default_rng([spec["seed"], 2])
    d = spec["d"]
    cell = _cell_name(spec["ard"], spec["warp"], spec["mean"], spec["transform"])
    refit = spec.get("refit") if not spec.get("mcmc") else None
    state2 = None
    if refit:
        state, hp_ranges, Xall, state2 = _build_state(rng, spec, extra=int(refit["extra"]))
    else:
        state, hp_ranges, Xall = _build_state(rng, spec)
    boxcox = spec["transform"] == "boxcox"
    mcmc = bool(spec.get("mcmc"))
    order = spec.get("order", "first")
    preds, jit_build, newer = {}, {}, {}
    for k, metric in enumerate((_TARGET, _COST, _CONSTR)):
        bc = boxcox if metric == _TARGET else False
        normalize = (not bc) and (rng.random() < 0.8) if metric != _COST else False
        if spec.get("tiny") and metric == _TARGET:
            normalize = True
        try:
            if mcmc:
                preds[metric], jit_build[metric] = _build_predictor_mcmc(
                    rng, spec, state, hp_ranges, metric, normalize, spec["mcmc_states"][k], spec["seed"] + k)
            else:
                preds[metric], jit_build[metric] = _build_predictor(
                    rng, spec, state, hp_ranges, metric, bc, normalize, spec["fit"], spec["seed"] + k)
                if refit:
                    # the SAME estimator (sharing its live gpmodel) is fitted again on a later state with more
                    # data; the acquisition functions below are built over the OLDER predictor objects
                    newer[metric] = _LAST_EST["est"].fit_from_state(state2, update_params=bool(refit["update_params"]))
        except Exception as e:  # noqa: BLE001 - building the surrogate is set-up, not the property
            o.inconclusive("acq_predictor_build_failed:" + type(e).__name__)
            o.set_sig(["acq", "build_failed", type(e).__name__], False)
            o.sample = {"kind": "acq", "build_failed": repr(e)[:200]}
            return
    o.count("acq_cases")
    if refit:
        o.count("acq_cases:refit")
    o.count("acq_cases:mcmc" if mcmc else ("acq_cases:fit" if spec["fit"] else "acq_cases:random_params"))
    nf = spec["nfant"] if spec["npend"] > 0 else 1
    nstates = {k: len(p.posterior_states) for k, p in preds.items()}
    multi_state = any(v > 1 for v in nstates.values())
    tag = "mcmc" if multi_state else ("nf_gt1" if nf > 1 else "nf1")

    def pdict(second):
        # the caller's dict order is free: "If model is a dict mapping output names to models, then
        # active_metric must be given" (MeanStdAcquisitionFunction)
        return {_TARGET: preds[_TARGET], second: preds[second]} if order == "first" else {second: preds[second], _TARGET: preds[_TARGET]}

    if any(jit_build.values()):
        o.count("acq_cases_jitter_in_posterior_state")  # constant in x: not a non-smoothness here
    xi = [0.01, 0.01, 0.0, float(10 ** rng.uniform(-4, 0))][int(rng.integers(4))]
    if spec.get("tiny"):
        xi = [0.0, 1e-10, 1e-9, 1e-11][int(rng.integers(4))]  # "jitter scaled to the metric"
    kappa = float(rng.uniform(0.1, 4.0))
    expo = float(rng.uniform(0.05, 1.0)) if rng.random() < 0.7 else 1.0
    used_by = {"EI": [_TARGET], "LCB": [_TARGET], "EIpu": [_TARGET, _COST], "CEI": [_TARGET, _CONSTR]}

    def make_acq(name, pp, as_dict_order=order):
        """A fresh acquisition-function object of kind ``name`` on the predictors ``pp``."""
        def dd(second):
            return {_TARGET: pp[_TARGET], second: pp[second]} if as_dict_order == "first" else {second: pp[second], _TARGET: pp[_TARGET]}

        if name == "EI":
            return EIAcquisitionFunction(pp[_TARGET], jitter=xi)
        if name == "LCB":
            return LCBAcquisitionFunction(pp[_TARGET], kappa=kappa)
        if name == "EIpu":
            return EIpuAcquisitionFunction(dd(_COST), active_metric=_TARGET, exponent_cost=expo, jitter=xi)
        return CEIAcquisitionFunction(dd(_CONSTR), active_metric=_TARGET, jitter=xi)

    # ---- a second, unrelated tuning-job state on the same search space ("foreign" predictors): the
    # same acquisition-function object is asked to score inputs for it via ``predictor=`` between the
    # evaluations for its own predictor (what batch selection does with an updated model)
    rng_h = np.random.default_rng([spec["seed"], 5])
    history = spec.get("history", True)
    fpreds, Xall_f = None, None
    if history:
        try:
            spec_f = dict(spec, n=int(rng_h.integers(2, 16)), npend=int(rng_h.integers(0, 3)), nfant=int(rng_h.integers(1, 5)),
                          feas=["mixed", "all", "none"][int(rng_h.integers(3))], ard=int(rng_h.integers(2)), warp=0, mean="scalar")
            state_f, hp_f, Xall_f = _build_state(rng_h, spec_f)
            fpreds = {}
            for k, metric in enumerate((_TARGET, _COST, _CONSTR)):
                fpreds[metric], _ = _build_predictor(rng_h, spec_f, state_f, hp_f, metric, False, metric != _COST, False, spec["seed"] + 10 + k)
        except Exception as e:  # noqa: BLE001 - set-up
            o.inconclusive("acq_foreign_predictor_build_failed:" + type(e).__name__)
            fpreds = None
    acqs, acqs_ref, acqs_foreign = {}, {}, {}
    try:
        for nm_ in ("EI", "LCB", "EIpu", "CEI"):
            acqs[nm_] = (make_acq(nm_, preds), used_by[nm_])
            acqs_ref[nm_] = make_acq(nm_, preds)  # never sees a foreign predictor
            if fpreds is not None:
                acqs_foreign[nm_] = make_acq(nm_, fpreds)  # the foreign predictors' own acquisition function
    except Exception as e:  # noqa: BLE001
        o.violate("acquisition_gradient", f"raised:acquisition_constructor:{type(e).__name__}", {"error": repr(e)[:300]})
        return
    # incumbent recomputed by the harness: min of the predictive means over observed + pending candidates
    # (one incumbent vector per posterior state of the target model)
    incs = [np.min(np.asarray(pr["mean"], dtype=float).reshape(Xall.shape[0], -1), axis=0) for pr in preds[_TARGET].predict(Xall)]
    cmeans = np.hstack([np.asarray(pr["mean"], dtype=float).reshape(Xall.shape[0], -1) for pr in preds[_CONSTR].predict(Xall)])
    feas_per_f = np.any(cmeans < 0, axis=0)
    cei_regime = "all_feasible" if np.all(feas_per_f) else ("none_feasible" if not np.any(feas_per_f) else "mixed")
    cei_margin = bool(np.any(np.abs(cmeans) <= 1e-12 * max(1.0, float(np.max(np.abs(cmeans))))))
    o.count("cei_regime:" + cei_regime)
    xs_given = spec.get("xs")
    decided_any, obs_sig = False, []
    for name in spec.get("acqs", ["EI", "LCB", "EIpu", "CEI"]):
        acq, used = acqs[name]
        nx = len(xs_given) if xs_given else spec["xpoints"]
        n_foreign = 0
        for k in range(nx):
            x = np.array(xs_given[k], dtype=float) if xs_given else _sample_x(rng, d, Xall, (3 + k % 2) if (spec.get("tiny") and k) else k)
            o.count("acq_points")
            o.ev("acq_point", name, [float(v) for v in x])
            # ---- history step: the same object scores inputs for the foreign predictors
            v_pre = None
            if fpreds is not None and rng_h.random() < (0.7 if k else 0.5):
                try:
                    if k and rng_h.random() < 0.7:  # value for the own predictor just before the foreign call
                        v_pre = float(np.asarray(acq.compute_acq(np.array(x).reshape(1, -1)), dtype=float).reshape(-1)[0])
                    farg = fpreds[_TARGET] if name in ("EI", "LCB") else (
                        {_TARGET: fpreds[_TARGET], used[1]: fpreds[used[1]]} if rng_h.random() < 0.5 else {used[1]: fpreds[used[1]], _TARGET: fpreds[_TARGET]})
                    if name in ("EI", "LCB") and rng_h.random() < 0.3:
                        farg = {_TARGET: fpreds[_TARGET]}
                    xf = np.vstack([rng_h.uniform(X_MARGIN, 1 - X_MARGIN, size=(2, d)), x.reshape(1, -1)])
                    o.ev("foreign_call", name, "grad" if k % 2 else "value")
                    # (same input shapes on both sides: batched and single-row predictions differ by
                    # BLAS round-off that the far tails of EI amplify)
                    if rng_h.random() < 0.5:
                        got = np.asarray(acq.compute_acq(np.array(xf), predictor=farg), dtype=float).reshape(-1)
                        want = np.asarray(acqs_foreign[name].compute_acq(np.array(xf)), dtype=float).reshape(-1)
                    else:
                        got = np.array([float(np.reshape(acq.compute_acq_with_gradient(np.array(r), predictor=farg)[0], (-1,))[0]) for r in xf])
                        want = np.array([float(np.asarray(acqs_foreign[name].compute_acq(np.array(r).reshape(1, -1))).reshape(-1)[0]) for r in xf])
                    n_foreign += 1
                    o.count("foreign_predictor_calls")
                    o.count("decided:acq_foreign_value", len(xf))
                    for a_, b_, r_ in zip(got, want, xf):
                        if (math.isfinite(a_) or math.isfinite(b_)) and not _value_equal(float(a_), float(b_), 1e-300):
                            o.violate("value_with_gradient_equals_value_alone", f"acq_value_for_given_predictor_differs_from_its_own_acq:{name}",
                                      {"via_predictor_argument": a_, "own_acquisition_function": b_, "x": r_, "cell": cell})
                            break
                except Exception as e:  # noqa: BLE001
                    o.violate("acquisition_gradient", f"raised:compute_acq_predictor_argument:{name}:{type(e).__name__}", {"x": x, "error": repr(e)[:300], "cell": cell})
            hist = ":after_foreign_predictor_call" if n_foreign else ""
            try:
                fv, g = acq.compute_acq_with_gradient(np.array(x))
            except Exception as e:  # noqa: BLE001
                o.violate("acquisition_gradient", f"raised:compute_acq_with_gradient:{name}:{type(e).__name__}", {"x": x, "error": repr(e)[:300], "cell": cell, "nf": nf})
                continue
            fv = float(np.reshape(fv, (-1,))[0])
            g = np.array(g, dtype=float).reshape(-1)
            if g.shape != (d,):
                o.violate("acquisition_gradient", f"acq_grad_wrong_shape:{name}", {"shape": g.shape, "d": d})
                continue
            sten = _stencil(x, ACQ_STEPS)
            npts = fd.noise_points(x, rng)
            rows = np.vstack([x.reshape(1, -1), npts, sten])
            try:
                vals = np.asarray(acq.compute_acq(np.array(rows)), dtype=float).reshape(-1)
            except Exception as e:  # noqa: BLE001
                o.violate("acquisition_gradient", f"raised:compute_acq:{name}:{type(e).__name__}", {"x": x, "error": repr(e)[:300], "cell": cell, "nf": nf})
                continue
            v0 = float(vals[0])
            # ---- value with gradient == value alone (same single input; the batched value v0 may
            # differ by amplified BLAS round-off in the far tails and is only used for differencing)
            try:
                v1 = float(np.asarray(acq.compute_acq(np.array(x).reshape(1, -1)), dtype=float).reshape(-1)[0])
            except Exception as e:  # noqa: BLE001
                o.violate("acquisition_gradient", f"raised:compute_acq:{name}:{type(e).__name__}", {"x": x, "error": repr(e)[:300], "cell": cell, "nf": nf})
                continue
            # ---- same input => same value, whatever the object was asked before (a fresh object of the
            # same kind on the same predictors that never saw a foreign predictor; and the object itself
            # just before the foreign call)
            try:
                v_ref = float(np.asarray(acqs_ref[name].compute_acq(np.array(x).reshape(1, -1)), dtype=float).reshape(-1)[0])
            except Exception as e:  # noqa: BLE001
                o.violate("acquisition_gradient", f"raised:compute_acq:{name}:{type(e).__name__}", {"x": x, "error": repr(e)[:300], "cell": cell, "nf": nf})
                continue
            if n_foreign and (math.isfinite(v1) or math.isfinite(v_ref)):
                o.count("decided:acq_value_history_independent")
                o.count("decided:acq_value_history_independent:" + name)
                bad = not _value_equal(v1, v_ref, 1e-300)
                if v_pre is not None:
                    o.count("decided:acq_value_same_as_before_foreign_call")
                    bad = bad or not _value_equal(v1, v_pre, 1e-300)
                if bad:
                    o.violate("value_with_gradient_equals_value_alone", f"acq_value_changed_after_foreign_predictor_call:{name}",
                              {"after": v1, "fresh_object": v_ref, "same_object_before": v_pre, "with_grad": fv, "x": x, "cell": cell, "foreign_calls": n_foreign})
            if math.isfinite(fv) or math.isfinite(v1):
                o.count("decided:acq_value")
                o.count("decided:acq_value:" + name)
                if not _value_equal(fv, v1, 1e-300):
                    o.violate("value_with_gradient_equals_value_alone", f"acq_value_mismatch:{name}:{tag}",
                              {"with_grad": fv, "alone": v1, "alone_in_batch": v0, "x": x, "cell": cell, "nf": nf, "npend": spec["npend"]})
                elif fv != v1:
                    o.count("roundoff_band:acq_value")
            else:
                o.inconclusive("acq_value_nonfinite")
                continue
            clamps = _clamps_active(preds, used, rows)
            if name == "CEI" and cei_margin:
                clamps.add("cei_feasibility_margin")
            if any(_sqdist_guard_active(preds[nm], x) for nm in used):
                clamps.add("sqdist_abs_guard")
            if name not in ("EI", "EIpu", "CEI"):
                clamps.discard("std_clamp")  # only get_quantiles clamps the std
            # ---- EI: closed form and sign (needs the smooth regime only for the closed form)
            prs = preds[_TARGET].predict(x.reshape(1, -1))
            ms = [np.asarray(pr["mean"], dtype=float).reshape(-1) for pr in prs]
            ss = [float(np.asarray(pr["std"]).reshape(-1)[0]) for pr in prs]
            s = min(ss)
            if name in ("EI", "EIpu", "CEI") and s > 0:
                us = [(inc - m - xi) / max(s_, 1e-10) for inc, m, s_ in zip(incs, ms, ss)]
                scale = float(np.mean([np.mean(max(s_, 1e-10) * (np.abs(u) * norm.cdf(u) + norm.pdf(u))) for u, s_ in zip(us, ss)]))
                if name == "EIpu":
                    cm = np.maximum(np.hstack([np.asarray(pr["mean"], dtype=float).reshape(-1) for pr in preds[_COST].predict(x.reshape(1, -1))]), 1e-12)
                    scale = scale * float(np.max(np.power(cm, -expo)))
                if name == "CEI":
                    scale = max(scale, 1.0) if cei_regime != "all_feasible" else scale
                o.count("decided:ei_nonneg")
                o.count("decided:ei_nonneg:" + name)
                if -v1 < -4 * np.finfo(float).eps * scale or -v0 < -4 * np.finfo(float).eps * scale:
                    o.violate("expected_improvement_nonnegative", f"ei_negative:{name}", {"minus_acq": -v1, "minus_acq_in_batch": -v0, "x": x, "band_scale": scale, "cell": cell, "nf": nf})
                if name == "EI":
                    if False:
                        pass
                    else:
                        # average over posterior states of the per-state closed form (mean over fantasies);
                        # the documented floor of the std is applied consistently: s_eff = max(std, 1e-10)
                        closed = float(np.mean([np.mean((inc - m - xi) * norm.cdf(u) + max(s_, STD_FLOOR) * norm.pdf(u)) for inc, m, s_, u in zip(incs, ms, ss, us)]))
                        if s < STD_FLOOR:
                            o.count("decided:ei_closed_form:std_below_floor")
                            o.count("decided:ei_closed_form:std_below_floor:gp")
                        o.count("decided:ei_closed_form")
                        if nf > 1:
                            o.count("decided:ei_closed_form:fantasies_gt1")
                        if multi_state:
                            o.count("decided:ei_closed_form:mcmc")
                        if n_foreign:
                            o.count("decided:ei_closed_form:after_foreign_predictor_call")
                        if abs(-v1 - closed) > 1e-9 * scale + 1e-300:
                            o.violate("expected_improvement_closed_form", f"ei_closed_form_mismatch:{tag}{hist}{':std_below_floor' if s < STD_FLOOR else ''}",
                                      {"minus_acq": -v1, "closed_form": closed, "mean": ms, "std": ss, "incumbent": incs, "xi": xi, "x": x, "cell": cell})
            # ---- gradient
            if clamps:
                for c in sorted(clamps):
                    o.count("nonsmooth:" + c.split(":")[0])
                o.inconclusive("acq_point_clamp_active")
                obs_sig.append((name, "clamp"))
                continue
            if v0 == 0.0 and not np.any(g) and not np.any(vals):
                o.count("acq_trivial_zero:" + name)  # underflow regime: value and gradient identically 0
                o.inconclusive("acq_point_underflow_zero")
                obs_sig.append((name, "zero"))
                continue
            delta = fd.noise_from_values(v0, vals[1 : 1 + len(npts)])
            svals = vals[1 + len(npts):]
            atol = ACQ_ATOL_REL * abs(v0) + 1e-300
            n_inc = n_dec = 0
            for i in range(d):
                gi = float(g[i])
                derivs = []
                for li, h in enumerate(ACQ_STEPS):
                    b = (li * d + i) * 4
                    derivs.append(fd.richardson_from_values(svals[b], svals[b + 1], svals[b + 2], svals[b + 3], h, delta, f0=v0))
                # honest truncation estimate: a 10x finer step has a ~1e4 times smaller truncation
                # error; where its own round-off term is small, |R_h - R_h/10| bounds the error of R_h
                for li in range(len(derivs) - 1):
                    a, b = derivs[li], derivs[li + 1]
                    if a.finite and b.finite and b.noise <= 0.1 * max(a.err, 1e-300):
                        a.trunc = max(a.trunc, abs(a.value - b.value))
                # value quantisation seen at the next coarser step (its 4th difference) also limits the
                # finer step: far in the tail EI moves in quanta of ulp(mean) * Phi(u), and a fine
                # stencil can lie on a single quantum (all differences exactly 0)
                for li in range(len(derivs) - 1, 0, -1):
                    a, b = derivs[li - 1], derivs[li]
                    if a.finite and b.finite:
                        b.noise = max(b.noise, 3.0 * (a.d4 / 4.0) / b.h)
                dres = fd.pick(derivs, lambda r, _g=gi: (atol + ACQ_RTOL * max(abs(_g) if math.isfinite(_g) else 0.0, abs(r))) / TRUST)
                verdict, tol = _judge(gi, dres, atol, ACQ_RTOL)
                if verdict == "inconclusive":
                    n_inc += 1
                    continue
                n_dec += 1
                o.count("decided:acq_grad_component")
                if abs(dres.value) > tol:
                    decided_any = True
                    o.count("decided_nonzero:acq_grad_component:" + name)
                if verdict == "violated":
                    o.violate(
                        "acquisition_gradient",
                        f"acq_grad_mismatch:{name}:{tag}:{_ratio_class(gi, dres.value)}{':older_predictor_after_refit' if refit else ''}",
                        {"acq": name, "component": i, "grad": gi, "richardson": dres.value, "err_estimate": dres.err, "tol": tol, "h": dres.h,
                         "value": v0, "x": x, "cell": cell, "nf": nf, "npend": spec["npend"], "n": spec["n"], "d": d, "fit": spec["fit"],
                         "cei_regime": cei_regime if name == "CEI" else None, "dict_order": "active_" + order, "posterior_states": nstates},
                    )
            if n_inc == 0:
                o.count("decided:acq_point:" + name)
                o.count("decided:acq_point_cell:" + cell)
                if nf > 1:
                    o.count("decided:acq_point:fantasies_gt1")
                    o.count("decided:acq_point:fantasies_gt1:" + name)
                if multi_state:
                    o.count("decided:acq_point:mcmc")
                    if len(set(nstates[nm] for nm in used)) > 1:
                        o.count("decided:acq_point:mcmc_unequal_state_counts")
                if order == "last" and name in ("EIpu", "CEI"):
                    o.count("decided:acq_point:active_not_first:" + name)
                    if multi_state:
                        o.count("decided:acq_point:mcmc_active_not_first:" + name)
                if name == "CEI":
                    o.count("decided:acq_point:CEI:" + cei_regime)
                if refit:
                    o.count("decided:acq_point:older_predictor_after_refit")
                    o.count("decided:acq_point:older_predictor_after_refit:" + name)
                if n_foreign:
                    o.count("decided:acq_point:after_foreign_predictor_call")
                    o.count("decided:acq_point:after_foreign_predictor_call:" + name)
                obs_sig.append((name, "all" + ("+hist" if n_foreign else "")))
            elif n_dec:
                o.count("partly_decided:acq_point:" + name)
                o.inconclusive("acq_point_some_components_untrustworthy")
                obs_sig.append((name, "part"))
            else:
                o.inconclusive("acq_point_no_component_trustworthy")
                obs_sig.append((name, "none"))
    o.set_sig(["acq", cell, spec["fit"], min(spec["n"] // 5, 4), d, spec["npend"], nf, cei_regime, order, sorted(nstates.items()), sorted(set(obs_sig))], nontrivial=decided_any)
    o.sample = {"kind": "acq", "cell": cell, "n": spec["n"], "d": d, "npend": spec["npend"], "nf": nf, "fit": spec["fit"],
                "dict_order": "active_" + order, "posterior_states": nstates,
                "cei_regime": cei_regime, "xi": xi, "kappa": kappa, "exponent_cost": expo, "points": sorted(set(obs_sig))}


# ===================================================================================== syn
_SYN = {}


def _syn_predictor_class():
    """Hand-written surrogate with the public Predictor interface: linear mean (one column per
    fantasy sample), std constant (at / below the floor) or slowly varying (above), exact
    ``backward_gradient`` by the chain rule. Incumbent = BasePredictor.current_best()."""
    if "cls" in _SYN:
        return _SYN["cls"]
    from syne_tune.optimizer.schedulers.searchers.bayesopt.models.model_base import BasePredictor

    class LinearPredictor(BasePredictor):
        def __init__(self, state, metric, a, b, std0, std_slope):
            super().__init__(state, metric)
            self.a = np.asarray(a, dtype=float)  # (d,)
            self.b = np.asarray(b, dtype=float).reshape(-1)  # (nf,)
            self.std0 = float(std0)
            self.std_slope = np.asarray(std_slope, dtype=float)  # (d,), relative

        def std_at(self, inputs):
            return self.std0 * (1.0 + inputs @ self.std_slope)

        def predict(self, inputs):
            inputs = np.asarray(inputs, dtype=float)
            m = (inputs @ self.a).reshape(-1, 1) + self.b.reshape(1, -1)
            if self.b.size == 1:
                m = m.reshape(-1)
            return [{"mean": m, "std": self.std_at(inputs).reshape(-1)}]

        def backward_gradient(self, input, head_gradients):
            out = []
            for hg in head_gradients:
                g = float(np.sum(hg["mean"])) * self.a
                if "std" in hg:
                    g = g + float(np.sum(hg["std"])) * self.std0 * self.std_slope
                out.append(g)
            return out

    _SYN["cls"] = LinearPredictor
    return LinearPredictor


def _run_syn(spec, o):
    from scipy.stats import norm
    from syne_tune.optimizer.schedulers.searchers.bayesopt.models.meanstd_acqfunc_impl import (
        EIAcquisitionFunction, LCBAcquisitionFunction, EIpuAcquisitionFunction, CEIAcquisitionFunction, MIN_COST, MIN_STD_CONSTRAINT,
    )

    LP = _syn_predictor_class()
    rng = np.random.default_rng([spec["seed"], 7])
    d, nf, std0 = spec["d"], spec["nf"], float(spec["std"])
    state, hp_ranges, Xall = _build_state(rng, dict(spec, npend=0, transform="id", feas="all"))
    regime = "std_below_floor" if std0 < STD_FLOOR else ("std_at_floor" if std0 == STD_FLOOR else "std_just_above_floor")
    s_eff0 = max(std0, STD_FLOOR)
    # everything on the scale of the effective std, so that u = (best - mean - xi) / s_eff is O(1)
    msc = s_eff0 * float(rng.choice([0.3, 1.0, 3.0]))
    a = rng.normal(size=d) * msc
    b = rng.normal(size=nf) * msc * 0.5
    slope = np.zeros(d) if std0 <= STD_FLOOR else rng.uniform(-0.3, 0.3, size=d) / d  # slowly varying only above the floor
    xi = float(rng.choice([0.0, 0.1, 1.0])) * s_eff0
    kappa = float(rng.uniform(0.1, 4.0))
    expo = float(rng.uniform(0.05, 1.0)) if rng.random() < 0.7 else 1.0
    ptar = LP(state, _TARGET, a, b, std0, slope)
    nfc = nf if rng.random() < 0.5 else 1
    pcost = LP(state, _COST, rng.uniform(0.1, 1.0, size=d), rng.uniform(0.5, 2.0, size=nfc), 0.1, np.zeros(d))
    ac = rng.normal(size=d)
    pcon = LP(state, _CONSTR, ac, -np.sum(np.abs(ac)) - rng.uniform(0.1, 1.0, size=nf), float(rng.uniform(0.05, 1.0)), rng.uniform(-0.2, 0.2, size=d) / d)
    order = spec.get("order", "first")

    def dd(second, p2):
        return {_TARGET: ptar, second: p2} if order == "first" else {second: p2, _TARGET: ptar}

    try:
        acqs = {
            "EI": EIAcquisitionFunction(ptar, jitter=xi),
            "LCB": LCBAcquisitionFunction(ptar, kappa=kappa),
            "EIpu": EIpuAcquisitionFunction(dd(_COST, pcost), active_metric=_TARGET, exponent_cost=expo, jitter=xi),
            "CEI": CEIAcquisitionFunction(dd(_CONSTR, pcon), active_metric=_TARGET, jitter=xi),
        }
    except Exception as e:  # noqa: BLE001
        o.violate("acquisition_gradient", f"raised:acquisition_constructor:{type(e).__name__}", {"error": repr(e)[:300]})
        return
    o.count("syn_cases")
    o.count("syn_cases:" + regime)
    # incumbent: min over the observed candidates of the predictive mean, per fantasy sample
    inc = np.min(np.asarray(ptar.predict(Xall)[0]["mean"], dtype=float).reshape(Xall.shape[0], -1), axis=0)
    decided_any, obs_sig = False, []
    for name, acq in acqs.items():
        for k in range(spec["xpoints"]):
            x = rng.uniform(X_MARGIN, 1 - X_MARGIN, size=d)
            o.count("syn_points")
            o.ev("syn_point", name, regime, [float(v) for v in x])
            try:
                fv, g = acq.compute_acq_with_gradient(np.array(x))
                sten = _stencil(x, ACQ_STEPS)
                npts = fd.noise_points(x, rng)
                rows = np.vstack([x.reshape(1, -1), npts, sten])
                vals = np.asarray(acq.compute_acq(np.array(rows)), dtype=float).reshape(-1)
                v1 = float(np.asarray(acq.compute_acq(np.array(x).reshape(1, -1)), dtype=float).reshape(-1)[0])
            except Exception as e:  # noqa: BLE001
                o.violate("acquisition_gradient", f"raised:acquisition_on_custom_predictor:{name}:{type(e).__name__}", {"x": x, "error": repr(e)[:300], "std": std0})
                continue
            fv = float(np.reshape(fv, (-1,))[0])
            g = np.array(g, dtype=float).reshape(-1)
            v0 = float(vals[0])
            o.count("decided:acq_value")
            if not _value_equal(fv, v1, 1e-300):
                o.violate("value_with_gradient_equals_value_alone", f"acq_value_mismatch:{name}:custom_predictor:{regime}", {"with_grad": fv, "alone": v1, "x": x, "std": std0})
            # ---- closed form with the floor applied consistently
            m = np.asarray(ptar.predict(x.reshape(1, -1))[0]["mean"], dtype=float).reshape(-1)
            s_raw = float(ptar.std_at(x.reshape(1, -1))[0])
            s_eff = max(s_raw, STD_FLOOR)
            u = (inc - m - xi) / s_eff
            ei_f = s_eff * (u * norm.cdf(u) + norm.pdf(u))
            scale_f = s_eff * (np.abs(u) * norm.cdf(u) + norm.pdf(u))
            if name == "LCB":
                closed, scale = -float(np.mean(m) - kappa * s_raw), float(np.mean(np.abs(m)) + kappa * s_raw)
            elif name == "EI":
                closed, scale = float(np.mean(ei_f)), float(np.mean(scale_f))
            elif name == "EIpu":
                cm = np.maximum(np.asarray(pcost.predict(x.reshape(1, -1))[0]["mean"], dtype=float).reshape(-1), MIN_COST)
                closed, scale = float(np.mean(ei_f * np.power(cm, -expo))), float(np.mean(scale_f * np.power(cm, -expo)))
            else:
                prc = pcon.predict(x.reshape(1, -1))[0]
                mc = np.asarray(prc["mean"], dtype=float).reshape(-1)
                pfeas = norm.cdf(-mc / (float(prc["std"][0]) + MIN_STD_CONSTRAINT))
                closed, scale = float(np.mean(ei_f * pfeas)), float(np.mean(scale_f * pfeas))
            o.count("decided:syn_closed_form:" + regime + ":" + name)
            if name != "LCB":
                o.count("decided:ei_nonneg")
                if -v1 < -4 * np.finfo(float).eps * scale:
                    o.violate("expected_improvement_nonnegative", f"ei_negative:{name}:custom_predictor", {"minus_acq": -v1, "x": x, "std": std0})
            if abs(-v1 - closed) > 1e-8 * scale + 1e-300:
                o.violate("expected_improvement_closed_form" if name != "LCB" else "acquisition_gradient",
                          f"closed_form_mismatch:{name}:custom_predictor:{regime}",
                          {"minus_acq": -v1, "closed_form_with_floor": closed, "std": s_raw, "std_floor": STD_FLOOR, "mean": m, "incumbent": inc, "xi": xi, "x": x, "nf": nf})
            # ---- gradient == differences of the returned value
            delta = fd.noise_from_values(v0, vals[1 : 1 + len(npts)])
            svals = vals[1 + len(npts):]
            atol = ACQ_ATOL_REL * abs(v0) + 1e-300
            n_inc = 0
            for i in range(d):
                gi = float(g[i])
                derivs = []
                for li, h in enumerate(ACQ_STEPS):
                    bb = (li * d + i) * 4
                    derivs.append(fd.richardson_from_values(svals[bb], svals[bb + 1], svals[bb + 2], svals[bb + 3], h, delta, f0=v0))
                for li in range(len(derivs) - 1, 0, -1):
                    if derivs[li - 1].finite and derivs[li].finite:
                        derivs[li].noise = max(derivs[li].noise, 3.0 * (derivs[li - 1].d4 / 4.0) / derivs[li].h)
                dres = fd.pick(derivs, lambda r, _g=gi: (atol + ACQ_RTOL * max(abs(_g) if math.isfinite(_g) else 0.0, abs(r))) / TRUST)
                verdict, tol = _judge(gi, dres, atol, ACQ_RTOL)
                if verdict == "inconclusive":
                    n_inc += 1
                    continue
                o.count("decided:acq_grad_component")
                if abs(dres.value) > tol:
                    decided_any = True
                if verdict == "violated":
                    o.violate("acquisition_gradient", f"acq_grad_mismatch:{name}:custom_predictor:{regime}:{_ratio_class(gi, dres.value)}",
                              {"acq": name, "component": i, "grad": gi, "richardson": dres.value, "err_estimate": dres.err, "tol": tol, "h": dres.h,
                               "value": v0, "x": x, "std": s_raw, "nf": nf, "dict_order": "active_" + order})
            if n_inc == 0:
                o.count(f"decided:acq_point:{regime}:{name}")
                o.count("decided:acq_point:custom_predictor")
                obs_sig.append((name, "all"))
            else:
                o.inconclusive("syn_point_some_components_untrustworthy")
                obs_sig.append((name, "part"))
    o.set_sig(["syn", d, nf, nfc, std0, order, sorted(set(obs_sig))], nontrivial=decided_any)
    o.sample = {"kind": "syn", "d": d, "nf": nf, "std": std0, "regime": regime, "xi": xi, "mean_scale": msc, "points": sorted(set(obs_sig))}


# ===================================================================================== ops
def _rand_spd(rng, n):
    """SPD matrix with a chosen spectrum (condition number 1 .. 1e8)."""
    q, _ = np.linalg.qr(rng.normal(size=(n, n)))
    logc = rng.uniform(0, 8) if rng.random() < 0.8 else 0.0
    ev = 10 ** (rng.uniform(-1, 2) - logc * np.sort(rng.uniform(size=n)))
    a = (q * ev) @ q.T
    return 0.5 * (a + a.T), float(np.max(ev) / np.min(ev))


def _sym_dirs(rng, n, k):
    dirs = []
    pairs = [(i, j) for i in range(n) for j in range(i + 1)]
    rng.shuffle(pairs)
    for i, j in pairs[: max(1, k - 2)]:
        e = np.zeros((n, n))
        e[i, j] = e[j, i] = 1.0
        dirs.append((f"E{'diag' if i == j else 'off'}", e))
    for _ in range(2):
        b = rng.normal(size=(n, n))
        dirs.append(("Esym", 0.5 * (b + b.T)))
    return dirs


def _run_ops(spec, o):
    import autograd.numpy as anp
    import autograd.scipy.linalg as aspl
    from autograd import grad
    from syne_tune.optimizer.schedulers.searchers.bayesopt.gpautograd import custom_op

    rng = np.random.default_rng([spec["seed"], 3])
    n = spec["n"]
    decided_any = False
    sig = []
    o.count("ops_cases")

    def judge_dir(clause, mech, analytic, phi, scale, steps, detail):
        nonlocal decided_any
        vals0 = [phi(0.0)] + [phi(t) for t in (1e-13 * s for s in (1.0, -1.0, 0.7))]
        delta = fd.noise_from_values(vals0[0], vals0[1:])
        atol = OPS_ATOL_REL * scale
        dres = fd.best_of_ladder(phi, steps, delta, lambda r: (atol + OPS_RTOL * max(abs(analytic), abs(r))) / TRUST, f0=vals0[0])
        verdict, tol = _judge(analytic, dres, atol, OPS_RTOL)
        if verdict == "inconclusive":
            o.count("inconclusive_direction:" + clause)
            return None
        o.count("decided:op:" + clause)
        if abs(dres.value) > tol:
            decided_any = True
        if verdict == "violated":
            d_ = dict(detail)
            d_.update({"analytic": analytic, "richardson": dres.value, "err_estimate": dres.err, "tol": tol, "h": dres.h, "n": n})
            o.violate("custom_op_vjp", f"op_vjp_mismatch:{mech}:{_ratio_class(analytic, dres.value)}", d_)
        return verdict

    # ---- cholesky_factorization
    A, cond = _rand_spd(rng, n)
    Lbar = np.tril(rng.normal(size=(n, n)))

    def phi_chol(M):
        return anp.sum(Lbar * custom_op.cholesky_factorization(M))

    try:
        Abar = np.array(grad(phi_chol)(A))
        scale = float(np.max(np.abs(Abar))) * float(np.max(np.abs(A))) + 1e-300
        hbase = 3e-4 * float(np.min(np.linalg.eigvalsh(A)))
        for kind, E in _sym_dirs(rng, n, 8):
            analytic = float(np.sum(Abar * E))
            judge_dir("cholesky_factorization", "cholesky_factorization:" + kind, analytic,
                      lambda t, _E=E: float(np.sum(Lbar * custom_op.cholesky_factorization(A + t * _E))),
                      scale / float(np.max(np.abs(A))), (hbase * 10, hbase, hbase * 100), {"direction": kind, "cond": cond})
        sig.append(("chol", int(math.log10(cond))))
    except Exception as e:  # noqa: BLE001
        o.violate("custom_op_vjp", f"raised:cholesky_factorization_vjp:{type(e).__name__}", {"error": repr(e)[:300], "n": n, "cond": cond})

    # ---- AddJitterOp (no jitter needed: linear map; jitter needed: counted, not judged)
    psd = rng.random() < 0.45
    if psd and n >= 2:
        b = rng.normal(size=(n, max(1, n // 2)))
        Xm = b @ b.T  # rank deficient
        sigsq = float(10 ** rng.uniform(-18, -9)) if rng.random() < 0.7 else 0.0
        if rng.random() < 0.6:
            # what a kernel / posterior covariance matrix looks like after round-off amplified by bad
            # conditioning: slightly indefinite; several rounds of the jitter loop are needed
            nu = float(10 ** rng.uniform(-8, -5)) * max(1.0, float(np.mean(np.diag(Xm))))
            Xm = Xm - nu * np.eye(n)
            sigsq = nu * float(rng.uniform(0.05, 0.9))
    else:
        Xm, _ = _rand_spd(rng, n)
        sigsq = float(10 ** rng.uniform(-9, 1))
    G = rng.normal(size=(n, n))
    inputs = custom_op.flatten_and_concat(Xm, np.array([sigsq]))
    out = custom_op.AddJitterOp(inputs)
    extra = float(np.max(np.diag(out) - np.diag(Xm) - sigsq))
    jitter_added = extra > 0.5 * custom_op.INITIAL_JITTER_FACTOR * max(1.0, float(np.mean(np.diag(Xm))))
    try:
        gin = np.array(grad(lambda v: anp.sum(G * custom_op.AddJitterOp(v)))(np.array(inputs)))
        # also through flatten_and_concat with separate arguments, as cholesky_computations does
        gX = np.array(grad(lambda M: anp.sum(G * custom_op.AddJitterOp(custom_op.flatten_and_concat(M, anp.array([sigsq])))))(Xm))
        gs = np.array(grad(lambda s_: anp.sum(G * custom_op.AddJitterOp(custom_op.flatten_and_concat(Xm, s_))))(np.array([sigsq])))
        if jitter_added:
            # jitter loop taken: the output must still be x + sigsq_final * Id with sigsq_final from the
            # documented list and minimal, and (the jitter level being locally constant) depend on
            # sigsq_init with slope exactly 1 -- which is what the vjp returns (trace(g))
            import scipy.linalg as spl

            o.count("nonsmooth:jitter_added")
            o.count("ops_jitter_loop_taken")
            fac, gro = custom_op.INITIAL_JITTER_FACTOR, custom_op.JITTER_GROWTH
            jit, problem = _addjitter_structure(Xm, sigsq, np.asarray(out), fac, gro)
            o.count("decided:op:AddJitterOp_jitter_loop")
            if problem:
                o.violate("custom_op_forward", "AddJitterOp_output_not_x_plus_documented_sigsq_final:" + problem,
                          {"n": n, "sigsq_init": sigsq, "diagonal_shift_minus_sigsq_init": jit, "initial_jitter": fac * max(1.0, float(np.mean(np.diag(Xm))))})
            else:
                init = fac * max(1.0, float(np.mean(np.diag(Xm))))
                prev = sigsq + (jit / gro if jit > 1.5 * init else 0.0)
                try:
                    spl.cholesky(Xm + np.diag(np.ones((n,)) * prev), lower=True)
                    o.violate("custom_op_forward", "AddJitterOp_jitter_not_minimal", {"n": n, "sigsq_init": sigsq, "jitter": jit, "previous_candidate_works": prev})
                except spl.LinAlgError:
                    pass
                hh = 0.05 * jit
                o1 = np.asarray(custom_op.AddJitterOp(custom_op.flatten_and_concat(Xm, np.array([sigsq + hh]))))
                o2 = np.asarray(custom_op.AddJitterOp(custom_op.flatten_and_concat(Xm, np.array([sigsq + 2 * hh]))))
                j1, p1 = _addjitter_structure(Xm, sigsq + hh, o1, fac, gro)
                j2, p2 = _addjitter_structure(Xm, sigsq + 2 * hh, o2, fac, gro)
                if abs(j1 - jit) > 0.3 * jit or abs(j2 - jit) > 0.3 * jit:  # another jitter level (they differ by factors of 10)
                    o.inconclusive("ops_addjitter_level_changes_on_stencil")
                else:
                    slope = float(np.median((np.diag(o2) - np.diag(o1)) / hh))
                    o.count("decided:op:AddJitterOp_jitter_loop_slope")
                    if abs(slope - 1.0) > 1e-3:
                        o.violate("custom_op_vjp", "AddJitterOp_output_slope_wrt_sigsq_init_not_1_when_jitter_added",
                                  {"slope": slope, "vjp_sigsq": float(gin[n * n]), "trace_g": float(np.trace(G)), "n": n, "sigsq_init": sigsq, "jitter": jit})
                    if abs(float(gin[n * n]) - float(np.trace(G))) > 1e-10 * (1.0 + float(np.sum(np.abs(np.diag(G))))) or abs(float(gs[0]) - float(gin[n * n])) > 1e-10 * (1.0 + float(np.sum(np.abs(np.diag(G))))):
                        o.violate("custom_op_vjp", "op_vjp_mismatch:AddJitterOp:sigsq:jitter_loop_taken", {"vjp": float(gin[n * n]), "via_concat": float(gs[0]), "trace_g": float(np.trace(G))})
                    decided_any = True
            sig.append(("jitter", "added"))
        else:
            scale = float(np.max(np.abs(G))) + 1e-300
            idx = list(rng.choice(n * n, size=min(n * n, 6), replace=False)) + [n * n]
            for j in idx:
                e = np.zeros(n * n + 1)
                e[j] = 1.0
                part = "sigsq" if j == n * n else ("matrix_diag" if (j // n) == (j % n) else "matrix_offdiag")
                hb = 0.25 * max(float(np.min(np.linalg.eigvalsh(Xm + sigsq * np.eye(n)))), 1e-12)

                def phi(t, _e=e):
                    return float(np.sum(G * custom_op.AddJitterOp(inputs + t * _e)))

                judge_dir("AddJitterOp", "AddJitterOp:" + part, float(gin[j]), phi, scale, (hb, hb * 0.1), {"part": part, "sigsq": sigsq})
                if j < n * n:
                    if abs(gX.reshape(-1)[j] - gin[j]) > 1e-12 * scale:
                        o.violate("custom_op_vjp", "op_vjp_mismatch:flatten_and_concat:matrix", {"via_concat": gX.reshape(-1)[j], "direct": gin[j]})
                elif abs(gs[0] - gin[j]) > 1e-12 * scale * n:
                    o.violate("custom_op_vjp", "op_vjp_mismatch:flatten_and_concat:sigsq", {"via_concat": gs[0], "direct": gin[j]})
            sig.append(("jitter", "none"))
    except Exception as e:  # noqa: BLE001
        o.violate("custom_op_vjp", f"raised:AddJitterOp_vjp:{type(e).__name__}", {"error": repr(e)[:300], "n": n})

    # ---- chained as in cholesky_computations: L = chol(AddJitterOp([K, s])); psi = sum(log diag L) + 0.5 |L^-1 y|^2
    K, condk = _rand_spd(rng, n)
    s0 = float(10 ** rng.uniform(-6, 0))
    yv = rng.normal(size=(n, 1))

    def psi(M, s_):
        L = custom_op.cholesky_factorization(custom_op.AddJitterOp(custom_op.flatten_and_concat(M, s_)))
        p = aspl.solve_triangular(L, yv, lower=True)
        return anp.sum(anp.log(anp.abs(anp.diag(L)))) + 0.5 * anp.sum(anp.square(p))

    try:
        j0 = float(np.max(np.diag(custom_op.AddJitterOp(custom_op.flatten_and_concat(K, np.array([s0])))) - np.diag(K) - s0))
        if j0 > 0.5e-9 * max(1.0, float(np.mean(np.diag(K)))):
            o.count("nonsmooth:jitter_added")
            o.inconclusive("ops_chained_jitter_added")
        else:
            gK = np.array(grad(psi, 0)(K, np.array([s0])))
            gs0 = float(np.array(grad(psi, 1)(K, np.array([s0])))[0])
            lam = float(np.min(np.linalg.eigvalsh(K))) + s0
            hb = 3e-4 * lam
            scale = (float(np.max(np.abs(gK))) + abs(gs0)) + 1e-300
            for kind, E in _sym_dirs(rng, n, 5):
                judge_dir("chained", "chained:matrix:" + kind, float(np.sum(gK * E)),
                          lambda t, _E=E: float(psi(K + t * _E, np.array([s0]))), scale, (hb * 10, hb, hb * 100), {"direction": kind, "cond": condk, "sigsq": s0})
            judge_dir("chained", "chained:sigsq", gs0, lambda t: float(psi(K, np.array([s0 + t]))), scale, (hb * 10, hb, hb * 100), {"cond": condk, "sigsq": s0})
            sig.append(("chained", int(math.log10(condk))))
    except Exception as e:  # noqa: BLE001
        o.violate("custom_op_vjp", f"raised:chained_ops:{type(e).__name__}", {"error": repr(e)[:300], "n": n})
    o.set_sig(["ops", n, sig], nontrivial=decided_any)
    o.sample = {"kind": "ops", "n": n, "cond": cond, "observed": sig}


# ===================================================================================== entry
def run_case(spec):
    _install_spies()
    o = Obs()
    r0 = dict(_SPY["reach"])
    jl0, nb0 = _SPY["jitter_events"], len(_SPY["bad_jitter"])
    np.seterr(all="ignore")
    kind = spec["kind"]
    if kind == "crit":
        _run_crit(spec, o)
    elif kind == "acq":
        _run_acq(spec, o)
    elif kind == "syn":
        _run_syn(spec, o)
    else:
        _run_ops(spec, o)
    for k, v in _SPY["reach"].items():
        if v - r0.get(k, 0):
            o.count("reach:" + k, v - r0.get(k, 0))
    if _SPY["jitter_events"] > jl0:
        o.count("reach:jitter_loop_taken", _SPY["jitter_events"] - jl0)
    o.count("decided:AddJitterOp_output_structure", _SPY["reach"].get("AddJitterOp", 0) - r0.get("AddJitterOp", 0))
    for ev_ in _SPY["bad_jitter"][nb0:][:3]:
        o.violate("custom_op_forward", "AddJitterOp_output_not_x_plus_documented_sigsq_final:" + ev_["problem"], ev_)
    del _SPY["bad_jitter"][nb0:]
    if o.sig is None:
        o.set_sig([kind, "aborted"], False)
    return o.result()


def extra_coverage(tier, counters):
    return {
        "oracle_evaluations_by_clause": {k[len("decided:"):]: v for k, v in sorted(counters.items()) if k.startswith("decided:")},
        "mechanism_reach": {k[len("reach:"):]: v for k, v in sorted(counters.items()) if k.startswith("reach:")},
        "nonsmooth_not_judged": {k[len("nonsmooth:"):]: v for k, v in sorted(counters.items()) if k.startswith("nonsmooth:")},
    }
