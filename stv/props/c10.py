"""C10 — simulated experiments replay the benchmark table faithfully in values and time.

Real Tuner + UserBlackboxBackend + SimulatorCallback runs over generated tables (stv/simrun.py). From
the recorded history (start / resume / pause events with the simulated clock, every delivered result)
an oracle recomputes, independently of the backend:
  * the metric values of every delivered result from the table cell (configuration, seed, level);
    one seed per trial across all its runs;
  * the level sequence of every run (first run starts at the lowest fidelity; a resumed run starts
    right after the paused level with checkpointing, at the lowest fidelity without; never beyond
    config[max_resource_attr]);
  * the simulated time stamp of every result: clock at the start/resume call + delay_start + table
    elapsed time since the resume point (after the documented monotonicity repair) + delay_on_trial_result;
  * the clock: never decreases, every tuner sleep advances it by exactly tuner_sleep_time, and its final
    value equals the sum of the recorded advances.
"""
import math
import random

from stv import envshim  # noqa: F401
from stv import simrun
from stv.obs import Obs

ID = "C10"
LEVEL = "exploration"
RULE = (
    "case = one simulated Tuner.run: table (2-3 finite columns, 3-27 fidelities, 1-3 seeds, elapsed-time column cumulative | "
    "noisy non-monotone | with ties) x scheduler (stopping / promotion / PASHA / cost / RUSH Hyperband, synchronous Hyperband, "
    "FIFO, median rule, MOASHA) x delays {0,1e-6,0.05,1,4} x sleep time x scripted outside time x workers 1-8 x checkpointing "
    "x max_resource_attr x fixed or per-trial seed. Distinct = digest of per-trial (runs, first/last level per run); "
    "non-trivial = at least 3 results checked and one trial with >= 2 results."
)
ASSUMPTIONS = [
    "the clock value attached to a start/resume is the simulated time right after the backend call returned",
    "the per-trial seed is inferred from the delivered values (any seed consistent with all results of the trial) unless a "
    "backend seed is given",
    "time stamps are compared to 1e-9 relative (plus 1e-12 absolute)",
    "the elapsed-time entry of a delivered result is documented to be rebased to the resume point; only the other objectives are "
    "compared with the table cell",
]
CASE_TIMEOUT = 60

KINDS = ["hb_stopping", "hb_promotion", "hb_pasha", "hb_cost_promotion", "hb_rush_promotion", "hb_rush_stopping",
         "sync_hb", "fifo_random", "median", "moasha", "hb_promotion", "sync_hb"]


def preload():
    import syne_tune  # noqa: F401
    import syne_tune.optimizer.schedulers.synchronous  # noqa: F401
    import syne_tune.optimizer.schedulers.multiobjective  # noqa: F401
    import syne_tune.blackbox_repository.simulated_tabular_backend  # noqa: F401
    import syne_tune.backend.simulator_backend.simulator_callback  # noqa: F401
    import pandas  # noqa: F401


def cases(tier, seed):
    n = 960 if tier == "quick" else 16000
    out = [{"seed": seed * 611953 + i * 3 + 1, "kind": KINDS[i % len(KINDS)]} for i in range(n)]
    # engine F: the tabular backend driven directly (start / poll / pause / resume) on tables whose fidelity values are
    # not 1, 2, 3, ... (BlackboxTabular(fidelity_values=...)), several trials sharing configurations
    for i in range(300 if tier == "quick" else 6000):
        out.append({"engine": "F", "seed": seed * 611953 + i * 3 + 2})
    return out


def floors(tier):
    k = 1 if tier == "quick" else 25
    return {
        "decided:values": 10000 * k,
        "decided:time_stamps": 10000 * k,
        "decided:level_sequences": 1500 * k,
        "resumed_runs:checkpointing": 300 * k,
        "resumed_runs:no_checkpointing": 300 * k,
        "runs:nonmonotone_elapsed": 100 * k,
        "decided:sleeps": 3000 * k,
        "decided:clock_monotone_events": 100000 * k,
        "runs:clock_sum_checked": 400 * k,
        "decided:outside_time_charges_nonzero": 50000 * k,
        "decided:completion_time_polls": 20000 * k,
        "F:runs": 200 * k,
        "F:decided:level_sequences": 500 * k,
        "F:resumed_runs:checkpointing:non_contiguous_fidelities": 100 * k,
        "F:trials_with_max_resource_attr:off_the_fidelity_grid": 60 * k,
        "runs:table_columns_in_other_order_than_config_space": 200 * k,
        "decided:completions_observed_at_or_after_completion_time": 300 * k,
        "runs:max_resource_attr": 100 * k,
        "runs:per_trial_seed": 100 * k,
    }


def expand(spec):
    rng = random.Random(spec["seed"])
    p = simrun.sim_params(rng, kind=spec["kind"])
    p["sjwd"] = True
    lv = p["n_fid"]
    p["stop"] = rng.choice([{"max_num_evaluations": rng.randint(20, 200)},
                            {"max_wallclock_time": rng.uniform(3.0, 30.0) * lv},
                            {"max_num_trials_started": rng.randint(4, 25)}])
    p["tag_emissions"] = True
    p.update({k: v for k, v in spec.items() if k not in ("seed", "kind") and not k.startswith("_")})
    return p


def close(a, b):
    return abs(a - b) <= 1e-9 * max(abs(a), abs(b)) + 1e-12


def _check_trial_with_seed(o, p, tid, tr, ci, seed_, obj, et_i, cfg_d, mra, ckpt):
    """Level sequences and time stamps of one trial under the hypothesis that its seed is ``seed_``."""
    n_checked = 0
    multi = False
    sig = []
    e_tab = [float(obj[ci, seed_, l, et_i]) for l in range(p["n_fid"])]
    for ri, run in enumerate(tr["runs"]):
        res = run["results"]
        cfg = run["config"]
        max_level = p["n_fid"]
        if mra and mra in cfg:
            max_level = min(int(cfg[mra]), p["n_fid"])
        if ri == 0 or not ckpt or run["resume_from"] is None:
            start = 1
            offset = 0.0
        else:
            start = run["resume_from"] + 1
            offset = e_tab[run["resume_from"] - 1]
            o.count("resumed_runs:checkpointing")
        if ri > 0 and (not ckpt):
            o.count("resumed_runs:no_checkpointing")
        levels = [int(x["epoch"]) for x in res]
        if levels:
            o.count("decided:level_sequences")
            if levels[0] != start:
                o.violate("levels_consecutive_from_resume_point",
                          f"run_starts_at_wrong_level:{'resumed' if ri else 'first'}:{'checkpointing' if ckpt else 'no_checkpointing'}",
                          {"trial": tid, "run": ri, "first_level": levels[0], "expected": start, "paused_at": run["resume_from"]})
                continue
            if levels != list(range(start, start + len(levels))):
                o.violate("levels_consecutive_from_resume_point", "levels_not_consecutive", {"trial": tid, "run": ri, "levels": levels})
                continue
            if levels[-1] > max_level:
                o.violate("never_beyond_max_resource", "level_beyond_config_max_resource_attr", {"trial": tid, "levels": levels, "max": max_level})
                continue
        # reference elapsed times of the run: rebase + documented monotonicity repair (>= 0.01, +0.01 steps)
        ref_levels = list(range(start, max_level + 1))
        e = [e_tab[l - 1] - offset for l in ref_levels]
        if e:
            e[0] = max(e[0], 0.01)
            for i in range(1, len(e)):
                e[i] = max(e[i], e[i - 1] + 0.01)
        t_start = run["t_sched"] + cfg_d.delay_start
        if e and run.get("polls"):
            # the job ends by itself delay_complete_after_final_report after its last report: never visible as completed
            # before, never still in progress after (polls taken while no stop / pause was under way)
            t_done = t_start + e[-1] + cfg_d.delay_complete_after_final_report
            tol = 1e-7 * (1.0 + abs(t_done))
            for T, st in run["polls"]:
                if T is None or abs(T - t_done) <= tol:
                    continue
                o.count("decided:completion_time_polls")
                if st == "Completed" and T < t_done:
                    o.violate("completion_after_last_result", "job_visible_as_completed_before_last_result_plus_delay",
                              {"trial": tid, "run": ri, "poll_clock": T, "completion_time": t_done, "delay_complete": cfg_d.delay_complete_after_final_report})
                    break
                if st == "Completed":
                    o.count("decided:completions_observed_at_or_after_completion_time")
                if st == "InProgress" and T > t_done:
                    o.violate("completion_after_last_result", "job_still_in_progress_after_its_completion_time",
                              {"trial": tid, "run": ri, "poll_clock": T, "completion_time": t_done, "delay_complete": cfg_d.delay_complete_after_final_report})
                    break
        for x in res:
            lvl = int(x["epoch"])
            i = lvl - start
            if not 0 <= i < len(e):
                continue
            exp_t = t_start + e[i] + cfg_d.delay_on_trial_result
            got = x.get("st_tuner_time")
            o.count("decided:time_stamps")
            n_checked += 1
            if got is None or not close(got, exp_t):
                o.violate("time_stamp_formula", f"result_time_stamp_differs:{'resumed' if ri else 'first'}_run:{'checkpointing' if ckpt else 'no_checkpointing'}",
                          {"trial": tid, "run": ri, "level": lvl, "got": got, "expected": exp_t, "t_sched": run["t_sched"],
                           "delay_start": cfg_d.delay_start, "delay_result": cfg_d.delay_on_trial_result,
                           "elapsed_ref": e[i], "offset": offset, "table_elapsed": e_tab[: max_level]})
                break
        if len(res) >= 2:
            multi = True
        sig.append((len(tr["runs"]), levels[:1], levels[-1:]))
    return n_checked, multi, sig


def run_engine_f(spec):
    """Direct driver of UserBlackboxBackend: values, level order and resume points against the table, for arbitrary
    (sorted, positive integer) fidelity values; trials may share a configuration; pause -> resume up to three times."""
    import numpy as np
    import pandas as pd

    from syne_tune.blackbox_repository.blackbox_tabular import BlackboxTabular
    from syne_tune.blackbox_repository.simulated_tabular_backend import UserBlackboxBackend
    from syne_tune.config_space import randint

    o = Obs()
    rng = random.Random(spec["seed"])
    style = rng.choice(["contiguous", "geometric", "step", "random"])
    if style == "contiguous":
        fids = list(range(1, rng.randint(4, 10)))
    elif style == "geometric":
        b = rng.choice([2, 3])
        fids = [b ** k for k in range(rng.randint(3, 5))]
    elif style == "step":
        st = rng.choice([2, 3, 5])
        fids = list(range(st, st * rng.randint(4, 7), st))
    else:
        fids = sorted(rng.sample(range(1, 40), rng.randint(3, 7)))
    o.count("F:runs")
    o.count(f"F:fidelity_values:{style}")
    n = 5
    data = np.stack([np.arange(n), np.arange(n)[::-1]]).T
    hyper = pd.DataFrame(data=data, columns=["x1", "x2"])
    cs = {"x1": randint(0, n - 1), "x2": randint(0, n - 1)}
    rs = np.random.RandomState(spec["seed"] % (2 ** 31))
    n_seeds = rng.choice([1, 1, 2])
    evals = rs.rand(n, n_seeds, len(fids), 2)
    steps = rs.uniform(0.5, 2.0, size=(n, n_seeds, len(fids)))
    evals[:, :, :, 1] = np.cumsum(steps, axis=2)
    ckpt = rng.random() < 0.75
    bb = BlackboxTabular(hyperparameters=hyper, configuration_space=cs, fidelity_space={"epoch": randint(1, int(max(fids)))},
                         objectives_evaluations=evals, fidelity_values=np.asarray(fids), objectives_names=["loss", "elapsed_time"])
    use_mra = rng.random() < 0.5
    be = UserBlackboxBackend(blackbox=bb, elapsed_time_attr="elapsed_time", seed=0, support_checkpointing=ckpt,
                             max_resource_attr="epochs" if use_mra else None)
    be.time_keeper.start_of_time()
    n_trials = rng.randint(1, 4)
    rows = [rng.randrange(n) for _ in range(n_trials)]  # trials may share a configuration
    limit = {}
    for t in range(n_trials):
        cfg_t = {"x1": int(data[rows[t]][0]), "x2": int(data[rows[t]][1])}
        if use_mra:
            # the maximum resource of a trial need not be a fidelity value of the table (also below the first / above the last)
            limit[t] = rng.randint(fids[0], fids[-1] + 2)
            cfg_t["epochs"] = limit[t]
            o.count("F:trials_with_max_resource_attr" + ("" if limit[t] in fids else ":off_the_fidelity_grid"))
        be.start_trial(cfg_t)
    runs = {t: [[]] for t in range(n_trials)}          # delivered levels per run
    paused_at = {t: [] for t in range(n_trials)}
    state = {t: "running" for t in range(n_trials)}
    want_pauses = {t: rng.randint(0, 3) for t in range(n_trials)}
    last_t = {}
    for _ in range(600):
        be.time_keeper.advance(rng.choice([0.25, 0.5, 1.0, 3.0]))
        active = [t for t in range(n_trials) if state[t] == "running"]
        if not active:
            resumable = [t for t in range(n_trials) if state[t] == "paused"]
            if not resumable:
                break
        else:
            status, results = be.fetch_status_results(trial_ids=active)
            for t, res in results:
                if state[t] != "running":
                    continue  # same batch, after the pause decision
                lvl = int(res["epoch"])
                runs[t][-1].append(lvl)
                o.count("F:decided:values")
                row, pos = rows[t], fids.index(lvl) if lvl in fids else None
                if pos is None:
                    o.violate("values_from_table", "F:reported_level_is_not_a_fidelity_value", {"level": lvl, "fidelity_values": fids})
                elif res["loss"] != evals[row, 0, pos, 0]:
                    o.violate("values_from_table", "F:delivered_metric_value_differs_from_table_cell",
                              {"trial": t, "level": lvl, "got": res["loss"], "table": float(evals[row, 0, pos, 0])})
                ts = res.get("st_tuner_time")
                if ts is not None and t in last_t and ts < last_t[t] - 1e-9:
                    o.violate("time_never_runs_backwards", "F:time_stamps_of_one_trial_decrease", {"trial": t, "from": last_t[t], "to": ts})
                if ts is not None:
                    last_t[t] = ts
                if want_pauses[t] > 0 and lvl < (max([f for f in fids if t not in limit or f <= limit[t]] or [lvl])) and rng.random() < 0.4:
                    be.pause_trial(trial_id=t, result=res)
                    state[t] = "paused"
                    paused_at[t].append(lvl)
                    want_pauses[t] -= 1
            for t, (tr, st_) in status.items():
                if state[t] == "running" and str(st_).lower().endswith("completed"):
                    state[t] = "completed"
        for t in range(n_trials):
            if state[t] == "paused" and rng.random() < 0.5:
                be.resume_trial(t)
                state[t] = "running"
                runs[t].append([])
    # ---- oracle: every run delivers consecutive fidelity values from its start point
    sig = []
    for t in range(n_trials):
        for ri, lv in enumerate(runs[t]):
            if not lv:
                continue
            o.count("F:decided:level_sequences")
            start_pos = 0
            if ri > 0 and ckpt:
                start_pos = fids.index(paused_at[t][ri - 1]) + 1
                o.count("F:resumed_runs:checkpointing" + ("" if style == "contiguous" else ":non_contiguous_fidelities"))
            elif ri > 0:
                o.count("F:resumed_runs:no_checkpointing")
            allowed = [f for f in fids if t not in limit or f <= limit[t]]
            exp = allowed[start_pos: start_pos + len(lv)]
            if lv != exp and t in limit and lv[: len(exp)] == exp and len(lv) > len(exp):
                o.violate("never_beyond_max_resource", "F:run_reports_a_fidelity_value_above_its_max_resource",
                          {"trial": t, "run": ri, "delivered": lv, "max_resource": limit[t], "fidelity_values": fids})
                break
            if lv != exp:
                o.violate("levels_consecutive_from_resume_point",
                          f"F:run_does_not_report_the_fidelity_values_after_its_resume_point:{'resumed' if ri else 'first'}:{'checkpointing' if ckpt else 'no_checkpointing'}",
                          {"trial": t, "run": ri, "delivered": lv, "expected": exp, "fidelity_values": fids, "paused_at": paused_at[t]})
                break
            if state[t] == "completed" and ri == len(runs[t]) - 1 and lv[-1] != allowed[-1]:
                o.violate("levels_consecutive_from_resume_point", "F:completed_run_did_not_reach_the_last_fidelity_value",
                          {"trial": t, "delivered": lv, "fidelity_values": fids})
            sig.append((ri, len(lv), style))
    o.set_sig(("F", style, ckpt, sig), nontrivial=any(len(r_) > 1 for r_ in runs.values()))
    o.sample = {"engine": "F", "fidelity_values": fids, "checkpointing": ckpt, "trials": n_trials, "runs": {str(t): runs[t] for t in runs},
                "paused_at": {str(t): paused_at[t] for t in paused_at}}
    return o.result()


def run_case(spec):
    if spec.get("engine") == "F":
        return run_engine_f(spec)
    o = Obs()
    p = expand(spec)
    r = simrun.SimRun(p, spec["seed"])
    tk = r.backend._time_keeper
    # -- clock contract: record every advance (harness subclass instance, wrapped per instance)
    adv = []
    o_adv, o_advto = tk.advance, tk.advance_to

    def advance(step):
        before = tk._current_time
        o_adv(step)
        adv.append(("advance", before, tk._current_time, step))

    def advance_to(to_time):
        before = tk._current_time
        o_advto(to_time)
        adv.append(("advance_to", before, tk._current_time, to_time))

    tk.advance, tk.advance_to = advance, advance_to
    r.run()
    if r.exc is not None:
        if type(r.exc).__name__ == "LoopBoundExceeded":
            o.inconclusive("loop_bound")
        else:
            o.violate("run_completes", f"tuner_run_raised:{type(r.exc).__name__}", {"error": repr(r.exc)[:300], "kind": spec["kind"]})
            return o.result()
    tab = r.tab
    names = tab["names"]
    if tab.get("table_column_order") != tab["cols"]:
        o.count("runs:table_columns_in_other_order_than_config_space")
    et_i = names.index("elapsed_time")
    obj = tab["obj"]
    grid_index = {g: i for i, g in enumerate(tab["grid"])}
    cols = tab["cols"]
    cfg_d = r.sim_config
    mra = "epochs" if p.get("use_mra") else None
    ckpt = p.get("checkpointing", True)
    if p.get("elapsed") != "cumulative":
        o.count("runs:nonmonotone_elapsed")
    if mra:
        o.count("runs:max_resource_attr")
    if p.get("backend_seed") is None and p["n_seeds"] > 1:
        o.count("runs:per_trial_seed")

    # ---- collect per-trial history
    trials = {}  # tid -> {"config", "runs": [{"t_sched", "results": [...], "start_level_expected"}], "paused_level"}
    last_t = None
    prev_t = None
    tuning_ended = False
    live = {}
    for idx, k, pl in r.rec.events:
        t = pl.get("t")
        if t is not None:
            o.count("decided:clock_monotone_events")
            if last_t is not None and t < last_t:
                o.violate("time_never_runs_backwards", "simulated_clock_decreased", {"from": last_t, "to": t, "at": k})
                break
            prev_t, last_t = last_t, t
        if k == "c.sleep":
            o.count("decided:sleeps")
            if prev_t is not None and not close(t - prev_t, p["tuner_sleep"]):
                o.violate("waiting_charged_once", "sleep_did_not_advance_clock_by_tuner_sleep_time",
                          {"advance": t - prev_t, "tuner_sleep_time": p["tuner_sleep"]})
        if k == "c.tuning_end":
            tuning_ended = True
        if tuning_ended:
            continue
        if k == "b.start_trial.ret":
            tid = pl["ret"]["trial_id"]
            trials[tid] = {"config": pl["ret"]["config"], "runs": [{"t_sched": t, "results": [], "resume_from": None, "config": pl["ret"]["config"]}],
                           "paused_level": None}
            live[tid] = True
        elif k == "b.resume_trial.ret":
            tid = pl["trial_id"]
            tr = trials[tid]
            tr["runs"].append({"t_sched": t, "results": [], "resume_from": tr["paused_level"], "config": pl["ret"]["config"]})
            live[tid] = True
        elif k in ("b.stop_trial.call", "b.stop_all.call"):
            if k == "b.stop_all.call":
                live.clear()
            else:
                live[pl["trial_id"]] = False
        elif k == "b.fetch_status_results.ret":
            for tid_, st_ in pl["ret"]["status"].items():
                if live.get(tid_) and tid_ in trials:
                    trials[tid_]["runs"][-1].setdefault("polls", []).append((t, st_))
                    if st_ != "InProgress":
                        live[tid_] = False
        elif k == "b.pause_trial.call":
            tid = pl["trial_id"]
            live[tid] = False
            res = pl.get("result")
            if res is not None and "epoch" in res:
                trials[tid]["paused_level"] = int(res["epoch"])
        elif k == "s.on_trial_result.call":
            tid = pl["trial_id"]
            trials[tid]["runs"][-1]["results"].append(pl["result"])
        elif k == "b._run_job_and_collect_results.ret":
            # what the (simulated) training script reports for this run, delivered or not
            tid = pl["trial_id"]
            tr = trials.get(tid)
            if tr is not None and pl["ret"]["results"]:
                run = tr["runs"][-1]
                lv = [int(x["epoch"]) for x in pl["ret"]["results"]]
                o.count("decided:emitted_level_ranges")
                if mra and mra in run["config"] and max(lv) > int(run["config"][mra]):
                    o.violate("never_beyond_max_resource", "script_reports_levels_beyond_config_max_resource_attr",
                              {"trial": tid, "levels": lv, "max_resource": run["config"][mra]})
                exp_first = 1 if (len(tr["runs"]) == 1 or not ckpt or run["resume_from"] is None) else run["resume_from"] + 1
                if lv[0] != exp_first or lv != list(range(lv[0], lv[0] + len(lv))):
                    o.violate("levels_consecutive_from_resume_point", "script_level_sequence_wrong",
                              {"trial": tid, "levels": lv, "expected_first": exp_first, "runs": len(tr["runs"])})

    # ---- oracle per trial
    sig = []
    n_checked = 0
    multi = False
    for tid, tr in sorted(trials.items()):
        cfgkey = tuple(tr["config"][c] for c in cols)
        ci = grid_index.get(cfgkey)
        if ci is None:
            o.violate("table_lookup", "trial_configuration_not_in_table", {"trial": tid, "config": tr["config"]})
            continue
        all_res = [x for run in tr["runs"] for x in run["results"]]
        if not all_res:
            continue
        # seed: consistent with every delivered value
        if p.get("backend_seed") is not None:
            seeds = [p["backend_seed"]]
        else:
            seeds = list(range(p["n_seeds"]))
        good = []
        for s in seeds:
            ok = True
            for x in all_res:
                lvl = int(x["epoch"])
                for j, nm in enumerate(names):
                    if nm == "elapsed_time":
                        continue
                    if not (1 <= lvl <= p["n_fid"]) or x.get(nm) != obj[ci, s, lvl - 1, j]:
                        ok = False
                        break
                if not ok:
                    break
            if ok:
                good.append(s)
        o.count("decided:values", len(all_res))
        if not good:
            # which clause? values of a single result match some seed, but not one seed for all
            per = []
            for x in all_res:
                lvl = int(x["epoch"])
                per.append([s for s in range(p["n_seeds"]) if 1 <= lvl <= p["n_fid"] and all(
                    x.get(nm) == obj[ci, s, lvl - 1, j] for j, nm in enumerate(names) if nm != "elapsed_time")])
            if all(per) and p.get("backend_seed") is None:
                o.violate("same_seed_for_all_runs", "results_of_one_trial_come_from_different_seeds", {"trial": tid, "seeds_per_result": per[:30]})
            elif all(per):
                o.violate("values_from_table", "result_uses_other_seed_than_backend_seed", {"trial": tid, "seeds_per_result": per[:30], "backend_seed": p.get("backend_seed")})
            else:
                bad = next(i for i, s_ in enumerate(per) if not s_)
                o.violate("values_from_table", "delivered_metric_values_differ_from_table_cell",
                          {"trial": tid, "result": all_res[bad], "config": tr["config"]})
            continue
        best = None
        for seed_ in good:
            loc = Obs()
            res_sig = _check_trial_with_seed(loc, p, tid, tr, ci, seed_, obj, et_i, cfg_d, mra, ckpt)
            if best is None or not loc.violations:
                best = (loc, res_sig)
            if not loc.violations:
                break
        loc, res_sig = best
        if len(good) > 1:
            o.count("seed_ambiguous_trials")
        for kname, v in loc.counters.items():
            if kname != "violations_raised":
                o.count(kname, v)
        for v in loc.violations:
            o.violate(v["clause"], v["mechanism"], v["detail"])
        n_checked += res_sig[0]
        multi = multi or res_sig[1]
        sig.extend(res_sig[2])
    # ---- clock equals the sum of its advances
    if adv:
        o.count("runs:clock_sum_checked")
        total = 0.0
        cur = 0.0
        for kind_, before, after, arg in adv:
            if after < before:
                o.violate("time_never_runs_backwards", f"time_keeper_{kind_}_decreased_time", {"before": before, "after": after, "arg": arg})
                break
            if kind_ == "advance" and not close(after - before, arg):
                o.violate("waiting_charged_once", "advance_did_not_add_its_step", {"before": before, "after": after, "step": arg})
                break
            total += after - before
        final = tk._current_time
        if not close(total, final):
            o.violate("waiting_charged_once", "final_clock_differs_from_sum_of_advances", {"sum": total, "final": final})
    # ---- time spent outside the backend (scripted wall clock) is charged exactly once
    dbl = 0
    for v, since in tk.charges:
        o.count("decided:outside_time_charges")
        if v > 0:
            o.count("decided:outside_time_charges_nonzero")
        if v > since + 1e-9:
            o.violate("waiting_charged_once", "outside_time_charged_more_than_once", {"charged": v, "passed_since_last_charge": since})
            break
        if v < since - 1e-9:
            dbl += 1
    if dbl:
        o.count("outside_time_dropped", dbl)
    o.set_sig(sig, nontrivial=n_checked >= 3 and multi)
    o.sample = {"kind": spec["kind"], "n_workers": p["n_workers"], "delays": p["delays"], "tuner_sleep": p["tuner_sleep"],
                "outside": p["outside"], "checkpointing": ckpt, "use_mra": bool(mra), "elapsed": p.get("elapsed"),
                "trials": len(trials), "results_checked": n_checked, "final_clock": tk._current_time}
    return o.result()
