"""C11 — seeded runs are reproducible.

Engine A (in process, schedulers without a fitted surrogate): two schedulers ("twins") built from equal
arguments and ``random_seed`` are driven in lock-step by the virtual tuner through a twin port that forwards
every API call to both and compares the suggestion (None / start / resume flag, trial id, configuration dict
with value *and* type of every entry) and the decision. Before *every* call to *each* twin (and before each
constructor) the harness (a) re-seeds / draws from ``numpy.random``, (b) re-seeds / draws from Python's
``random``, (c) constructs and steps *decoy* schedulers of the same class (other seeds, sometimes the same
seed), each driven by its own virtual tuner — differently for the two twins. On a divergence the case is
re-run under restricted perturbation classes to attribute it (global numpy / python random / decoys /
independent of all three).

Hash randomisation for the model-free searchers: besides the ``vt_modelfree`` batches (every engine-A kind, every
domain kind forced in turn) a ``vt_hashmatrix`` batch runs every model-free kind incl. directly created RandomSearcher
and GridSearcher (shuffle_config False and True) three times per child on spaces made mostly of string-valued
categoricals, with unusual-but-legal domains forced: choice / ordinal with duplicated values (string and int), a
single-value choice, float and bool categories (mixed types, and duplicates in nearest-neighbour ordinals, are
rejected by the library).

Transfer learning in the fresh-process face: a ``vt_transfer`` batch runs RUSHScheduler (stopping / promotion, no
or with 1-3 custom_rush_points, 2-4 source tasks x 1-3 best configurations = 2-12 threshold candidates, spaces with string-valued
and numeric hyperparameters) and BoundingBox (around a seeded FIFO / Hyperband scheduler) under PYTHONHASHSEED 0 / 1 /
random; the order of the first suggested configurations (the threshold candidates) is part of the compared trace.
About half of the RUSH histories pass 1-3 custom_rush_points, one of them possibly equal to a source task's best
configuration (C11-K3, fixed in 8e90818: the de-duplication used to order them by hash).
ZeroShotTransfer and the quantile-based searcher need xgboost and cannot be imported here.

Engine S (in process, shared argument objects): direct RandomSearcher / GridSearcher instances (behind a small
scheduler-API adapter) and FIFO / Hyperband / synchronous Hyperband / PBT / REA schedulers are built twice from the
SAME argument objects (config_space dict, points_to_evaluate list, search_options dict incl. the
restrict_configurations list), driven alternately, and compared call by call with each other and with a solo run
built from private copies; afterwards the caller's objects must be deep-equal to a snapshot taken before.

Engine N (near-identical neighbours): the scheduler under test is run (a) alone in a pristine process (a fork of a
child that has only imported the library), (b) in another pristine fork after schedulers that share all its arguments
but one (seed, mode, space, max_t, brackets, rung levels, rung_system_per_bracket, population size, ...) have been
created and used, the neighbours of one rotating label first, and while they keep being created and stepped between
its calls, (c) the same inside the long-lived worker process that has created thousands of schedulers before. The
three call traces must be equal. Hyperband targets have 2-4 brackets and histories of 1200-2000 events (>= 100
suggestions), so a change of a few percent in a sampling distribution shows.

Master seeds: every 5th case of every family in every engine uses random_seed 0, every 5th another boundary / small
value (1, 2, 3, 7, 2**31-2, 2**31-1; schedulers reject larger seeds, direct searchers also get 2**32-1).

Engine B (fresh processes): one scenario is executed by ``python -m stv.props.c11 --child <json>`` children
started with ``subprocess.run(timeout=...)`` under PYTHONHASHSEED 0, 1 and 'random', each with its own
global-RNG preamble and its own perturbation stream between scheduler calls. Every child prints the full
canonical trace (json, sorted keys, floats via repr) and its digest; digests must be equal. Scenarios:
virtual-tuner histories of GP searchers (GP-FIFO, MOBSTER promotion / stopping, HyperTune), batches of the
engine-A kinds (hash randomisation for the model-free schedulers), and whole simulated experiments
(Tuner + UserBlackboxBackend over a generated BlackboxTabular, SimulatorCallback, scheduler ``random_seed``
and backend ``seed`` given, time keeper stub) whose result tables (in memory and as stored on disk) are
compared cell by cell.
"""
import copy
import hashlib
import json
import os
import random
import subprocess
import sys

from stv import envshim  # noqa: F401  (FIRST: sandbox shims, repo on sys.path)
from stv import gen
from stv.obs import Obs
from stv.vtuner import Port, SchedRaised, VTuner

ID = "C11"
LEVEL = "exploration"
RULE = (
    "engine A: case = scheduler kind (FIFO random / FIFO grid / Hyperband stopping, promotion, pasha, cost_promotion, "
    "rush_stopping, rush_promotion / synchronous Hyperband / DEHB / PBT / REA / MOREA) x constructor arguments x config space x "
    "config space drawn from all 23 domain kinds (6 unusual categoricals: duplicated string / int values, single value, "
    "ordinal with duplicates, float and bool categories; and uniform, loguniform, reverseloguniform, quniform, qloguniform, randint, "
    "lograndint, qrandint, qlograndint, choice, ordinal equal/nn, logordinal, finrange / logfinrange with and without "
    "cast_int; one kind forced per case in turn) x metric table x 1-8 workers x arrival policy x failure plan x perturbation stream (numpy global, python global, decoy "
    "schedulers; different before each twin); distinct = digest of (kind, sequence of (event type, start/resume/none, "
    "decision)); non-trivial = at least 30 lock-step events all compared. engine S: case = target (searcher_random, "
    "searcher_grid, fifo_random, fifo_grid, hb_promotion, hb_stopping, sync_hb, pbt, rea) x variant (restrict_configurations "
    "/ allow_duplicates / plain) x points_to_evaluate (None / [] / sampled) x history as in engine A; non-trivial = at least "
    "20 events, twins equal to each other and to the solo run. engine N: case = 6 schedulers under test (Hyperband types "
    "with 2-4 brackets and >= 100 suggestions, synchronous Hyperband, DEHB, PBT, REA, FIFO) x near-identical neighbours "
    "differing in one argument x which neighbour is created first; non-trivial = traces of the solo run in a pristine "
    "process, the run after neighbours in a pristine process and the run inside the worker process are equal. engine B: case = scenario (virtual-tuner GP "
    "searcher history / batch of model-free histories / simulated Tuner experiment) x seed, run in 3 fresh processes "
    "(PYTHONHASHSEED 0, 1, random; different global-RNG preambles and perturbation streams); distinct = trace digest; "
    "non-trivial = all children produced a trace with at least 10 events / result rows."
)
ASSUMPTIONS = [
    "engines A and B: twins receive equal arguments by value (each instance gets its own freshly built config space / "
    "option dicts). engine S: two instances are built from the SAME config_space dict, points_to_evaluate list and "
    "search_options dict (with the restrict_configurations list inside) and called alternately; they must answer like "
    "a solo instance built from private copies, and the caller's objects must be unchanged afterwards (a num_samples "
    "dict and PBT with restrict_configurations only through explicit reproducer specs: candidates C11-K1/K2)",
    "engine N: 'pristine process' = fork of a child process that has imported the library and constructed nothing; the "
    "solo reference cannot see state that is created at import time",
    "master seeds cover 0, 1, 2, 3, 7, 2**31-2, 2**31-1 (the documented upper bound of random_seed for schedulers) and "
    "2**32-1 for directly created searchers",
    "configuration spaces draw from all 23 domain kinds; quantized domains use a q that divides both bounds and exactly "
    "representable values, ordinal nn / logordinal have >= 2 categories, integer finite ranges have distinct members "
    "(so the open C07 / C06 findings about such domains do not interfere); dehb and fifo_grid never call Domain.sample "
    "and are not counted in domain_kind_in_twin_spaces",
    "PBT (and every FIFO-based scheduler) puts elapsed time of its time keeper into suggestions: the twins get two "
    "SimulatedTimeKeeper objects advanced in lock-step by the harness (the documented way to make time reproducible); "
    "wall-clock time is outside the property",
    "engine A compares only what the scheduler API returns (suggestions, decisions, raises), not internal state",
    "hash randomisation cannot be varied inside one process: it is covered by engine B only (PYTHONHASHSEED 0, 1, random)",
    "GP-based searchers are compared across fresh processes only (parameter vectors are ordered by process-global "
    "block-name counters), single-threaded BLAS (OMP/OPENBLAS/MKL_NUM_THREADS=1) in every child",
    "simulated PBT experiment: the simulator backend keeps no checkpoint directories, so copy_checkpoint is a no-op there",
    "simulated experiments: backend seed given, SimulatedTimeKeeper.real_time_since_last_recent_exit stubbed (0 or a "
    "seeded scripted sequence), so no real time enters the simulation",
    "schedulers that do not accept random_seed (MOASHA: np.random.choice for the bracket, Domain.sample() without "
    "random_state for configurations) are out of scope; KDE, BORE, CQR, BoTorch, SMAC, NSGA-2/MOREA cannot be imported "
    "in this sandbox (statsmodels / xgboost / botorch / pymoo missing) and are not run",
    "identical exceptions raised by both twins / all children end the history without a C11 verdict (other properties)",
]
CASE_TIMEOUT = 120
SHARDS_PER_JOB = 4
CHILD_TIMEOUT = 400
CHILD_MARK = "C11CHILD "

KINDS_A = [
    "fifo_random", "fifo_grid", "hb_stopping", "hb_promotion", "hb_pasha", "hb_cost_promotion",
    "hb_rush_stopping", "hb_rush_promotion", "sync_hb", "dehb", "pbt", "rea", "morea",
]
VT_SCEN = ["vt_gp_fifo", "vt_mobster_promotion", "vt_mobster_stopping", "vt_hypertune", "vt_modelfree", "vt_hashmatrix",
           "vt_transfer"]
BATCH_SCEN = ("vt_modelfree", "vt_hashmatrix", "vt_transfer")
SIM_SCHED = ["fifo_random", "hb", "sync_hb", "dehb", "pbt", "rea", "gp_fifo", "mobster", "hypertune", "fifo_grid"]
HASHSEEDS = ["0", "1", "random"]


def case_timeout(spec):
    return 4 * CHILD_TIMEOUT + 60 if spec.get("engine") in ("B", "N") else CASE_TIMEOUT


def preload():
    import syne_tune.optimizer.schedulers  # noqa: F401
    import syne_tune.optimizer.schedulers.searchers  # noqa: F401
    import syne_tune.optimizer.schedulers.synchronous  # noqa: F401
    import syne_tune.optimizer.baselines  # noqa: F401
    import syne_tune.backend.simulator_backend.time_keeper  # noqa: F401


SEED_MAX = 2 ** 31 - 1  # schedulers reject a larger random_seed (constraint Integer(0, 2**31 - 1)); searchers take 2**32 - 1


def boundary_seed(i, upper=SEED_MAX):
    """Seed schedule of the i-th case of a family: every 5th case has random_seed 0, every 5th another boundary /
    small value (1, upper, 2, upper - 1, 3, 7); None = drawn by the generator."""
    if i % 5 == 0:
        return 0
    if i % 5 == 1:
        return [1, upper, 2, upper - 1, 3, 7][(i // 5) % 6]
    return None


def _with_seed(spec, i, upper=SEED_MAX):
    b = boundary_seed(i, upper)
    if b is not None:
        spec["sched_seed"] = b
    return spec


def _b_plan(tier):
    """Scenario list of a tier (engine B)."""
    if tier == "quick":
        return (["vt_gp_fifo", "vt_mobster_promotion", "vt_hypertune", "vt_modelfree", "vt_mobster_stopping",
                 "vt_gp_fifo", "vt_modelfree", "vt_hashmatrix", "vt_hashmatrix", "vt_transfer", "vt_transfer"]
                + ["sim_" + s for s in SIM_SCHED[:9]])
    out = []
    for r in range(11):
        out += VT_SCEN + ["sim_" + s for s in SIM_SCHED]
    return out


def cases(tier, seed):
    out = []
    for i, sc in enumerate(_b_plan(tier)):
        out.append(_with_seed({"engine": "B", "scenario": sc, "seed": seed * 611953 + i * 29 + 7}, i // 2))
    for i in range(8 if tier == "quick" else 80):
        out.append({"engine": "N", "idx": i, "seed": seed * 32452843 + i * 31 + 3})
    ns = 12 if tier == "quick" else 200
    for i in range(ns):
        for j, target in enumerate(S_TARGETS):
            c = i * len(S_TARGETS) + j
            out.append(_with_seed({"engine": "S", "target": target, "seed": seed * 1299709 + c * 23 + 5,
                                   "force_kind": DOMAIN_KINDS[c % len(DOMAIN_KINDS)]}, i,
                                  2 ** 32 - 1 if target.startswith("searcher_") else SEED_MAX))
    n = 40 if tier == "quick" else 700
    for i in range(n):
        for j, kind in enumerate(KINDS_A):
            c = i * len(KINDS_A) + j
            out.append(_with_seed({"engine": "A", "kind": kind, "seed": seed * 2750159 + c * 19 + 11,
                                   "force_kind": DOMAIN_KINDS[c % len(DOMAIN_KINDS)]}, i))
    return out


def floors(tier):
    k = 1 if tier == "quick" else 17
    f = {"A:hist30:" + kind: 20 * k for kind in KINDS_A}
    f.update({
        "decided:twin_suggestion": 5000 * k,
        "decided:twin_decision": 10000 * k,
        "A:gaps_perturbed": 40000 * k,
        "A:decoys_constructed": 1500 * k,
        "A:decoy_steps": 20000 * k,
        "A:resume_suggestions": 300 * k,
        "A:histories_with_failure": 80 * k,
        "A:pbt_warm_starts": 30 * k,
        "A:dehb_beyond_first_bracket": 30 * k,
        "A:rea_mutations": 30 * k,
        "A:multi_bracket_histories": 40 * k,
        "decided:process_pair": 24 if tier == "quick" else 300,
        "B:gp_model_based_suggestions": 30 if tier == "quick" else 300,
        "B:cases_with_distinct_string_hashes": 12 if tier == "quick" else 120,
        "decided:result_table_cells": 2000 if tier == "quick" else 20000,
    })
    for sc in set(_b_plan(tier)):
        f["B:hashseeds:" + sc] = 3
    for target in S_TARGETS:
        f["S:hist20:" + target] = 8 * k
    f["S:hist20_sharing_restrict_configurations"] = 12 * k
    f["S:hist20_sharing_points_to_evaluate"] = 15 * k
    f["decided:shared_args_equal_to_solo_run"] = 90 * k
    f["decided:caller_arguments_unchanged"] = 100 * k
    for dk in DOMAIN_KINDS:
        f["domain_kind_in_twin_spaces:" + dk] = 15 * k
        f["domain_kind_in_child_spaces:" + dk] = 2 if tier == "quick" else 20
    f["B:cases_with_quantized_domain"] = 8 if tier == "quick" else 80
    f["A:plain_rush_twins_without_rung_system_kwargs:hb_rush_stopping"] = 10 * k
    f["A:plain_rush_twins_without_rung_system_kwargs:hb_rush_promotion"] = 10 * k
    f["A:option_decoy_between_twin_constructions"] = 200 * k
    f["A:option_decoy_between_plain_rush_twins"] = 12 * k
    for lb, m in (("rush_with_explicit_rung_system_kwargs", 150), ("RUSHScheduler", 100), ("all_options_nondefault", 400)):
        f["A:option_decoys:" + lb] = m * k
    kb = 1 if tier == "quick" else 5
    for kind in HASH_KINDS:
        f["fresh_process_hash_twins:" + kind] = 6 * kb
        f["fresh_process_hash_twins_with_duplicated_string_categories:" + kind] = 3 * kb
    f["spaces_with_duplicated_categories"] = 60 * kb
    for kind, m in (("tl_rush_stopping", 10), ("tl_rush_promotion", 10), ("tl_bbox_fifo", 5), ("tl_bbox_hb", 5)):
        f["fresh_process_hash_twins:" + kind] = m * kb
    f["fresh_process_rush_twins_with_2+_candidates_string_and_numeric_hps"] = 20 * kb
    f["fresh_process_rush_twins_threshold_candidates"] = 60 * kb
    for nc, m in ((0, 8), (1, 2), (2, 3), (3, 2)):
        f[f"fresh_process_rush_twins_custom_rush_points:{nc}"] = m * kb
    f["fresh_process_rush_twins_custom_point_duplicates_source_best"] = 3 * kb
    f["fresh_process_grid_twins_with_duplicated_string_categories:shuffle_true"] = 3 * kb
    f["fresh_process_grid_twins_with_duplicated_string_categories:shuffle_false"] = 3 * kb
    kn = 1 if tier == "quick" else 10
    for lb, m in (("seed", 60), ("mode", 30), ("space", 30), ("max_t", 30), ("brackets", 15), ("rung_levels", 15)):
        f["neighbour_differs_in:" + lb] = m * kn
    f["N:suggestions_compared"] = 5000 * kn
    f["N:hyperband_multi_bracket_targets_with_100_suggestions"] = 12 * kn
    f["decided:neighbour_run_equals_solo_run_in_pristine_process"] = 40 * kn
    f["decided:neighbour_run_in_worker_equals_solo_run_in_pristine_process"] = 40 * kn
    f["N:targets_with_random_seed_0"] = 5 * kn
    for kind in KINDS_A:
        f["twins_with_random_seed_0:" + kind] = 5 * k
        f["twins_with_boundary_random_seed:" + kind] = 5 * k
    f["S:shared_twins_with_random_seed_0"] = 15 * k
    f["B:fresh_process_histories_with_random_seed_0"] = 6 if tier == "quick" else 40
    f["B:fresh_process_cases_with_random_seed_0:sim"] = 1 if tier == "quick" else 10
    f["B:fresh_process_cases_with_random_seed_0:vt_gp"] = 1 if tier == "quick" else 10
    return f


# =============================================================================================
# canonical form (floats via repr, type of every scalar kept)


def canon(x):
    import numpy as np

    if x is None or isinstance(x, (bool, str)):
        return x
    if isinstance(x, (np.bool_,)):
        return ["np.bool", bool(x)]
    if isinstance(x, int):
        return ["i", x]
    if isinstance(x, np.integer):
        return [type(x).__name__, int(x)]
    if isinstance(x, float):
        return ["f" if type(x) is float else type(x).__name__, float.__repr__(float(x))]
    if isinstance(x, np.floating):
        return [type(x).__name__, float.__repr__(float(x))]
    if isinstance(x, dict):
        return {"d": sorted(([str(k), canon(v)] for k, v in x.items()), key=lambda kv: kv[0])}
    if isinstance(x, (list, tuple)):
        return [type(x).__name__, [canon(v) for v in x]]
    if isinstance(x, np.ndarray):
        return ["nd", str(x.dtype), [canon(v) for v in x.tolist()]]
    return ["repr", type(x).__name__, repr(x)[:200]]


def canon_suggestion(s):
    if s is None:
        return None
    return {"spawn": bool(s.spawn_new_trial_id), "ckpt": canon(s.checkpoint_trial_id),
            "config": canon(s.config) if s.config is not None else None}


def dumps(x):
    return json.dumps(x, sort_keys=True)


def suggestion_diff_field(a, b):
    if (a is None) != (b is None):
        return "none_vs_suggestion"
    if a["spawn"] != b["spawn"]:
        return "start_vs_resume"
    if a["ckpt"] != b["ckpt"]:
        return "trial_id"
    ca, cb = a["config"], b["config"]
    if (ca is None) != (cb is None):
        return "config_none_vs_dict"
    ka, kb = [k for k, _ in ca["d"]], [k for k, _ in cb["d"]]
    if ka != kb:
        return "config_keys"
    for (k, va), (_, vb) in zip(ca["d"], cb["d"]):
        if va != vb:
            if isinstance(va, list) and isinstance(vb, list) and va[:1] != vb[:1]:
                return "config_value_type"
            return "config_value"
    return "other"



# =============================================================================================
# configuration spaces with every Domain kind the library ships (JSON descriptions)

DOMAIN_KINDS = [
    "uniform", "loguniform", "reverseloguniform", "quniform", "qloguniform", "randint", "lograndint", "qrandint",
    "qlograndint", "choice", "ordinal_equal", "ordinal_nn", "logordinal", "finrange", "finrange_int", "logfinrange",
    "logfinrange_int",
    # unusual but legal categoricals: duplicated values, a single value, float / bool values
    "choice_dup_str", "choice_dup_int", "choice_single", "ordinal_equal_dup", "choice_float", "choice_bool",
]
UNUSUAL_KINDS = ["choice_dup_str", "choice_dup_int", "choice_single", "ordinal_equal_dup", "choice_float", "choice_bool"]
DUP_KINDS = ("choice_dup_str", "choice_dup_int", "ordinal_equal_dup")
FINITE_KINDS = ["randint", "qrandint", "choice", "ordinal_equal", "ordinal_nn", "logordinal", "finrange",
                "finrange_int", "logfinrange", "logfinrange_int"] + UNUSUAL_KINDS
CATEGORICAL_STYLE = ["choice", "choice_dup_str", "choice_dup_str", "choice_dup_int", "choice_single", "ordinal_equal",
                     "ordinal_equal_dup", "choice_float", "choice_bool", "ordinal_nn", "logordinal", "finrange",
                     "randint", "uniform"]
TRULY_INFINITE = ("uniform", "loguniform", "reverseloguniform")
QUANTIZED_KINDS = ("quniform", "qloguniform", "qrandint", "qlograndint")


def desc_kind(d):
    """Counter name of one hyperparameter description."""
    k = d[0]
    if k == "ordinal":
        return "ordinal_equal_dup" if len(set(d[1])) < len(d[1]) else "ordinal_" + d[2]
    if k == "choice":
        cats = d[1]
        if len(cats) == 1:
            return "choice_single"
        if len(set(cats)) < len(cats):
            return "choice_dup_str" if isinstance(cats[0], str) else "choice_dup_int"
        if isinstance(cats[0], bool):
            return "choice_bool"
        if isinstance(cats[0], float):
            return "choice_float"
        return "choice"
    if k in ("finrange", "logfinrange") and len(d) > 4 and d[4]:
        return k + "_int"
    return k


def domain_desc(rng, kind, small=False):
    """One hyperparameter of the given kind. Quantized domains: q divides both bounds and everything is exactly
    representable (the out-of-bounds samples of C07-F2/F4 do not occur); ordinal nn / logordinal have >= 2 categories
    (C07-F6); integer finite ranges have distinct members (C06-F4, C07-F12)."""
    if kind == "uniform":
        lo = rng.choice([0.0, -1.0, 0.5])
        return ["uniform", lo, lo + rng.choice([1.0, 2.5, 10.0])]
    if kind == "loguniform":
        return ["loguniform", rng.choice([1e-5, 1e-3, 0.1]), rng.choice([1.0, 10.0])]
    if kind == "reverseloguniform":
        return ["reverseloguniform"] + rng.choice([[0.5, 0.99], [0.9, 0.999], [0.0, 0.75]])
    if kind == "quniform":
        return ["quniform"] + rng.choice([[0.0, 8.0, 0.5], [-2.0, 2.0, 0.25], [1.0, 5.0, 1.0], [0.0, 64.0, 0.125]])
    if kind == "qloguniform":
        return ["qloguniform"] + rng.choice([[0.25, 16.0, 0.25], [0.5, 64.0, 0.5], [1.0, 1024.0, 1.0], [0.125, 8.0, 0.125]])
    if kind == "randint":
        lo = rng.randint(0, 5)
        return ["randint", lo, lo + (rng.randint(1, 3) if small else rng.randint(1, 50))]
    if kind == "lograndint":
        return ["lograndint", rng.randint(1, 4), rng.randint(5, 8) if small else rng.randint(8, 300)]
    if kind == "qrandint":
        return ["qrandint"] + rng.choice([[0, 20, 5], [2, 12, 2], [0, 64, 8], [3, 30, 3]] if not small else [[0, 15, 5], [2, 8, 2], [0, 12, 4]])
    if kind == "qlograndint":
        return ["qlograndint"] + rng.choice([[4, 64, 4], [2, 32, 2], [1, 100, 1], [8, 512, 8]] if not small else [[2, 8, 2], [4, 16, 4], [1, 5, 1]])
    if kind == "choice":
        return ["choice", [f"c{j}" for j in range(rng.randint(2, 4))]]
    if kind in ("choice_dup_str", "choice_dup_int", "ordinal_equal_dup"):
        m = rng.randint(2, 4)
        as_str = kind == "choice_dup_str" or (kind == "ordinal_equal_dup" and rng.random() < 0.6)
        base = [f"v{j}" for j in range(m)] if as_str else rng.sample(range(1, 30), m)
        cats = base + [rng.choice(base) for _ in range(rng.randint(1, 2))]  # some value listed more than once
        rng.shuffle(cats)
        return ["choice", cats] if kind != "ordinal_equal_dup" else ["ordinal", cats, "equal"]
    if kind == "choice_single":
        return ["choice", [rng.choice(["only", 7])]]
    if kind == "choice_float":
        return ["choice", rng.sample([0.25, 0.5, 1.5, 2.0, 8.0], rng.randint(2, 3))]
    if kind == "choice_bool":
        return ["choice", rng.choice([[True, False], [False, True]])]
    if kind in ("ordinal_equal", "ordinal_nn"):
        cats = sorted(rng.sample(range(1, 40), rng.randint(2, 4)))
        if kind == "ordinal_nn" and rng.random() < 0.3:
            cats = [c / 4 for c in cats]
        return ["ordinal", cats, kind[8:]]
    if kind == "logordinal":
        return ["logordinal", sorted(rng.sample([1, 2, 4, 8, 16, 32, 64, 100], rng.randint(2, 4)))]
    if kind == "finrange":
        return ["finrange", 0.0, 1.0, rng.randint(2, 4)]
    if kind == "finrange_int":
        return ["finrange"] + rng.choice([[1, 9, 5], [0, 10, 6], [2, 8, 4], [0, 3, 4]]) + [True]
    if kind == "logfinrange":
        return ["logfinrange"] + rng.choice([[0.001, 1.0, 4], [1.0, 16.0, 5], [0.5, 8.0, 3]])
    if kind == "logfinrange_int":
        return ["logfinrange"] + rng.choice([[1, 16, 5], [1, 64, 4], [2, 32, 5]]) + [True]
    raise ValueError(kind)


def full_space(rng, with_const=True, finite=False, ensure_infinite=False, force_kind=None, kinds=None, style=None):
    """A small mixed configuration space drawn from ALL domain kinds (``gen.small_space`` knows 7 of them)."""
    if style == "categorical":  # mostly (string-valued) categoricals: what hash randomisation can reorder
        kinds = [k for k in CATEGORICAL_STYLE if not finite or k in FINITE_KINDS]
    kinds = list(kinds or (FINITE_KINDS if finite else DOMAIN_KINDS))
    n = rng.randint(2, 4)
    desc = {}
    for i in range(n):
        desc[f"h{i}"] = domain_desc(rng, rng.choice(kinds), small=finite)
    forced = [force_kind] if isinstance(force_kind, str) else list(force_kind or [])
    for i, fk in enumerate(forced):
        if not finite or fk in FINITE_KINDS:
            desc[f"h{i + 1}"] = domain_desc(rng, fk, small=finite)
    if ensure_infinite and not any(desc_kind(d) in TRULY_INFINITE for d in desc.values()):
        desc["h0"] = ["uniform", 0.0, 1.0]
    if with_const and rng.random() < 0.5:
        desc["const_s"] = ["const", "abc"]
    if with_const and rng.random() < 0.3:
        desc["const_i"] = ["const", 7]
    return desc


def build_space(desc):
    """JSON description -> config space; every call builds fresh Domain objects."""
    from syne_tune import config_space as cs

    out = {}
    for name, d in desc.items():
        k = d[0]
        if k == "reverseloguniform":
            out[name] = cs.reverseloguniform(d[1], d[2])
        elif k == "quniform":
            out[name] = cs.quniform(d[1], d[2], d[3])
        elif k == "qloguniform":
            out[name] = cs.qloguniform(d[1], d[2], d[3])
        elif k == "qrandint":
            out[name] = cs.qrandint(d[1], d[2], d[3])
        elif k == "qlograndint":
            out[name] = cs.qlograndint(d[1], d[2], d[3])
        elif k == "logordinal":
            out[name] = cs.logordinal(list(d[1]))
        elif k == "finrange" and len(d) > 4:
            out[name] = cs.finrange(d[1], d[2], d[3], cast_int=bool(d[4]))
        elif k == "logfinrange" and len(d) > 4:
            out[name] = cs.logfinrange(d[1], d[2], d[3], cast_int=bool(d[4]))
        else:
            out[name] = gen.build_space({name: d})[name]
    return out


def space_kinds(desc):
    return sorted({desc_kind(d) for d in desc.values() if d[0] != "const"})


def column_values(d):
    """All values a table column of this (finite) domain can take when drawn through Domain.sample / decoded."""
    k = d[0]
    if k in ("choice", "ordinal", "logordinal"):
        return list(dict.fromkeys(d[1]))
    if k in ("randint", "lograndint", "qrandint", "qlograndint"):
        # quantized integers: samples are multiples of q, but the mid-point rule for the first suggestion is not
        return list(range(d[1], d[2] + 1))
    dom = build_space({"x": d})["x"]
    return [dom.cast(v) for v in dom.values]


# =============================================================================================
# scheduler kinds (engine A; also used by the children of engine B)


def _sample_configs(space_desc, n, seed):
    import numpy as np

    space = build_space(space_desc)
    rs = np.random.RandomState(seed)
    out = []
    for _ in range(n):
        c = {}
        for k, v in space.items():
            c[k] = v.sample(random_state=rs) if hasattr(v, "sample") else v
        out.append(json.loads(json.dumps(c, default=lambda z: z.item())))
    return out


def expand_a(spec):
    """All generator parameters of an engine-A history (JSON); explicit keys of the spec override."""
    kind = spec["kind"]
    rng = random.Random(spec["seed"] * 31 + KINDS_A.index(kind))
    p = {"kind": kind, "sched_seed": rng.randrange(2 ** 31 - 1)}
    p["curves"] = rng.choice(["continuous", "continuous", "ties", "crossing", "const"])
    p["n_workers"] = rng.randint(1, 8)
    p["policy"] = rng.choice(["uniform", "round_robin", "starve", "burst", "eager"])
    p["max_events"] = rng.randint(60, 260)
    p["fail_rate"] = rng.choice([0.0, 0.0, 0.1, 0.25])
    p["checkpointing"] = rng.random() < 0.6
    p["use_mra"] = False
    p["mode"] = rng.choice(["min", "max"])
    fk, style = spec.get("force_kind"), spec.get("space_style")
    p["space"] = full_space(rng, ensure_infinite=True, force_kind=fk, style=style)
    if kind.startswith("fifo") or kind in ("rea", "morea"):
        p["max_t"] = rng.randint(1, 4)
        p["max_trials"] = rng.randint(20, 80)
        p["n_points"] = rng.choice([0, 0, 1, 2])
        if kind == "fifo_random":
            p["variant"] = rng.choice(["plain", "plain", "restrict", "allow_duplicates"])
        elif kind == "fifo_grid":
            p["space"] = full_space(rng, finite=rng.random() < 0.3, force_kind=fk, style=style)
            p["shuffle"] = rng.random() < 0.85
        else:
            p["population_size"] = rng.randint(3, 8)
            p["sample_size"] = rng.randint(2, 4)
    elif kind.startswith("hb_"):
        typ = kind[3:]
        for _ in range(50):
            hp = gen.hyperband_params(rng, [typ])
            if typ == "pasha":
                hp["brackets"] = 1
                hp["rung_system_per_bracket"] = False
                if len(gen.ref_rung_levels(hp)) < 2:
                    continue  # PASHA with a single rung level: C04-K1
            elif rng.random() < 0.5:
                hp["brackets"] = rng.choice([2, 3, 4])
            break
        p.update(hp)
        p["max_trials"] = rng.randint(6, 40)
        p["use_mra"] = rng.random() < 0.5
        if typ.startswith("rush"):
            p["rush_candidates"] = rng.choice([0, 1, 2, 3])
            # half of the RUSH-type twins are built WITHOUT rung_system_kwargs (documented default: 0 threshold
            # candidates) but with points_to_evaluate, which would become threshold candidates if the default leaked
            p["rush_explicit_kwargs"] = rng.random() < 0.5
            p["rush_points"] = rng.randint(1, 3)
        if typ == "cost_promotion":
            p["curves"] = rng.choice(["continuous", "crossing"])
    elif kind in ("sync_hb", "dehb"):
        from stv.props import c05

        for a in range(200):
            subs = ("sync_custom", "sync_geometric") if kind == "sync_hb" else ("dehb", "dehb_geometric")
            q = c05.expand_b({"seed": rng.randrange(2 ** 30)})
            sub = q["kind"]
            if sub not in subs:
                continue
            if sub == "dehb":
                q["num_brackets"] = len(q["rungs_first_bracket"])  # fewer brackets than rungs: C05-K2
            if sub == "dehb_geometric":
                q["brackets"] = None
            q["space"] = p["space"]
            try:  # geometric rung levels rounding to max_resource make the constructor raise (C05-K3): regenerate
                c05.build_sync(q, build_space(q["space"]), 1)
                break
            except Exception:  # noqa: BLE001
                continue
        for k_ in ("kind", "rungs_first_bracket", "num_brackets", "bracket_rungs", "grace_period", "reduction_factor",
                   "brackets", "max_level", "support_pause_resume", "use_mra", "space"):
            if k_ in q:
                p["sync_" + k_ if k_ in ("kind", "brackets") else k_] = q[k_]
        p["max_t"] = q["max_level"]
        p["max_events"] = rng.randint(80, 320)
        if kind == "dehb":
            p["fail_rate"] = 0.0  # DEHB after a failed trial: C05-K1 / C13
    elif kind == "pbt":
        p["max_t"] = rng.randint(4, 14)
        p["population_size"] = rng.randint(2, 6)
        p["n_workers"] = rng.choice([p["population_size"], p["population_size"], rng.randint(1, 8)])
        p["perturbation_interval"] = rng.randint(1, 3)
        p["quantile_fraction"] = rng.choice([0.25, 0.5, 0.34])
        p["resample_probability"] = rng.choice([0.25, 0.5, 1.0, 0.0])
        p["pbt_restart_levels"] = rng.random() < 0.5
        p["max_trials"] = rng.randint(10, 60)
        p["n_points"] = rng.choice([0, 0, 1])
        p["curves"] = rng.choice(["continuous", "crossing", "ties"])
    p["points_seed"] = rng.randrange(2 ** 31 - 1)
    p["vt_seed"] = rng.randrange(2 ** 31 - 1)
    p.update({k: v for k, v in spec.items() if k not in ("seed", "engine", "kind") and not k.startswith("_")})
    return p


def build_scheduler(p, seed, time_keeper=None, args=None):
    """One scheduler instance from the JSON parameters; every call builds fresh argument objects.
    The time keeper is assigned with set_time_keeper after construction (passing ``time_keeper=`` to the
    FIFOScheduler constructor raises AttributeError in this revision: attribute read before it is set)."""
    s = _build_scheduler(p, seed, args)
    if time_keeper is not None:
        s.set_time_keeper(time_keeper)
    return s


def make_args(p):
    """Fresh argument objects of one instance: config space dict, points_to_evaluate list (or None), search_options
    dict (holding the restrict_configurations list / num_samples dict where the kind uses them)."""
    kind = p["kind"]
    space = build_space(p["space"])
    pv = p.get("pts_variant")
    npts = p.get("n_points", 0)
    if pv == "empty":
        pts = []
    elif pv == "none":
        pts = None
    else:
        pts = _sample_configs(p["space"], npts, p["points_seed"]) if npts else None
    so = {"debug_log": False}
    if p.get("nondefault_options") and not kind.startswith("hb_"):
        so["allow_duplicates"] = True
        if pts is None and kind not in ("sync_hb", "dehb"):
            pts = _sample_configs(p["space"], 2, p["points_seed"] + 7)
    if kind in ("fifo_random", "searcher_random"):
        if p["variant"] == "restrict":
            so["restrict_configurations"] = _sample_configs(p["space"], 40, p["points_seed"] + 1)
            if pv is None:
                pts = None
        elif p["variant"] == "allow_duplicates":
            so["allow_duplicates"] = True
    elif kind in ("fifo_grid", "searcher_grid"):
        so["shuffle_config"] = p["shuffle"]
        if p.get("num_samples") == "partial":  # explicit reproducers only: a num_samples dict naming one hyperparameter
            name = sorted(k for k, d in p["space"].items() if d[0] != "const")[0]
            so["num_samples"] = {name: 3}
    elif kind.startswith("hb_"):
        if p["use_mra"]:
            space["epochs"] = p["max_t"]
        nc = p.get("rush_candidates", 0) if kind[3:].startswith("rush") else 0
        if kind[3:].startswith("rush") and not p.get("rush_explicit_kwargs", True):
            nc = p.get("rush_points", 2)
        if p.get("nondefault_options"):
            nc = max(nc, 2)
            so["allow_duplicates"] = True
        if nc > 0:
            pts = _sample_configs(p["space"], nc, p["points_seed"])
        if p.get("variant") == "restrict":
            so["restrict_configurations"] = _sample_configs(p["space"], 40, p["points_seed"] + 1)
    elif kind == "pbt" and p.get("variant") == "restrict":  # explicit reproducers only (PBT documents: not supported)
        so["restrict_configurations"] = _sample_configs(p["space"], 40, p["points_seed"] + 1)
    return {"space": space, "pts": pts, "so": so}


class SearcherAdapter:
    """Scheduler-API adapter around a searcher created *directly* (what FIFOScheduler does with its searcher)."""

    def __init__(self, searcher):
        self.searcher = searcher

    def suggest(self, trial_id):
        from syne_tune.optimizer.scheduler import TrialSuggestion

        config = self.searcher.get_config(trial_id=str(trial_id))
        if config is None:
            return None
        self.searcher.register_pending(trial_id=str(trial_id), config=config)
        return TrialSuggestion.start_suggestion(config)

    def on_trial_add(self, trial):
        return None

    def on_trial_result(self, trial, result):
        self.searcher.on_trial_result(str(trial.trial_id), trial.config, result=result, update=False)
        return "CONTINUE"

    def on_trial_remove(self, trial):
        return None

    def on_trial_complete(self, trial, result):
        self.searcher.on_trial_result(str(trial.trial_id), trial.config, result=result, update=True)

    def on_trial_error(self, trial):
        self.searcher.evaluation_failed(str(trial.trial_id))


# ---------------------------------------------------------------------------------------------
# transfer-learning schedulers (fresh-process face only): RUSH and BoundingBox; ZeroShotTransfer and the quantile-based
# searcher import xgboost, which this sandbox does not have

TL_KINDS = ["tl_rush_stopping", "tl_rush_promotion", "tl_rush_stopping", "tl_bbox_fifo", "tl_rush_promotion", "tl_bbox_hb"]
TL_SPACE_KINDS = ["uniform", "loguniform", "randint", "lograndint", "choice", "choice", "finrange", "ordinal_equal"]


def expand_tl(spec):
    """Parameters of a transfer-learning history: a Hyperband / FIFO parameterisation plus >= 2 source tasks whose best
    configurations differ; the space always has string-valued AND numeric hyperparameters."""
    kind = spec["kind"]
    base = {"tl_rush_stopping": "hb_rush_stopping", "tl_rush_promotion": "hb_rush_promotion", "tl_bbox_fifo": "fifo_random",
            "tl_bbox_hb": "hb_stopping"}[kind]
    rng = random.Random(spec["seed"] * 29 + 11)
    p = expand_a({k: v for k, v in dict(spec, kind=base).items() if k not in ("force_kind", "space_style")})
    p["kind"] = kind
    p["use_mra"] = False
    p["rush_candidates"] = 0
    p["variant"] = "plain"
    bbox = kind.startswith("tl_bbox")
    # BoundingBox: integer hyperparameters make its constructor raise (restrict_domain gets numpy.int64 bounds, 'value =
    # 11 has type numpy.int64'), and initial points need not lie inside the learned box: float / categorical only, no points
    space = full_space(rng, kinds=["uniform", "loguniform", "choice", "choice"] if bbox else TL_SPACE_KINDS,
                       with_const=rng.random() < 0.4)
    space["h0"] = domain_desc(rng, rng.choice(["uniform", "loguniform"] if bbox else ["uniform", "loguniform", "randint"]))
    space["h1"] = ["choice", [f"c{j}" for j in range(rng.randint(3, 5))]]
    p["space"] = space
    p["n_tasks"] = rng.randint(2, 4)
    p["n_evals"] = rng.randint(6, 16)
    p["num_hp_per_task"] = spec.get("num_hp_per_task") or rng.choice([1, 1, 2, 3])
    p["tl_seed"] = rng.randrange(2 ** 31 - 1)
    p["n_points"] = 0 if bbox else rng.choice([0, 0, 2])
    # custom_rush_points: 0-3 extra threshold candidates (about half of the RUSH histories have some), one of them
    # possibly equal to the best configuration of a source task (so that the de-duplication has something to remove)
    p["custom_rush_points"] = rng.choice([0, 0, 0, 1, 2, 3]) if kind.startswith("tl_rush") else 0
    p["custom_dup"] = rng.random() < 0.5
    p["max_events"] = rng.randint(110, 160)  # long enough that every threshold candidate (first trials) is suggested
    p["n_workers"] = max(p["n_workers"], 3)
    p["max_trials"] = max(p.get("max_trials", 0), 30)
    if rng.random() < 0.5:
        p["policy"] = "eager"
    p.update({k: v for k, v in spec.items() if k not in ("seed", "engine", "kind", "force_kind", "space_style") and not k.startswith("_")})
    return p


def transfer_evaluations(p, space):
    import numpy as np
    import pandas as pd
    from syne_tune.optimizer.schedulers.transfer_learning import TransferLearningTaskEvaluations

    out = {}
    for t in range(p["n_tasks"]):
        rs = np.random.RandomState(p["tl_seed"] + 17 * t)
        rows = [{k: (v.sample(random_state=rs) if hasattr(v, "sample") else v) for k, v in space.items()}
                for _ in range(p["n_evals"])]
        out[f"task{t}"] = TransferLearningTaskEvaluations(
            configuration_space=dict(space), hyperparameters=pd.DataFrame(rows), objectives_names=["loss"],
            objectives_evaluations=rs.uniform(size=(p["n_evals"], 1, p["max_t"], 1)))
    return out


def build_transfer(p, seed):
    from syne_tune.optimizer.schedulers import FIFOScheduler, HyperbandScheduler
    from syne_tune.optimizer.schedulers.transfer_learning import BoundingBox, RUSHScheduler

    kind = p["kind"]
    space = build_space(p["space"])
    evals = transfer_evaluations(p, space)
    npts = p.get("n_points", 0)
    pts = _sample_configs(p["space"], npts, p["points_seed"]) if npts else None
    hb = dict(searcher="random", mode=p["mode"], resource_attr="epoch", max_t=p["max_t"], random_seed=seed,
              search_options={"debug_log": False})
    for k in ("grace_period", "reduction_factor", "rung_increment", "rung_levels", "brackets", "rung_system_per_bracket"):
        if p.get(k) is not None:
            hb[k] = p[k]
    if kind.startswith("tl_rush"):
        custom = None
        if p.get("custom_rush_points"):
            custom = _sample_configs(p["space"], p["custom_rush_points"], p["points_seed"] + 3)
            if p.get("custom_dup"):
                best = evals["task0"].top_k_hyperparameter_configurations(1, p["mode"], "loss")[0]
                custom[-1] = dict(best)
        return RUSHScheduler(config_space=space, transfer_learning_evaluations=evals, metric="loss", type=kind[8:],
                             points_to_evaluate=pts, custom_rush_points=custom,
                             num_hyperparameters_per_task=p["num_hp_per_task"], **hb)

    def scheduler_fun(new_space, mode, metric):
        if kind == "tl_bbox_fifo":
            return FIFOScheduler(new_space, searcher="random", metric=metric, mode=mode, random_seed=seed,
                                 points_to_evaluate=pts, search_options={"debug_log": False}, max_t=p["max_t"])
        return HyperbandScheduler(new_space, metric=metric, type="stopping", points_to_evaluate=pts, **hb)

    return BoundingBox(scheduler_fun=scheduler_fun, config_space=space, metric="loss", transfer_learning_evaluations=evals,
                       mode=p["mode"], num_hyperparameters_per_task=p["num_hp_per_task"])


def _build_scheduler(p, seed, args=None):
    from syne_tune.optimizer.schedulers import FIFOScheduler

    kind = p["kind"]
    if kind.startswith("tl_"):
        return build_transfer(p, seed)
    if args is None:
        args = make_args(p)
    space, pts, so = args["space"], args["pts"], args["so"]
    common = dict(metric="loss", mode=p["mode"], random_seed=seed)
    if kind == "searcher_random":
        from syne_tune.optimizer.schedulers.searchers import RandomSearcher

        return SearcherAdapter(RandomSearcher(space, points_to_evaluate=pts, **so, **common))
    if kind == "searcher_grid":
        from syne_tune.optimizer.schedulers.searchers import GridSearcher

        return SearcherAdapter(GridSearcher(space, points_to_evaluate=pts, **so, **common))
    if kind == "fifo_random":
        return FIFOScheduler(space, searcher="random", search_options=so, points_to_evaluate=pts, max_t=p["max_t"], **common)
    if kind == "fifo_grid":
        return FIFOScheduler(space, searcher="grid", search_options=so, points_to_evaluate=pts, max_t=p["max_t"], **common)
    if kind == "rea":
        from syne_tune.optimizer.baselines import REA

        return REA(space, population_size=p["population_size"], sample_size=p["sample_size"],
                   points_to_evaluate=pts, max_t=p["max_t"], **common)
    if kind == "morea":
        from syne_tune.optimizer.baselines import MOREA

        common.pop("metric"), common.pop("mode")
        return MOREA(space, metric=["loss", "loss2"], mode=[p["mode"], "min"], population_size=p["population_size"],
                     sample_size=p["sample_size"], points_to_evaluate=pts, max_t=p["max_t"], **common)
    if kind == "pbt":
        from syne_tune.optimizer.schedulers.pbt import PopulationBasedTraining

        return PopulationBasedTraining(
            space, resource_attr="epoch", max_t=p["max_t"], population_size=p["population_size"],
            perturbation_interval=p["perturbation_interval"], quantile_fraction=p["quantile_fraction"],
            resample_probability=p["resample_probability"], points_to_evaluate=pts,
            search_options=so, **common)
    if kind.startswith("hb_"):
        typ = kind[3:]
        bp = dict(p, type=typ)
        kw = {"search_options": so}
        if p["use_mra"]:
            bp["max_resource_attr"] = "epochs"
        if typ == "cost_promotion":
            kw["cost_attr"] = "cost"
        if p.get("nondefault_options"):  # option decoy: every dict-valued / optional argument set explicitly
            kw["rung_system_kwargs"] = {"num_threshold_candidates": 2}
            kw["early_checkpoint_removal_kwargs"] = {"max_num_checkpoints": 5} if typ in ("promotion", "rush_promotion") else None
            kw["register_pending_myopic"] = True
        elif typ.startswith("rush") and p.get("rush_explicit_kwargs", True):
            kw["rung_system_kwargs"] = {"num_threshold_candidates": p.get("rush_candidates", 0)}
        if pts is not None:
            kw["points_to_evaluate"] = pts
        return gen.build_hyperband(space, bp, seed=seed, **{k: v for k, v in kw.items() if v is not None})
    if kind in ("sync_hb", "dehb"):
        from stv.props import c05

        q = dict(p, kind=p["sync_kind"], brackets=p.get("sync_brackets"))
        s = c05.build_sync(q, space, seed)
        return s
    raise ValueError(kind)


def vt_params(p, seed_shift=0):
    rng = random.Random(p["vt_seed"] + 7 * seed_shift)
    fail = dict(p.get("fail") or {})
    if p["fail_rate"] > 0 and not fail:
        for tid in range(200):
            if rng.random() < p["fail_rate"]:
                fail[str(tid)] = [rng.choice([0, 0, 1]), rng.randint(0, 2)]
    return {
        "n_workers": p["n_workers"], "max_t": p["max_t"], "metric": "loss", "resource_attr": "epoch",
        "policy": p["policy"], "seed": p["vt_seed"] + seed_shift, "max_trials": p.get("max_trials", 10 ** 9),
        "max_events": p["max_events"], "order": p.get("order") if seed_shift == 0 else None,
        "max_resource_attr": "epochs" if p.get("use_mra") else None, "checkpointing": p["checkpointing"],
        "fail": fail, "pbt_restart_levels": p.get("pbt_restart_levels", True),
    }


def make_value_fns(p, seed_shift=0):
    curves = gen.Curves(p["curves"], p["vt_seed"] + 1 + seed_shift, p["max_t"])
    extra_fn = None
    if p["kind"] == "morea":
        c1, c2 = curves, gen.Curves("continuous", p["vt_seed"] + 3 + seed_shift, p["max_t"])

        def curves(trial_id, level, config=None):  # noqa: F811  (two objectives)
            return {"loss": c1(trial_id, level), "loss2": c2(trial_id, level)}

    if p["kind"] == "hb_cost_promotion":
        crng = random.Random(p["vt_seed"] + 9 + seed_shift)
        cum = []
        for _ in range(64):
            acc, row = 0.0, []
            for _l in range(p["max_t"]):
                acc += crng.uniform(0.5, 3.0)
                row.append(acc)
            cum.append(row)

        def extra_fn(trial_id, level, run_no, vt_):
            base = 0.0
            if p["checkpointing"] and run_no > 0 and vt_.run_start_level - 1 >= 1:
                base = cum[trial_id % 64][vt_.run_start_level - 2]
            return {"cost": cum[trial_id % 64][level - 1] - base}

    return curves, extra_fn


class CVTuner(VTuner):
    """VTuner whose warm-started (PBT) trials never start beyond the last level: a clone of a trial that has
    already reached max_t reports max_t once more instead of completing without any report."""

    def do_suggest(self):
        nid = len(self.trials)
        sugg = super().do_suggest()
        t = self.trials.get(nid)
        if t is not None and t.run_max is not None and t.next_level > t.run_max:
            t.next_level = t.run_start_level = t.run_max
        return sugg


def _needs_time_keeper(p):
    return p["kind"] in ("pbt", "rea", "morea") or p["kind"].startswith("fifo") or p["kind"].startswith("hb_")


def new_time_keeper():
    from syne_tune.backend.simulator_backend.time_keeper import SimulatedTimeKeeper

    tk = SimulatedTimeKeeper()
    tk.start_of_time()
    return tk


# =============================================================================================
# perturbation of the global generators and decoys


class Perturber:
    """classes: subset of {"np", "py", "decoy"}; ``same_np`` / ``same_py``: set the generator to the SAME state before
    the calls of both twins (attribution runs) instead of perturbing it differently."""

    def __init__(self, p, seed, classes=("np", "py", "decoy"), same_np=False, same_py=False, o=None):
        self.p = p
        self.rng = random.Random(seed)
        self.classes = set(classes)
        self.same_np, self.same_py = same_np, same_py
        self.o = o
        self.decoys = []
        self.n_built = 0
        self._pair_key = 0
        self.neighbours = None  # engine N: list of (label, params) of near-identical schedulers used instead of plain decoys
        self.step_prob = 1.0
        self.max_pool = 3
        self.cprefix = "A:"
        self.built_labels = {}

    def _count(self, name, n=1):
        if self.o is not None:
            self.o.count(name, n)

    def new_pair(self):
        """Called once before each pair of twin calls."""
        self._pair_key = self.rng.randrange(2 ** 32)

    def gap(self):
        import numpy as np

        rng = self.rng
        if "decoy" in self.classes:
            self.decoy_action()
        if self.same_np:
            np.random.seed(self._pair_key)
        elif "np" in self.classes:
            r = rng.random()
            if r < 0.45:
                np.random.seed(rng.randrange(2 ** 32))
            elif r < 0.6:
                np.random.seed([rng.randrange(2 ** 32), rng.randrange(2 ** 32)])
            elif r < 0.8:
                np.random.rand(rng.randint(1, 7))
            elif r < 0.9:
                np.random.randint(0, 1000, size=rng.randint(1, 4))
            else:
                np.random.normal(size=rng.randint(1, 3))
        if self.same_py:
            random.seed(self._pair_key)
        elif "py" in self.classes:
            r = rng.random()
            if r < 0.5:
                random.seed(rng.randrange(2 ** 63))
            elif r < 0.6:
                random.seed(str(rng.random()))
            else:
                for _ in range(rng.randint(1, 5)):
                    random.random()
        self._count(self.cprefix + "gaps_perturbed")

    def prephase(self):
        """Engine N: every neighbour is created and used (at least one suggestion) BEFORE the scheduler under test exists."""
        for nb in self.neighbours:
            vt = self.build_decoy(nb)
            if vt is None:
                continue
            for _ in range(self.rng.randint(4, 25)):
                if not (vt.n_events < vt.p["max_events"] and vt.step()):
                    break

    def decoy_action(self):
        rng = self.rng
        if self.step_prob < 1.0 and rng.random() > self.step_prob:
            return
        if len(self.decoys) < 2 or rng.random() < 0.08:
            self.build_decoy()
        if self.decoys:
            i = rng.randrange(len(self.decoys))
            vt = self.decoys[i]
            alive = True
            for _ in range(rng.randint(1, 3)):
                alive = vt.n_events < vt.p["max_events"] and vt.step()
                self._count(self.cprefix + "decoy_steps")
                if not alive:
                    break
            if not alive:
                self.decoys.pop(i)

    def option_decoy_params(self, rng=None):
        """A scheduler of the same family built with its dict-valued / optional arguments set to NON-default values
        (search_options, points_to_evaluate, rung_system_kwargs, early_checkpoint_removal_kwargs ...); for the Hyperband
        family also a RUSH-type scheduler with explicit threshold candidates and a RUSHScheduler (which always passes
        num_threshold_candidates)."""
        rng, p = rng or self.rng, self.p
        q = copy.deepcopy(p)
        q["sched_seed"] = rng.randrange(SEED_MAX)
        if p["kind"].startswith("hb_"):
            r = rng.random()
            if r < 0.4:
                q.update(kind=rng.choice(["hb_rush_stopping", "hb_rush_promotion"]), rush_explicit_kwargs=True,
                         rush_candidates=rng.randint(1, 3))
                q.setdefault("rush_points", 2)
                return "rush_with_explicit_rung_system_kwargs", q
            if r < 0.7:
                return "RUSHScheduler", expand_tl({"kind": rng.choice(["tl_rush_stopping", "tl_rush_promotion"]),
                                                   "seed": rng.randrange(2 ** 30)})
            q.update(kind=rng.choice(["hb_rush_stopping", "hb_promotion", "hb_rush_promotion"]), nondefault_options=True)
            q.setdefault("rush_candidates", 0)
            return "all_options_nondefault", q
        q["nondefault_options"] = True
        return "all_options_nondefault", q

    def build_decoy(self, nb=None, option=False, option_rng=None):
        rng, p = self.rng, self.p
        self.n_built += 1
        label = None
        if nb is None and self.neighbours:
            nb = rng.choice(self.neighbours)
        if nb is None and (option or rng.random() < 0.3):
            olabel, q = self.option_decoy_params(option_rng)
            nb = (None, q)
            self._count(self.cprefix + "option_decoys:" + olabel)
        if nb is not None:
            label, p = nb
            seed = p["sched_seed"]
        else:
            seed = p["sched_seed"] if rng.random() < 0.2 else rng.randrange(2 ** 31 - 1)
        tk = new_time_keeper() if _needs_time_keeper(p) else None
        try:
            s = build_scheduler(p, seed, tk)
        except Exception:  # noqa: BLE001  (constructor raises are judged on the twins, not on decoys)
            return None
        shift = 1000 + self.n_built
        curves, extra_fn = make_value_fns(p, shift)
        vp = vt_params(p, shift)
        vp["policy"] = rng.choice(["uniform", "eager", "burst"])
        vt = CVTuner(Port(s), vp, curves, extra_fn=extra_fn)
        if len(self.decoys) >= self.max_pool:
            self.decoys.pop(0)
        self.decoys.append(vt)
        self._count(self.cprefix + "decoys_constructed")
        if label is not None:
            self.built_labels[label] = self.built_labels.get(label, 0) + 1
        return vt


class Diverged(Exception):
    pass


class TwinPort:
    """Same methods as vtuner.Port; forwards every call to both twins (perturbing before each), compares."""

    def __init__(self, twins, pert, o, time_keepers=None, prefix="decided:twin_"):
        self.twins = twins  # two twins, or a single instance (solo reference run: nothing to compare, trace only)
        self.scheduler = twins[0]
        self.pert = pert
        self.o = o
        self.prefix = prefix
        self.time_keepers = time_keepers
        self.divergence = None
        self.ncalls = 0
        self.trace = []
        self.tk_rng = random.Random(pert.p.get("vt_seed", 0) + 77)  # same elapsed times with and without perturbation

    def _call(self, api, **kw):
        self.pert.new_pair()
        if self.time_keepers:
            dt = self.tk_rng.choice([0.0, 0.0, 0.5, 3.25])
            for tk in self.time_keepers:
                tk.advance(dt)
        outs = []
        raw = None
        for i, s in enumerate(self.twins):
            self.pert.gap()
            try:
                r = getattr(s, api)(**copy.deepcopy(kw))
                if i == 0:
                    raw = r
                outs.append(["ok", canon_suggestion(r) if api == "suggest" else canon(r)])
            except Exception as e:  # noqa: BLE001
                if i == 0:
                    raw = e
                outs.append(["raise", type(e).__name__, str(e)[:160]])
        self.ncalls += 1
        self.trace.append([api, outs[0]])
        a, b = outs[0], outs[-1]
        if a != b:
            if a[0] != b[0]:
                field = "one_twin_raised"
            elif a[0] == "raise":
                field = "different_exceptions"
            elif api == "suggest":
                field = suggestion_diff_field(a[1], b[1])
            else:
                field = "decision" if api == "on_trial_result" else "return_value"
            self.divergence = {"api": api, "field": field, "call_index": self.ncalls, "twin1": a, "twin2": b,
                               "args": {k: repr(v)[:200] for k, v in kw.items()}}
            raise SchedRaised(api, Diverged())
        if len(outs) > 1:
            self.o.count(self.prefix + ("suggestion" if api == "suggest" else "decision" if api == "on_trial_result" else "other_call"))
        if a[0] == "raise":
            raise SchedRaised(api, raw)
        return raw

    def suggest(self, trial_id):
        return self._call("suggest", trial_id=trial_id)

    def on_trial_add(self, trial):
        return self._call("on_trial_add", trial=trial)

    def on_trial_result(self, trial, result):
        return self._call("on_trial_result", trial=trial, result=result)

    def on_trial_remove(self, trial):
        return self._call("on_trial_remove", trial=trial)

    def on_trial_complete(self, trial, result):
        return self._call("on_trial_complete", trial=trial, result=result)

    def on_trial_error(self, trial):
        return self._call("on_trial_error", trial=trial)


class ReachMonitor:
    """Counts which seeded mechanisms the history reached (read-only)."""

    def __init__(self, o, p, sched):
        self.o, self.p, self.sched = o, p, sched
        self.sig = []
        self.resumes = 0

    def post_suggest(self, vt, next_id, sugg, t):
        o, kind = self.o, self.p["kind"]
        if sugg is None:
            self.sig.append("N")
            return
        if not sugg.spawn_new_trial_id:
            self.sig.append("R")
            self.resumes += 1
            o.count("A:resume_suggestions")
        else:
            self.sig.append("S")
            if kind == "pbt" and sugg.checkpoint_trial_id is not None:
                o.count("A:pbt_warm_starts")
        try:
            if kind == "dehb":
                slot = self.sched._trial_to_pending_slot.get(next_id if sugg.spawn_new_trial_id else sugg.checkpoint_trial_id)
                if slot is not None and slot.bracket_id > 0:
                    o.count("A:dehb_beyond_first_bracket")
            elif kind in ("rea", "morea"):
                sr = self.sched.searcher
                if len(sr.population) >= sr.population_size:
                    o.count("A:rea_mutations")
        except Exception:  # noqa: BLE001
            pass

    def post_result(self, vt, t, result, decision):
        self.sig.append(decision[0])

    def post_error(self, vt, t):
        self.sig.append("E")

    def post_complete(self, vt, t):
        self.sig.append("C")


def run_twins(p, o, classes=("np", "py", "decoy"), same_np=False, same_py=False, count=True):
    """One lock-step history. Returns (divergence or None, vt or None, monitor)."""
    oo = o if count else Obs()
    pert = Perturber(p, p["vt_seed"] + 5, classes, same_np, same_py, oo)
    twins, tks, errs = [], [], []
    pert.new_pair()
    brng = random.Random(p["vt_seed"] + 91)  # same choice in the attribution re-runs
    between = "decoy" in pert.classes and brng.random() < 0.6
    for i in range(2):
        tk = new_time_keeper() if _needs_time_keeper(p) else None
        pert.gap()
        if i == 1 and between:
            # a scheduler with explicit non-default options is constructed BETWEEN the constructions of the twins
            if pert.build_decoy(option=True, option_rng=brng) is not None:
                oo.count("A:option_decoy_between_twin_constructions")
                if p["kind"].startswith("hb_rush") and not p.get("rush_explicit_kwargs", True):
                    oo.count("A:option_decoy_between_plain_rush_twins")
        try:
            twins.append(build_scheduler(p, p["sched_seed"], tk))
            errs.append(None)
        except Exception as e:  # noqa: BLE001
            twins.append(None)
            errs.append([type(e).__name__, str(e)[:160]])
        tks.append(tk)
    if errs[0] != errs[1]:
        return {"api": "constructor", "field": "one_twin_raised" if None in errs else "different_exceptions",
                "call_index": 0, "twin1": errs[0], "twin2": errs[1]}, None, None
    if errs[0] is not None:
        oo.count("A:constructor_raised_in_both")
        return None, None, None
    port = TwinPort(twins, pert, oo, [t for t in tks if t is not None])
    mon = ReachMonitor(oo, p, twins[0])
    curves, extra_fn = make_value_fns(p)
    vt = CVTuner(port, vt_params(p), curves, extra_fn=extra_fn, monitors=[mon]).run()
    return port.divergence, vt, mon


ATTRIBUTION = [
    # (label, classes, same_np, same_py): first configuration that still diverges names the mechanism
    ("even_unperturbed", (), True, True),
    ("global_numpy", ("np",), False, True),
    ("global_python_random", ("py",), True, False),
    ("decoy_schedulers", ("decoy",), True, True),
]


def run_engine_a(spec, o):
    p = expand_a(spec)
    kind = p["kind"]
    o.count("A:histories")
    div, vt, mon = run_twins(p, o)
    if div is not None:
        label = "combined_only"
        for lab, classes, snp, spy in ATTRIBUTION:
            d2, _, _ = run_twins(p, o, classes, snp, spy, count=False)
            if d2 is not None:
                label = lab
                break
        o.violate(
            "twins_identical_" + ("suggestion" if div["api"] == "suggest" else "decision" if div["api"] == "on_trial_result" else "behaviour"),
            f"A:{kind}:{div['api']}:{div['field']}:{label}",
            {"divergence": div, "params": {k: v for k, v in p.items() if k != "space"}, "space": p["space"]})
    if vt is None:
        o.set_sig(("A", kind, "no_run"), nontrivial=False)
        o.sample = {"engine": "A", "kind": kind, "constructed": False}
        return
    for ev in vt.events[-50:]:
        o.ev(*ev)
    if vt.raised and div is None:
        o.count("A:ended_by_identical_raise:" + kind)
    n = vt.n_events
    if div is None and n >= 30:
        o.count("A:hist30:" + kind)
        if kind.startswith("hb_rush") and not p.get("rush_explicit_kwargs", True):
            o.count("A:plain_rush_twins_without_rung_system_kwargs:" + kind)
        if p["sched_seed"] == 0:
            o.count("twins_with_random_seed_0:" + kind)
        elif p["sched_seed"] in (1, 2, 3, 7, SEED_MAX, SEED_MAX - 1):
            o.count("twins_with_boundary_random_seed:" + kind)
        if kind not in ("dehb", "fifo_grid"):  # these two never call Domain.sample (encoded vectors / grid points)
            for dk in space_kinds(p["space"]):
                o.count("domain_kind_in_twin_spaces:" + dk)
    if div is None:
        if any(e[0] == "error" for e in vt.events):
            o.count("A:histories_with_failure")
        if p.get("brackets", 1) > 1 or (kind in ("sync_hb", "dehb") and getattr(vt.port.scheduler, "num_brackets", 1) > 1):
            o.count("A:multi_bracket_histories")
    o.set_sig(("A", kind, mon.sig), nontrivial=div is None and n >= 30)
    o.sample = {"engine": "A", "params": {k: v for k, v in p.items() if k != "space"}, "space": p["space"], "events": n,
                "twin_calls_compared": vt.port.ncalls, "trace": "".join(mon.sig[:60]),
                "first_events": [list(e) for e in vt.events[:8]]}


# =============================================================================================
# engine B: children


def expand_b(spec):
    sc = spec["scenario"]
    rng = random.Random(spec["seed"] * 17 + 3)
    p = {"scenario": sc, "sched_seed": rng.randrange(2 ** 31 - 1), "vt_seed": rng.randrange(2 ** 31 - 1)}
    if sc == "vt_modelfree":
        p["n_hist"] = len(DOMAIN_KINDS)  # every domain kind forced once, every scheduler kind at least once
        p["base"] = rng.randrange(2 ** 30)
    elif sc == "vt_hashmatrix":
        p["n_hist"] = 3 * len(HASH_KINDS)  # every model-free kind (incl. directly created searchers) three times
        p["base"] = rng.randrange(2 ** 30)
    elif sc == "vt_transfer":
        p["n_hist"] = 3 * len(TL_KINDS)
        p["base"] = rng.randrange(2 ** 30)
    elif sc.startswith("vt_"):
        p["mode"] = rng.choice(["min", "max"])
        p["space"] = full_space(rng, ensure_infinite=True, with_const=rng.random() < 0.5,
                                force_kind=spec.get("force_kind") or rng.choice(QUANTIZED_KINDS))
        p["curves"] = rng.choice(["continuous", "crossing"])
        p["n_workers"] = rng.randint(1, 4)
        p["policy"] = rng.choice(["uniform", "round_robin", "eager", "burst"])
        p["fail_rate"] = rng.choice([0.0, 0.0, 0.15])
        p["checkpointing"] = rng.random() < 0.6
        p["use_mra"] = False
        p["opt_maxiter"] = rng.choice([4, 8, 12])
        p["opt_nstarts"] = rng.choice([1, 2, 2, 3])
        p["num_init_random"] = rng.randint(2, 4)
        p["num_init_candidates"] = rng.choice([20, 50])
        if sc == "vt_gp_fifo":
            p["max_t"] = rng.randint(1, 2)
            p["max_trials"] = rng.randint(9, 14)
            p["max_events"] = 80
        else:
            p["max_t"] = rng.choice([4, 6, 9])
            p["grace_period"] = 1
            p["reduction_factor"] = rng.choice([2, 3])
            p["type"] = "stopping" if sc == "vt_mobster_stopping" else "promotion"
            p["brackets"] = rng.choice([1, 2]) if sc != "vt_hypertune" else rng.choice([2, 3])
            p["model"] = "gp_independent" if sc == "vt_hypertune" else rng.choice(["gp_multitask", "gp_independent"])
            p["use_mra"] = p["type"] == "promotion" and rng.random() < 0.5
            p["max_trials"] = rng.randint(8, 12)
            p["max_events"] = rng.randint(70, 110)
    else:
        sched = sc[4:]
        p["sched"] = sched
        ncol = rng.randint(2, 3)
        # finite domains whose members a table can list; quantized integers only for schedulers which obtain
        # every value through Domain.sample (encoded / perturbed values of an Integer domain are not multiples of q)
        col_kinds = ["choice", "randint", "finrange", "finrange_int", "logfinrange", "logfinrange_int", "lograndint",
                     "ordinal_equal", "ordinal_nn", "logordinal", "choice_dup_str", "choice_dup_int", "ordinal_equal_dup"]
        cols = [domain_desc(rng, rng.choice(col_kinds), small=True) for _ in range(ncol)]
        if sched in ("fifo_random", "hb", "sync_hb", "rea"):
            cols[rng.randrange(ncol)] = domain_desc(rng, rng.choice(["qrandint", "qlograndint"]), small=True)
        for i, c in enumerate(cols):  # keep the table small
            while len(column_values(c)) > 6 and desc_kind(c) not in QUANTIZED_KINDS:
                c = cols[i] = domain_desc(rng, desc_kind(c), small=True)
        p["columns"] = cols
        p["n_fid"] = rng.choice([3, 4, 6, 9])
        p["n_seeds"] = rng.randint(1, 3)
        p["backend_seed"] = rng.randrange(p["n_seeds"])
        p["table_seed"] = rng.randrange(2 ** 31 - 1)
        p["mode"] = rng.choice(["min", "max"])
        p["n_workers"] = rng.randint(1, 4)
        p["tk"] = rng.choice(["zero", "scripted"])
        p["stop"] = rng.choice(["trials", "trials", "time"])
        p["max_num_trials_started"] = rng.randint(10, 22)
        p["max_wallclock_time"] = rng.choice([15.0, 30.0, 60.0])
        p["use_mra"] = rng.random() < 0.5
        p["hb_type"] = rng.choice(["stopping", "promotion", "promotion", "pasha", "rush_stopping"])
        p["brackets"] = rng.choice([1, 2, 3])
        if sched in ("gp_fifo", "mobster", "hypertune"):
            p["max_num_trials_started"] = rng.randint(8, 12)
            p["stop"] = "trials"
            p["opt_maxiter"] = rng.choice([4, 8])
            p["opt_nstarts"] = rng.choice([1, 2])
            p["num_init_random"] = 3
            p["num_init_candidates"] = 20
        if sched == "pbt":
            p["population_size"] = rng.randint(2, 4)
            p["n_workers"] = p["population_size"]
            p["perturbation_interval"] = rng.randint(1, 2)
        if sched == "rea":
            p["population_size"] = rng.randint(3, 5)
            p["sample_size"] = 2
        p["sleep"] = rng.choice([0.25, 0.5, 2.0])  # > 0: with the time stub simulated time advances only by tuner_sleep_time
        p["delays"] = rng.choice(["default", "zero", "large"])
    p.update({k: v for k, v in spec.items() if k not in ("seed", "engine", "scenario") and not k.startswith("_")})
    return p


class GlobalNoise:
    """Child-side perturbation stream of the global generators (differs between the children of a case)."""

    def __init__(self, seed):
        self.rng = random.Random(seed)
        self.n = 0

    def __call__(self):
        import numpy as np

        rng = self.rng
        self.n += 1
        r = rng.random()
        if r < 0.5:
            np.random.seed(rng.randrange(2 ** 32))
            random.seed(rng.randrange(2 ** 63))
        elif r < 0.8:
            np.random.rand(rng.randint(1, 5))
            random.random()
        else:
            np.random.randint(0, 100, size=2)
            random.seed(str(rng.random()))


class NoisyPort(Port):
    """Port of a child: perturbs the global generators before every call and records the canonical trace."""

    def __init__(self, scheduler, noise, trace, time_keeper=None):
        super().__init__(scheduler)
        self.noise, self.trace, self.tk = noise, trace, time_keeper

    def _call(self, api, *a, **k):
        self.noise()
        if self.tk is not None:
            self.tk.advance(0.75)
        try:
            r = super()._call(api, *a, **k)
        except SchedRaised as e:
            self.trace.append([api, "raise", type(e.exc).__name__, str(e.exc)[:160]])
            raise
        if api == "suggest":
            self.trace.append([api, canon_suggestion(r)])
        elif api == "on_trial_result":
            self.trace.append([api, k["trial"].trial_id, canon(k["result"]), canon(r)])
        else:
            self.trace.append([api, k["trial"].trial_id, canon(r)])
        return r


def _gp_search_options(p):
    return {"debug_log": False, "opt_maxiter": p["opt_maxiter"], "opt_nstarts": p["opt_nstarts"],
            "num_init_random": p["num_init_random"], "num_init_candidates": p["num_init_candidates"]}


def _count_model_based(scheduler, counter):
    """Reach counter: how many suggestions came from the fitted model (instance-level wrap, read-only)."""
    sr = getattr(scheduler, "searcher", None)
    fn = getattr(sr, "_get_config_modelbased", None)
    if fn is None:
        return

    def wrapped(*a, **k):
        counter[0] += 1
        return fn(*a, **k)

    sr._get_config_modelbased = wrapped


def child_vt_gp(p, noise, trace, meta):
    from syne_tune.optimizer.schedulers import FIFOScheduler, HyperbandScheduler

    space = build_space(p["space"])
    so = _gp_search_options(p)
    tk = new_time_keeper()
    if p["scenario"] == "vt_gp_fifo":
        s = FIFOScheduler(space, searcher="bayesopt", metric="loss", mode=p["mode"], random_seed=p["sched_seed"],
                          search_options=so, max_t=p["max_t"])
    else:
        so["model"] = p["model"]
        kw = dict(searcher="hypertune" if p["scenario"] == "vt_hypertune" else "bayesopt", metric="loss", mode=p["mode"],
                  resource_attr="epoch", type=p["type"], grace_period=p["grace_period"],
                  reduction_factor=p["reduction_factor"], brackets=p["brackets"], random_seed=p["sched_seed"],
                  search_options=so)
        if p["use_mra"]:
            space["epochs"] = p["max_t"]
            kw["max_resource_attr"] = "epochs"
        else:
            kw["max_t"] = p["max_t"]
        s = HyperbandScheduler(space, **kw)
    s.set_time_keeper(tk)
    nmb = [0]
    _count_model_based(s, nmb)
    q = dict(p, kind=p["scenario"])
    curves, _ = make_value_fns(q)
    vt = CVTuner(NoisyPort(s, noise, trace, tk), vt_params(q), curves).run()
    meta["gp_model_based_suggestions"] = nmb[0]
    meta["events"] = vt.n_events
    if vt.raised:
        trace.append(["vtuner_stopped", repr(vt.raised)[:300]])


HASH_KINDS = KINDS_A + ["searcher_random", "searcher_grid"]


def modelfree_spec(p, j):
    """Spec of the j-th history of a batch child. vt_modelfree: engine-A kinds, every domain kind forced in turn.
    vt_hashmatrix: every model-free kind incl. directly created RandomSearcher / GridSearcher, spaces made mostly of
    (string-valued) categoricals with duplicated values forced: round 0 a choice with duplicated strings (grid:
    shuffle_config False), round 1 an ordinal and a choice with duplicates (grid: shuffle_config True), round 2 one of
    the other unusual categoricals."""
    if p["scenario"] == "vt_transfer":
        return _with_seed(dict({"kind": TL_KINDS[j % len(TL_KINDS)], "seed": p["base"] + 307 * j,
                                "num_hp_per_task": [1, 2, 1, 3][(j // len(TL_KINDS) + j) % 4],
                                "custom_rush_points": [0, 1, 3, 2, 0, 3, 0, 2][(j // len(TL_KINDS) + j) % 8],
                                "custom_dup": j % 2 == 0},
                               **(p.get("history_overrides") or {})), j)
    if p["scenario"] == "vt_hashmatrix":
        kind = HASH_KINDS[j % len(HASH_KINDS)]
        r = (j // len(HASH_KINDS)) % 3
        force = [["choice_dup_str"], ["ordinal_equal_dup", "choice_dup_str"],
                 [UNUSUAL_KINDS[(p["base"] + j) % len(UNUSUAL_KINDS)]]][r]
        sp = _with_seed({"kind": kind, "seed": p["base"] + 211 * j, "force_kind": force, "space_style": "categorical"}, j + r)
        if kind in ("fifo_grid", "searcher_grid") and r < 2:
            sp["shuffle"] = bool(r)
        return sp
    return _with_seed({"kind": KINDS_A[(p["base"] + j) % len(KINDS_A)], "seed": p["base"] + 101 * j,
                       "force_kind": DOMAIN_KINDS[(p["base"] + j) % len(DOMAIN_KINDS)]}, j)


def expand_any(spec):
    """expand_a, also for the directly created searchers (parameters of the corresponding FIFO kind)."""
    kind = spec["kind"]
    if kind.startswith("tl_"):
        return expand_tl(spec)
    if kind.startswith("searcher_"):
        p = expand_a(dict(spec, kind={"searcher_random": "fifo_random", "searcher_grid": "fifo_grid"}[kind]))
        p["kind"] = kind
        return p
    return expand_a(spec)


def child_vt_modelfree(p, noise, trace, meta):
    total = 0
    for j in range(p["n_hist"]):
        sp = modelfree_spec(p, j)
        kind = sp["kind"]
        q = expand_any(sp)
        q["max_events"] = min(q["max_events"], 120 if p["scenario"] == "vt_modelfree" else 70)
        tk = new_time_keeper() if _needs_time_keeper(q) else None
        trace.append(["history", j, kind])
        try:
            s = build_scheduler(q, q["sched_seed"], tk)
        except Exception as e:  # noqa: BLE001
            trace.append(["constructor", "raise", type(e).__name__, str(e)[:160]])
            continue
        # decoys with child-specific seeds live next to the scheduler under observation
        pert = Perturber(q, noise.rng.randrange(2 ** 31), classes=("decoy",))
        curves, extra_fn = make_value_fns(q)

        def both(noise=noise, pert=pert):
            noise()
            pert.gap()

        vt = CVTuner(NoisyPort(s, both, trace, tk), vt_params(q), curves, extra_fn=extra_fn).run()
        total += vt.n_events
        if vt.raised:
            trace.append(["vtuner_stopped", repr(vt.raised)[:300]])
    meta["events"] = total


def make_blackbox(p):
    import itertools

    import numpy as np
    import pandas as pd
    from syne_tune.blackbox_repository.blackbox_tabular import BlackboxTabular
    from syne_tune.config_space import randint

    desc = {f"h{i}": c for i, c in enumerate(p["columns"])}
    space = build_space(desc)
    vals = [column_values(c) for c in p["columns"]]
    rows = list(itertools.product(*vals))
    hp = pd.DataFrame(rows, columns=list(desc))
    rng = np.random.default_rng(p["table_seed"])
    n, ns, nf = len(rows), p["n_seeds"], p["n_fid"]
    ev = np.zeros((n, ns, nf, 2))
    ev[..., 0] = rng.uniform(0, 1, size=(n, ns, nf))
    ev[..., 1] = np.cumsum(rng.uniform(0.5, 2.0, size=(n, ns, nf)), axis=2)
    bb = BlackboxTabular(hp, dict(space), {"epoch": randint(1, nf)}, ev, objectives_names=["loss", "time"])
    return bb, desc


def build_sim_scheduler(p, desc):
    from syne_tune.optimizer.schedulers import FIFOScheduler, HyperbandScheduler

    space = build_space(desc)
    sched, nf, seed = p["sched"], p["n_fid"], p["sched_seed"]
    mra = None
    if p["use_mra"] and sched in ("hb", "sync_hb", "dehb", "mobster", "hypertune"):
        space["epochs"] = nf
        mra = "epochs"
    common = dict(metric="loss", mode=p["mode"], random_seed=seed)
    if sched in ("fifo_random", "fifo_grid"):
        return FIFOScheduler(space, searcher="random" if sched == "fifo_random" else "grid",
                             search_options={"debug_log": False}, **common), mra
    if sched == "gp_fifo":
        return FIFOScheduler(space, searcher="bayesopt", search_options=_gp_search_options(p), **common), mra
    if sched == "rea":
        from syne_tune.optimizer.baselines import REA

        return REA(space, population_size=p["population_size"], sample_size=p["sample_size"], **common), mra
    if sched == "pbt":
        from syne_tune.optimizer.schedulers.pbt import PopulationBasedTraining

        return PopulationBasedTraining(space, resource_attr="epoch", max_t=nf, population_size=p["population_size"],
                                       perturbation_interval=p["perturbation_interval"],
                                       search_options={"debug_log": False}, **common), mra
    if sched in ("hb", "mobster", "hypertune"):
        kw = dict(resource_attr="epoch", grace_period=1, reduction_factor=3 if nf >= 9 else 2, brackets=p["brackets"], **common)
        if sched == "hb":
            typ = p["hb_type"]
            if typ == "pasha":
                kw["brackets"] = 1
            kw.update(searcher="random", type=typ, search_options={"debug_log": False})
        elif sched == "mobster":
            typ = "promotion" if p["hb_type"] in ("promotion", "pasha") else "stopping"
            kw.update(searcher="bayesopt", type=typ, search_options=_gp_search_options(p))
        else:
            typ = "promotion"
            kw.update(searcher="hypertune", type=typ, search_options=dict(_gp_search_options(p), model="gp_independent"),
                      brackets=max(2, p["brackets"]))
        if mra and typ in ("promotion", "pasha"):
            kw["max_resource_attr"] = mra
        else:
            kw["max_t"] = nf
            if mra:
                del space["epochs"]
                mra = None
        return HyperbandScheduler(space, **kw), mra
    from syne_tune.optimizer.schedulers import synchronous as sy

    kw = dict(resource_attr="epoch", grace_period=1, reduction_factor=2 if nf < 9 else 3,
              search_options={"debug_log": False}, **common)
    if mra:
        kw["max_resource_attr"] = mra
    else:
        kw["max_resource_level"] = nf
    if sched == "sync_hb":
        return sy.SynchronousGeometricHyperbandScheduler(space, brackets=p["brackets"], **kw), mra
    return sy.GeometricDifferentialEvolutionHyperbandScheduler(space, brackets=None, **kw), mra


def child_sim(p, noise, trace, meta):
    import pandas as pd
    from syne_tune import StoppingCriterion, Tuner
    from syne_tune.backend.simulator_backend.simulator_backend import SimulatorConfig
    from syne_tune.backend.simulator_backend.simulator_callback import SimulatorCallback
    from syne_tune.backend.simulator_backend.time_keeper import SimulatedTimeKeeper
    from syne_tune.blackbox_repository.simulated_tabular_backend import UserBlackboxBackend
    from syne_tune.tuner_callback import TunerCallback

    script = random.Random(p["table_seed"] + 1)

    class StubTimeKeeper(SimulatedTimeKeeper):
        def real_time_since_last_recent_exit(self):
            self._assert_has_started()
            if p["tk"] == "zero":
                return 0.0
            return script.choice([0.0, 0.0, 0.001, 0.05, 0.4])

    class NoiseCallback(TunerCallback):
        def on_loop_start(self):
            noise()

        def on_loop_end(self):
            noise()

        def on_fetch_status_results(self, trial_status_dict, new_results):
            noise()

        def on_start_trial(self, trial):
            noise()

        def on_resume_trial(self, trial):
            noise()

        def on_trial_result(self, trial, status, result, decision):
            noise()

        def on_trial_complete(self, trial, result):
            noise()

        def on_tuning_sleep(self, sleep_time):
            noise()

    bb, desc = make_blackbox(p)
    scheduler, mra = build_sim_scheduler(p, desc)
    nmb = [0]
    _count_model_based(scheduler, nmb)
    # the scheduler API is additionally wrapped per instance so that the generators are perturbed
    # directly before every scheduler call (the callback hooks alone leave some gaps)
    for api in ("suggest", "on_trial_add", "on_trial_result", "on_trial_remove", "on_trial_complete", "on_trial_error"):
        orig = getattr(scheduler, api)

        def wrapped(*a, _orig=orig, **k):
            noise()
            return _orig(*a, **k)

        setattr(scheduler, api, wrapped)
    sc = {"default": {}, "zero": dict(delay_on_trial_result=0.0, delay_complete_after_final_report=0.0,
                                      delay_complete_after_stop=0.0, delay_start=0.0, delay_stop=0.0),
          "large": dict(delay_on_trial_result=0.7, delay_complete_after_final_report=0.9, delay_start=1.5, delay_stop=0.9)}[p["delays"]]
    class Backend(UserBlackboxBackend):
        def copy_checkpoint(self, src_trial_id, tgt_trial_id):
            # the simulator writes no checkpoint files; PBT's warm start would raise FileNotFoundError in
            # LocalBackend.copy_checkpoint (not C11's subject): simulated as a no-op
            pass

    backend = (Backend if p["sched"] == "pbt" else UserBlackboxBackend)(blackbox=bb, elapsed_time_attr="time", max_resource_attr=mra, seed=p["backend_seed"],
                                  simulator_config=SimulatorConfig(**sc), tuner_sleep_time=p["sleep"])
    backend._time_keeper = StubTimeKeeper()
    if p["stop"] == "time":
        stop = StoppingCriterion(max_wallclock_time=p["max_wallclock_time"], max_num_trials_started=60)
    else:
        stop = StoppingCriterion(max_num_trials_started=p["max_num_trials_started"])
    tuner = Tuner(trial_backend=backend, scheduler=scheduler, stop_criterion=stop, n_workers=p["n_workers"], sleep_time=0,
                  callbacks=[SimulatorCallback(), NoiseCallback()], tuner_name="c11sim", suffix_tuner_name=False,
                  save_tuner=False, print_update_interval=1e9, results_update_interval=1e9)
    tuner.run()
    rows = tuner.callbacks[0].results
    for r in rows:
        trace.append(["row", {str(k): dumps(canon(v)) for k, v in r.items()}])
    try:
        df = pd.read_csv(tuner.callbacks[0].csv_file)
        cols = sorted(df.columns)
        for i in range(len(df)):
            trace.append(["stored_row", {c: repr(df[c].iloc[i]) for c in cols}])
        meta["stored_rows"] = len(df)
    except Exception as e:  # noqa: BLE001
        meta["stored_rows_error"] = repr(e)[:200]
    meta["rows"] = len(rows)
    meta["events"] = len(rows)
    meta["noise_calls"] = noise.n
    meta["gp_model_based_suggestions"] = nmb[0]
    meta["trials"] = len({r["trial_id"] for r in rows})


# =============================================================================================
# engine N: near-identical neighbours created and used in the same process; reference = solo run in a pristine process

N_KINDS = ["hb_stopping", "hb_promotion", "hb_promotion", "hb_stopping", "hb_rush_stopping", "hb_cost_promotion",
           "sync_hb", "dehb", "pbt", "rea", "fifo_random", "hb_pasha"]
N_TARGETS_PER_CASE = 6


def expand_n_target(spec, j):
    """Parameters of the j-th scheduler under test of an engine-N case: Hyperband targets get several brackets, the
    default (geometric) rung levels most of the time and long histories (>= 100 suggestions), so that a change of a
    few percent in a sampling distribution shows."""
    c = spec.get("idx", 0) * N_TARGETS_PER_CASE + j
    kind = N_KINDS[c % len(N_KINDS)]
    seed = spec["seed"] * 97 + j * 13
    rng = random.Random(seed * 7 + 1)
    p = expand_a(_with_seed({"kind": kind, "seed": seed, "force_kind": DOMAIN_KINDS[c % len(DOMAIN_KINDS)]}, c))
    if kind.startswith("hb_"):
        if rng.random() < 0.7:
            p.pop("rung_levels", None)
            p.pop("rung_increment", None)
            p["grace_period"] = rng.choice([1, 1, 2])
            p["reduction_factor"] = rng.choice([2, 3, 3, 4])
            p["max_t"] = rng.choice([9, 16, 27, 27, 32, 81])
        if kind != "hb_pasha":
            p["brackets"] = rng.choice([2, 3, 4])
        p["curves"] = rng.choice(["continuous", "crossing"])
        p["max_events"] = rng.randint(1200, 2000)
        p["max_trials"] = 10 ** 6
        p["n_workers"] = rng.randint(2, 6)
        p["policy"] = rng.choice(["eager", "uniform", "eager"])
        p["fail_rate"] = rng.choice([0.0, 0.0, 0.1])
    else:
        p["max_events"] = rng.randint(150, 300)
        p["max_trials"] = max(p.get("max_trials", 0), 60)
    p.update({k: v for k, v in (spec.get("target_overrides") or {}).items()})
    return p


def neighbour_params(p, rng, first=None):
    """[(label, params)]: schedulers that share all arguments of ``p`` but one (label = the argument that differs).
    ``first``: index of the label whose neighbours are created first (the others follow in random order): which
    near-identical scheduler a process sees FIRST matters for anything memoised per process."""
    kind = p["kind"]
    out = []

    def var(label, **ch):
        q = copy.deepcopy(p)
        q.update(ch)
        out.append((label, q))

    var("seed", sched_seed=rng.randrange(SEED_MAX))
    var("seed", sched_seed=0 if p["sched_seed"] != 0 else 1)
    var("mode", mode="max" if p["mode"] == "min" else "min")
    var("space", space=full_space(rng, ensure_infinite=True))
    if kind.startswith("hb_"):
        mt = p["max_t"]
        if p.get("rung_levels") is not None:
            lv = list(p["rung_levels"])
            var("max_t", max_t=mt + 7)
            var("rung_levels", rung_levels=lv + [mt], max_t=mt + 7)
            if len(lv) > 1:
                var("rung_levels", rung_levels=lv[:-1])
        elif p.get("rung_increment") is not None:
            var("max_t", max_t=mt + 2 * p["rung_increment"])
            var("rung_levels", rung_increment=p["rung_increment"] + 1)
        else:
            rf = p["reduction_factor"]
            var("max_t", max_t=int(round(mt * rf)))  # one more rung level, the others coincide
            if mt // rf > p["grace_period"]:
                var("max_t", max_t=int(mt // rf))
            var("rung_levels", reduction_factor={2: 3, 3: 2, 4: 3, 2.5: 3}.get(rf, 2))
            var("rung_levels", grace_period=p["grace_period"] + 1)
        var("rung_system_kwargs", kind="hb_rush_promotion" if "promotion" in kind or kind == "hb_pasha" else "hb_rush_stopping",
            rush_explicit_kwargs=True, rush_candidates=2, rush_points=2)
        if kind != "hb_pasha":
            var("brackets", brackets=p["brackets"] + 1)
            if p["brackets"] > 1:
                var("brackets", brackets=p["brackets"] - 1)
            var("rung_system_per_bracket", rung_system_per_bracket=not p["rung_system_per_bracket"])
    elif kind == "pbt":
        var("max_t", max_t=p["max_t"] + 3)
        var("population_size", population_size=p["population_size"] + 1)
        var("perturbation_interval", perturbation_interval=p["perturbation_interval"] + 1)
    elif kind in ("rea", "morea"):
        var("max_t", max_t=p["max_t"] + 1)
        var("population_size", population_size=p["population_size"] + 2)
    elif kind == "fifo_random":
        var("max_t", max_t=p["max_t"] + 1)
        var("searcher_options", variant="plain" if p["variant"] != "plain" else "allow_duplicates")
    if first is not None:
        labels = sorted({lb for lb, _ in out})
        fl = labels[first % len(labels)]
        rest = [nb for nb in out if nb[0] != fl]
        rng.shuffle(rest)
        out = [nb for nb in out if nb[0] == fl] + rest
    return out


def run_target(p, neighbours, o=None, prefix="N:"):
    """One history of the scheduler under test; with ``neighbours`` they are created and used first and keep being
    created / stepped between its calls (together with the global-RNG perturbations)."""
    pert = Perturber(p, p["vt_seed"] + 5, ("np", "py", "decoy") if neighbours else (), o=o)
    pert.cprefix = prefix
    if neighbours:
        pert.neighbours, pert.step_prob, pert.max_pool = list(neighbours), 0.3, 6
        pert.prephase()
    tk = new_time_keeper() if _needs_time_keeper(p) else None
    try:
        target = build_scheduler(p, p["sched_seed"], tk)
    except Exception as e:  # noqa: BLE001
        return {"constructor_raised": [type(e).__name__, str(e)[:160]], "calls": [], "n_suggest": 0, "events": 0,
                "labels": pert.built_labels}
    port = TwinPort([target], pert, Obs(), [tk] if tk is not None else [])
    curves, extra_fn = make_value_fns(p)
    vt = CVTuner(port, vt_params(p), curves, extra_fn=extra_fn).run()
    return {"calls": [dumps(t) for t in port.trace], "n_suggest": sum(1 for t in port.trace if t[0] == "suggest"),
            "events": vt.n_events, "labels": pert.built_labels,
            "num_brackets": getattr(target, "num_brackets", 1) if hasattr(target, "terminator") else 1}


def first_call_diff(a, b):
    """First difference of two call lists (json strings of [api, outcome]) -> None | dict(index, api, field, ...)"""
    for i, (x, y) in enumerate(zip(a, b)):
        if x != y:
            jx, jy = json.loads(x), json.loads(y)
            api = jx[0]
            if jx[0] != jy[0]:
                field = "different_api_call"
            elif jx[1][0] != jy[1][0]:
                field = "one_run_raised"
            elif jx[1][0] == "raise":
                field = "different_exceptions"
            elif api == "suggest":
                field = suggestion_diff_field(jx[1][1], jy[1][1])
            else:
                field = "decision" if api == "on_trial_result" else "return_value"
            return {"index": i, "api": api, "field": field, "solo": x[:500], "other": y[:500]}
    if len(a) != len(b):
        return {"index": min(len(a), len(b)), "api": "history_length", "field": "length", "solo": len(a), "other": len(b)}
    return None


def _in_fork(fn):
    """Run fn() in a forked copy of this (pristine) process and return its JSON result."""
    import signal
    import traceback

    r, w = os.pipe()
    pid = os.fork()
    if pid == 0:
        try:
            os.close(r)
            signal.alarm(300)
            try:
                data = json.dumps(fn())
            except BaseException:  # noqa: BLE001
                data = json.dumps({"error": traceback.format_exc()[-1500:]})
            with os.fdopen(w, "w") as f:
                f.write(data)
        finally:
            os._exit(0)
    os.close(w)
    with os.fdopen(r) as f:
        data = f.read()
    os.waitpid(pid, 0)
    try:
        return json.loads(data)
    except Exception:  # noqa: BLE001
        return {"error": "no result from forked run (killed?)"}


def child_neighbours(spec, meta):
    """Child of engine N. This process has only imported the library; every run below happens in its own fork, so each
    starts from the pristine interpreter state: 'alone' (only the scheduler under test ever exists) and 'after'
    (near-identical neighbours first and in between)."""
    targets = []
    for j in range(spec.get("n_targets", N_TARGETS_PER_CASE)):
        p = expand_n_target(spec, j)
        c = spec.get("idx", 0) * N_TARGETS_PER_CASE + j
        nbs = neighbour_params(p, random.Random(p["vt_seed"] + 31), first=c // len(N_KINDS) + c)
        alone = _in_fork(lambda: run_target(p, None))
        after = _in_fork(lambda: run_target(p, nbs))
        t = {"kind": p["kind"], "error": alone.get("error") or after.get("error")}
        if t["error"]:
            targets.append(t)
            continue
        t.update(alone=alone["calls"], n_suggest=alone["n_suggest"], events=alone["events"], labels=after["labels"],
                 num_brackets=alone.get("num_brackets", 1), constructor_raised=alone.get("constructor_raised"),
                 suggest_after=after["n_suggest"], first_label=nbs[0][0])
        d = first_call_diff(alone["calls"], after["calls"])
        if d is None and alone.get("constructor_raised") != after.get("constructor_raised"):
            d = {"index": 0, "api": "constructor", "field": "one_run_raised", "solo": alone.get("constructor_raised"),
                 "other": after.get("constructor_raised")}
        if d is not None:
            d["label"] = "several_only"
            for label in sorted({lb for lb, _ in nbs}):
                only = [nb for nb in nbs if nb[0] == label]
                r = _in_fork(lambda: run_target(p, only))
                if "error" not in r and first_call_diff(alone["calls"], r["calls"]) is not None:
                    d["label"] = label
                    break
        t["diff"] = d
        targets.append(t)
    meta["targets"] = targets


def child_main(argv):
    spec = json.loads(argv[0])
    import numpy as np

    pre = spec["_preamble"]
    np.random.seed(pre % (2 ** 32))
    random.seed(pre)
    np.random.rand(pre % 13)
    for _ in range(pre % 7):
        random.random()
    p = expand_b(spec) if spec.get("engine") != "N" else {"scenario": "neighbours"}
    noise = GlobalNoise(pre * 7919 + 13)
    trace, meta = [], {"hashseed_env": os.environ.get("PYTHONHASHSEED"), "hash_probe": hash("c11-probe") & 0xFFFF}
    real_stdout = sys.stdout
    sys.stdout = open(os.devnull, "w")
    try:
        sc = p["scenario"]
        try:
            if sc == "neighbours":
                child_neighbours(spec, meta)
            elif sc in BATCH_SCEN:
                child_vt_modelfree(p, noise, trace, meta)
            elif sc.startswith("vt_"):
                child_vt_gp(p, noise, trace, meta)
            else:
                child_sim(p, noise, trace, meta)
        except Exception as e:  # noqa: BLE001
            import traceback

            meta["error"] = traceback.format_exc()[-1500:]
            meta["error_type"] = type(e).__name__
    finally:
        sys.stdout = real_stdout
    events = [dumps(t) for t in trace]
    out = {"digest": hashlib.sha1("\n".join(events).encode()).hexdigest(), "events": events, "meta": meta}
    sys.stdout.write(CHILD_MARK + json.dumps(out) + "\n")
    sys.stdout.flush()
    return 0


# =============================================================================================
# engine B: parent


def spawn_child(spec, hashseed, preamble):
    cs = {k: v for k, v in spec.items() if not k.startswith("_")}
    cs["_preamble"] = preamble
    env = dict(os.environ)
    env["PYTHONPATH"] = envshim.VERIF
    env["STV_REPO"] = envshim.REPO
    env["PYTHONDONTWRITEBYTECODE"] = "1"
    for k in ("OMP_NUM_THREADS", "OPENBLAS_NUM_THREADS", "MKL_NUM_THREADS"):
        env[k] = "1"
    env.pop("SYNETUNE_FOLDER", None)
    if hashseed == "random":
        env.pop("PYTHONHASHSEED", None)
    else:
        env["PYTHONHASHSEED"] = hashseed
    try:
        r = subprocess.run([sys.executable, "-m", "stv.props.c11", "--child", json.dumps(cs)], env=env, cwd=envshim.VERIF,
                           capture_output=True, text=True, timeout=CHILD_TIMEOUT)
    except subprocess.TimeoutExpired:
        return {"failed": "timeout"}
    for line in r.stdout.splitlines():
        if line.startswith(CHILD_MARK):
            try:
                return json.loads(line[len(CHILD_MARK):])
            except Exception:  # noqa: BLE001
                break
    return {"failed": f"exit={r.returncode}", "stderr": r.stderr[-1500:]}


def _event_type(ev_json):
    try:
        return str(json.loads(ev_json)[0])
    except Exception:  # noqa: BLE001
        return "unparsable"


def _col_class(col):
    if col.startswith("config_"):
        return "config"
    return {"st_decision": "decision", "st_status": "status", "st_tuner_time": "tuner_time", "trial_id": "trial_id",
            "loss": "metric", "time": "elapsed_time", "epoch": "resource"}.get(col, "other_column")


def compare_children(ref, other):
    """First difference between two child outputs, or None. -> (what, first event type, detail)"""
    a, b = ref["events"], other["events"]
    for i, (x, y) in enumerate(zip(a, b)):
        if x != y:
            et = _event_type(x)
            what = "trace_differs"
            detail = {"index": i, "ref": x[:600], "other": y[:600]}
            if et in ("row", "stored_row") and _event_type(y) == et:
                rx, ry = json.loads(x)[1], json.loads(y)[1]
                if sorted(rx) != sorted(ry):
                    what = "result_columns_differ"
                else:
                    prio = {"trial_id": 0, "resource": 1, "config": 2, "decision": 3, "status": 4, "metric": 5,
                            "elapsed_time": 6, "tuner_time": 7, "other_column": 8}
                    col = min((c for c in rx if rx[c] != ry[c]), key=lambda c: (prio[_col_class(c)], c))
                    what = "result_cell_differs:" + _col_class(col)
                    detail["column"] = col
            elif et == "suggest":
                try:
                    what = "suggestion_differs:" + suggestion_diff_field(json.loads(x)[1], json.loads(y)[1])
                except Exception:  # noqa: BLE001
                    what = "suggestion_differs"
            elif et == "on_trial_result":
                what = "decision_differs"
            return what, et, detail
    if len(a) != len(b):
        longer = a if len(a) > len(b) else b
        return "trace_length_differs", _event_type(longer[min(len(a), len(b))]), {"len_ref": len(a), "len_other": len(b)}
    if ref["digest"] != other["digest"]:
        return "digest_differs_only", "none", {}
    return None


def run_engine_b(spec, o):
    sc = spec["scenario"]
    o.count("B:cases:" + sc)
    rng = random.Random(spec["seed"] + 99)
    children = []
    for hs in spec.get("hashseeds", HASHSEEDS):
        pre = rng.randrange(1, 2 ** 31)
        out = spawn_child(spec, hs, pre)
        o.count("B:children")
        if "failed" in out or out.get("meta", {}).get("error"):
            o.inconclusive("child_failed")
            o.sample = {"engine": "B", "scenario": sc, "hashseed": hs, "child": {k: v for k, v in out.items() if k != "events"}}
            o.set_sig(("B", sc, "child_failed"), nontrivial=False)
            return
        children.append((hs, pre, out))
    ref = children[0]
    diff = None
    for hs, pre, out in children[1:]:
        o.count("decided:process_pair")
        d = compare_children(ref[2], out)
        o.count("B:events_compared", min(len(ref[2]["events"]), len(out["events"])))
        ncell = sum(len(json.loads(e)[1]) for e in ref[2]["events"] if e.startswith('["row"') or e.startswith('["stored_row"'))
        o.count("decided:result_table_cells", ncell)
        if d is not None and diff is None:
            diff = (hs, pre, d)
    o.count("B:hashseeds:" + sc, len({c[0] for c in children}))
    pb = expand_b(spec)
    hist = [expand_any(modelfree_spec(pb, j)) for j in range(pb["n_hist"])] if sc in BATCH_SCEN else []
    if sc in BATCH_SCEN:
        descs = [q["space"] for q in hist]
    elif sc.startswith("vt_"):
        descs = [pb["space"]]
    else:
        descs = [{f"h{i}": c for i, c in enumerate(pb["columns"])}]
    for d_ in descs:
        for dk in space_kinds(d_):
            o.count("domain_kind_in_child_spaces:" + dk)
        if any(dk in DUP_KINDS for dk in space_kinds(d_)):
            o.count("spaces_with_duplicated_categories")
    if any(dk in QUANTIZED_KINDS for d_ in descs for dk in space_kinds(d_)):
        o.count("B:cases_with_quantized_domain")
    for q in hist:
        o.count("fresh_process_hash_twins:" + q["kind"])
        if q["kind"].startswith("tl_rush"):
            nth = q["n_tasks"] * q["num_hp_per_task"]
            o.count("fresh_process_rush_twins_threshold_candidates", nth)
            nc = q.get("custom_rush_points", 0)
            o.count(f"fresh_process_rush_twins_custom_rush_points:{nc}")
            if nc and q.get("custom_dup"):
                o.count("fresh_process_rush_twins_custom_point_duplicates_source_best")
            if nth >= 2 and any(d_[0] == "choice" and isinstance(d_[1][0], str) for d_ in q["space"].values()) and any(
                    d_[0] in ("uniform", "loguniform", "randint", "lograndint") for d_ in q["space"].values()):
                o.count("fresh_process_rush_twins_with_2+_candidates_string_and_numeric_hps")
        dup_str = any(d_[0] in ("choice", "ordinal") and len(set(d_[1])) < len(d_[1]) and isinstance(d_[1][0], str)
                      for d_ in q["space"].values())
        if dup_str:
            o.count("fresh_process_hash_twins_with_duplicated_string_categories:" + q["kind"])
            if q["kind"] in ("fifo_grid", "searcher_grid"):
                o.count("fresh_process_grid_twins_with_duplicated_string_categories:shuffle_" + str(bool(q["shuffle"])).lower())
    if sc in BATCH_SCEN:
        o.count("B:fresh_process_histories_with_random_seed_0", sum(1 for q in hist if q["sched_seed"] == 0))
    elif pb["sched_seed"] == 0:
        o.count("B:fresh_process_cases_with_random_seed_0:" + ("sim" if sc.startswith("sim_") else "vt_gp"))
    meta = ref[2]["meta"]
    o.count("B:gp_model_based_suggestions", meta.get("gp_model_based_suggestions", 0) if sc not in BATCH_SCEN else 0)
    if len({c[2]["meta"].get("hash_probe") for c in children}) > 1:
        o.count("B:cases_with_distinct_string_hashes")
    if sc.startswith("sim_") and meta.get("stored_rows") != meta.get("rows"):
        o.inconclusive("stored_results_not_read")
    if diff is not None:
        hs, pre, (what, et, detail) = diff
        # attribution: same hash seed as the reference, another preamble
        cause = "unattributed"
        if spec.get("attribute", True):
            out = spawn_child(spec, ref[0], pre)
            if "events" in out:
                cause = "global_rng_state" if compare_children(ref[2], out) is not None else "hash_randomisation"
        hist_kind = ""
        if sc in BATCH_SCEN:  # which history of the batch diverged first
            for e in reversed(ref[2]["events"][: detail.get("index", 0) + 1]):
                if e.startswith('["history"'):
                    hist_kind = ":" + json.loads(e)[2]
                    break
        o.violate("fresh_process_twins_identical" if not sc.startswith("sim_") else "result_tables_identical",
                  f"B:{sc}{hist_kind}:{what}:first={et}:{cause}",
                  {"hashseed_ref": ref[0], "hashseed_other": hs, "detail": detail,
                   "params": {k: v for k, v in expand_b(spec).items() if k not in ("space",)}})
        for e in ref[2]["events"][max(0, detail.get("index", 0) - 20): detail.get("index", 0) + 1]:
            o.ev(e[:300])
    n = len(ref[2]["events"])
    o.set_sig(("B", sc, ref[2]["digest"]), nontrivial=diff is None and n >= 10)
    o.sample = {"engine": "B", "scenario": sc, "params": {k: v for k, v in expand_b(spec).items() if k != "space"},
                "children": [{"hashseed": hs, "preamble": pre, "digest": out["digest"], "meta": out["meta"]} for hs, pre, out in children],
                "first_events": [e[:200] for e in ref[2]["events"][:4]], "n_events": n}


# =============================================================================================
# engine S: interleaved instances that share their argument OBJECTS

S_TARGETS = ["searcher_random", "searcher_grid", "fifo_random", "fifo_grid", "hb_promotion", "hb_stopping", "sync_hb",
             "pbt", "rea"]
S_ARG_NAMES = {"rc": "restrict_configurations", "pts": "points_to_evaluate", "space": "config_space", "so": "search_options"}


def expand_s(spec):
    target = spec["target"]
    base = {"searcher_random": "fifo_random", "searcher_grid": "fifo_grid"}.get(target, target)
    rng = random.Random(spec["seed"] * 13 + 5)
    p = expand_a({"kind": base, "seed": spec["seed"], "force_kind": spec.get("force_kind")})
    p["kind"] = target
    if base == "fifo_random":
        p["variant"] = rng.choice(["restrict", "restrict", "plain", "allow_duplicates"])
    elif base.startswith("hb_"):
        p["variant"] = rng.choice(["restrict", "plain"])
    if base not in ("sync_hb",):
        p["pts_variant"] = rng.choice(["none", "empty", "sampled"])
        p["n_points"] = rng.randint(1, 3)
    p["max_events"] = min(p["max_events"], 140)
    p.update({k: v for k, v in spec.items() if k not in ("seed", "engine", "target", "share") and not k.startswith("_")})
    return p


def _args_snapshot(args):
    so = args["so"]
    return {
        "config_space": [[k, repr(v)] for k, v in args["space"].items()],
        "points_to_evaluate": canon(args["pts"]),
        "restrict_configurations": canon(so.get("restrict_configurations")),
        "num_samples": canon(so.get("num_samples")),
        "search_options": canon({"keys": sorted(so), "other_values": {
            k: v for k, v in so.items() if k not in ("restrict_configurations", "num_samples")}}),
    }


def _args_modified(before, after):
    mod = [k for k in before if before[k] != after[k]]
    if "search_options" in mod:  # a key added / removed is a change of the dict, not of the object under the key
        mod = [k for k in mod if not (k in ("restrict_configurations", "num_samples") and (before[k] is None or after[k] is None))]
    return mod


def _drive(p, instances, o, prefix):
    tks = []
    for s in instances:
        if _needs_time_keeper(p):
            tk = new_time_keeper()
            s.set_time_keeper(tk)
            tks.append(tk)
    port = TwinPort(instances, Perturber(p, p["vt_seed"] + 5, classes=()), o, tks, prefix=prefix)
    curves, extra_fn = make_value_fns(p)
    vt = CVTuner(port, vt_params(p), curves, extra_fn=extra_fn).run()
    return port, vt


def run_shared(p, share, o):
    """Solo run with private argument copies, then two instances built from the SAME argument objects (those named
    in ``share``) driven alternately. -> dict(kind of failure or None, detail, ...)"""
    try:
        solo = _build_scheduler(p, p["sched_seed"], make_args(p))
    except Exception as e:  # noqa: BLE001
        return {"fail": None, "constructor_raised": [type(e).__name__, str(e)[:160]]}
    solo_port, solo_vt = _drive(p, [solo], o, "decided:solo_")
    shared = make_args(p)
    before = _args_snapshot(shared)
    space_copy = copy.deepcopy(shared["space"])
    twins = []
    for _ in range(2):
        a = make_args(p)
        for k in share:
            if k == "rc":
                if "restrict_configurations" in shared["so"]:
                    a["so"]["restrict_configurations"] = shared["so"]["restrict_configurations"]
            else:
                a[k] = shared[k]
        try:
            twins.append(_build_scheduler(p, p["sched_seed"], a))
        except Exception as e:  # noqa: BLE001
            return {"fail": "twins_diverge", "detail": {"api": "constructor", "raised": [type(e).__name__, str(e)[:160]],
                                                          "instance": len(twins)}}
    port, vt = _drive(p, twins, o, "decided:shared_args_twin_")
    out = {"fail": None, "events": vt.n_events, "calls": port.ncalls, "vt": vt}
    if port.divergence is not None:
        out.update(fail="twins_diverge", detail=port.divergence)
    elif port.trace != solo_port.trace:
        i = next((i for i, (x, y) in enumerate(zip(port.trace, solo_port.trace)) if x != y), min(len(port.trace), len(solo_port.trace)))
        out.update(fail="differs_from_solo_run", detail={
            "call_index": i, "shared": port.trace[i] if i < len(port.trace) else None,
            "solo": solo_port.trace[i] if i < len(solo_port.trace) else None})
    after = _args_snapshot(shared)
    modified = _args_modified(before, after)
    try:
        if "config_space" not in modified and not (shared["space"] == space_copy):
            modified.append("config_space")
    except Exception:  # noqa: BLE001
        pass
    out["modified"] = {k: {"before": before[k], "after": after[k]} for k in modified}
    return out


def run_engine_s(spec, o):
    p = expand_s(spec)
    target = p["kind"]
    share = list(spec.get("share") or ["space", "pts", "so"])
    o.count("S:cases:" + target)
    r = run_shared(p, share, o)
    params = {k: v for k, v in p.items() if k != "space"}
    if r.get("constructor_raised"):
        o.count("S:constructor_raised_in_solo_run")
        o.set_sig(("S", target, "no_run"), nontrivial=False)
        o.sample = {"engine": "S", "target": target, "constructor_raised": r["constructor_raised"], "params": params}
        return
    if r["fail"] is not None:
        which = "combined_only"
        for k in ("rc", "pts", "space", "so"):
            if k in share or (k == "rc" and "so" in share):
                r2 = run_shared(p, [k], Obs())
                if r2.get("fail") is not None:
                    which = S_ARG_NAMES[k]
                    break
        o.violate("interleaved_instances_sharing_argument_objects", f"shared_argument:{which}:{r['fail']}",
                  {"target": target, "detail": r.get("detail"), "params": params, "space": p["space"]})
    else:
        o.count("decided:shared_args_equal_to_solo_run")
    for k, d in r.get("modified", {}).items():
        o.violate("caller_arguments_unchanged",
                  f"shared_argument:{k}:caller_{'list' if k in ('restrict_configurations', 'points_to_evaluate') else 'dict'}_modified",
                  {"target": target, "before": d["before"], "after": d["after"], "params": params})
    o.count("decided:caller_arguments_unchanged")
    vt = r.get("vt")
    n = r.get("events", 0)
    if r["fail"] is None and n >= 20:
        o.count("S:hist20:" + target)
        if p["sched_seed"] == 0:
            o.count("S:shared_twins_with_random_seed_0")
        elif p["sched_seed"] in (1, 2, 3, 7, SEED_MAX, SEED_MAX - 1, 2 ** 32 - 1, 2 ** 32 - 2):
            o.count("S:shared_twins_with_boundary_random_seed")
        if "restrict_configurations" in make_args(p)["so"]:
            o.count("S:hist20_sharing_restrict_configurations")
        if p.get("pts_variant") == "sampled":
            o.count("S:hist20_sharing_points_to_evaluate")
    if vt is not None:
        for ev in vt.events[-40:]:
            o.ev(*ev)
    o.set_sig(("S", target, p.get("variant"), p.get("pts_variant"), [e[:3] for e in (vt.events if vt else [])]), nontrivial=r["fail"] is None and n >= 20)
    o.sample = {"engine": "S", "target": target, "share": share, "params": params, "space": p["space"], "events": n,
                "calls_compared": r.get("calls")}



def run_engine_n(spec, o):
    out = spawn_child(spec, "0", 1 + spec["seed"] % 1000)
    o.count("N:children")
    if "failed" in out or out.get("meta", {}).get("error") or any(t.get("error") for t in out["meta"].get("targets", [])):
        o.inconclusive("child_failed")
        o.sample = {"engine": "N", "child": {k: (v if k != "meta" else {kk: vv for kk, vv in v.items() if kk != "targets"})
                                             for k, v in out.items() if k != "events"},
                    "target_errors": [t.get("error") for t in out.get("meta", {}).get("targets", []) if t.get("error")][:2]}
        o.set_sig(("N", "child_failed"), nontrivial=False)
        return
    sig, summary, ok = [], [], True
    for j, t in enumerate(out["meta"]["targets"]):
        p = expand_n_target(spec, j)
        kind = p["kind"]
        o.count("N:targets:" + kind)
        params = {k: v for k, v in p.items() if k != "space"}
        if t.get("constructor_raised"):
            o.count("N:constructor_raised_in_solo_run")
            continue
        for lb, n_ in (t.get("labels") or {}).items():
            o.count("neighbour_differs_in:" + lb, n_)
        d = t.get("diff")
        o.count("decided:neighbour_run_equals_solo_run_in_pristine_process")
        if d is not None:
            ok = False
            o.violate("independent_of_other_scheduler_objects",
                      f"N:{kind}:{d['api']}:{d['field']}:neighbour_differs_in={d['label']}",
                      {"target_index": j, "diff": d, "params": params, "space": p["space"], "suggestions_before": sum(
                          1 for c_ in t["alone"][: d["index"]] if c_.startswith('["suggest"'))})
        # the same scheduler under test inside this long-lived worker process (which has created thousands of other
        # schedulers before), again with its neighbours
        c = spec.get("idx", 0) * N_TARGETS_PER_CASE + j
        nbs = neighbour_params(p, random.Random(p["vt_seed"] + 32), first=c // len(N_KINDS) + c + 3)
        o.count("neighbour_created_first:" + nbs[0][0])
        o.count("neighbour_created_first:" + str(t.get("first_label")))
        r = run_target(p, nbs, o)
        o.count("decided:neighbour_run_in_worker_equals_solo_run_in_pristine_process")
        d2 = first_call_diff(t["alone"], r["calls"])
        if d2 is not None and d is None:
            ok = False
            o.violate("independent_of_other_scheduler_objects",
                      f"N:{kind}:{d2['api']}:{d2['field']}:neighbour_differs_in=history_of_the_worker_process",
                      {"target_index": j, "diff": d2, "params": params, "space": p["space"]})
        o.count("N:calls_compared", 2 * len(t["alone"]))
        o.count("N:suggestions_compared", 2 * t["n_suggest"])
        if kind.startswith("hb_") and t.get("num_brackets", 1) > 1 and t["n_suggest"] >= 100:
            o.count("N:hyperband_multi_bracket_targets_with_100_suggestions")
        if p["sched_seed"] == 0:
            o.count("N:targets_with_random_seed_0")
        sig.append((kind, hashlib.sha1("".join(t["alone"]).encode()).hexdigest()[:12]))
        summary.append({"kind": kind, "calls": len(t["alone"]), "suggestions": t["n_suggest"], "neighbours": t.get("labels"),
                        "num_brackets": t.get("num_brackets"), "sched_seed": p["sched_seed"]})
    o.set_sig(("N", sig), nontrivial=ok and len(sig) >= 4)
    o.sample = {"engine": "N", "targets": summary}


def run_case(spec):
    o = Obs()
    if spec.get("engine") == "N":
        run_engine_n(spec, o)
    elif spec.get("engine") == "S":
        run_engine_s(spec, o)
    elif spec.get("engine") == "B":
        run_engine_b(spec, o)
    else:
        run_engine_a(spec, o)
    return o.result()


if __name__ == "__main__":
    if len(sys.argv) >= 3 and sys.argv[1] == "--child":
        sys.exit(child_main(sys.argv[2:]))
    print("usage: python -m stv.props.c11 --child '<json spec>'")
    sys.exit(2)
