"""C12 — tuning terminates on the stopping criterion and leaves nothing running.

Real Tuner runs (simulator and scripted-process backends). A harness callback evaluates, at every
``on_loop_end``, an *independent* reading of the documented StoppingCriterion fields on the tuner's
public ``tuning_status`` (whose counters are themselves compared with counts reconstructed from the
recorded history at every loop end), plus the failure limit. Oracles:
  1. no loop iteration starts after a loop end at which the condition held (with
     wait_trial_completion_when_stopping: no start/resume after it, and the loop ends when nothing runs);
  2. count budgets (trials started / completed / finished) are overshot by at most n_workers;
  3. exhaustion: after suggest() returned None nothing is started, and run() returns once nothing runs;
  4. after run() returns — normally, by an injected exception, or by the failure limit — no scripted
     process is alive and un-killed, the backend reports no trial in progress, the results file exists
     with one row per delivered result, and the status counters equal the history's counts;
  5. bounded progress: a logical bound on loop iterations (firing => inconclusive).
"""
import os
import random

from stv import envshim  # noqa: F401
from stv import gen, simrun
from stv.obs import Obs

ID = "C12"
LEVEL = "exploration"
RULE = (
    "case = one real Tuner.run: StoppingCriterion field(s) (wallclock on simulated time, evaluations, trials started / "
    "completed / finished, metric thresholds; alone and in pairs) x scheduler kind x backend (simulator | scripted "
    "processes) x n_workers x wait_trial_completion_when_stopping x asynchronous_scheduling x ending (criterion | injected "
    "exception at a random scheduler/backend call | failure limit | search-space exhaustion). Distinct = digest of "
    "(criterion fields, ending, number of loop iterations, trials started, trials in each final state); non-trivial = the "
    "run ended for the intended reason after at least 2 loop iterations."
)
ASSUMPTIONS = [
    "the criterion is read from the documented semantics: 'stop once MORE than N ...' for counts, value above / below the "
    "threshold for metrics, simulated time for max_wallclock_time on the simulator",
    "'left running' is judged on the scripted-process backend (real process objects) and through the backend's own trial "
    "statuses; the simulator documents that trials which have not reported yet are invisible to stop_all",
    "max_num_evaluations, cost and metric thresholds: only clause 1 (one poll can deliver arbitrarily many results)",
]
CASE_TIMEOUT = 90

FIELDS = ["max_wallclock_time", "max_num_evaluations", "max_num_trials_started", "max_num_trials_completed",
          "max_num_trials_finished", "max_metric_value", "min_metric_value"]
KINDS = ["fifo_random", "hb_stopping", "hb_promotion", "sync_hb", "median", "fifo_grid", "hb_pasha", "moasha", "pbt", "fifo_bo"]
ENDINGS = ["criterion", "criterion", "criterion", "exception", "failure_limit", "exhaustion"]


class Injected(Exception):
    pass


class InjectedInterrupt(KeyboardInterrupt):
    """Ctrl-C / SIGINT / a spot interruption arriving inside the tuning loop (not an ``Exception``)."""


class InjectedExit(SystemExit):
    pass


INJECT = {"Exception": Injected, "KeyboardInterrupt": InjectedInterrupt, "SystemExit": InjectedExit}


def preload():
    import syne_tune  # noqa: F401
    import syne_tune.optimizer.schedulers.synchronous  # noqa: F401
    import syne_tune.optimizer.schedulers.multiobjective  # noqa: F401
    import syne_tune.blackbox_repository.simulated_tabular_backend  # noqa: F401
    import syne_tune.backend.simulator_backend.simulator_callback  # noqa: F401
    import pandas  # noqa: F401


def cases(tier, seed):
    n = 960 if tier == "quick" else 20000
    out = []
    for i in range(n):
        field = FIELDS[i % len(FIELDS)]
        out.append({"seed": seed * 1299709 + i * 3 + 2, "kind": KINDS[(i // 7) % len(KINDS)], "ending": ENDINGS[(i // 3) % len(ENDINGS)],
                    "backend": "sim" if (field == "max_wallclock_time" or i % 3) else "proc", "field": field})
    return out


def floors(tier):
    k = 1 if tier == "quick" else 25
    f = {f"field_decided:{x}": (15 if x == "max_wallclock_time" else 30) * k for x in FIELDS}
    f.update({"ended:exception": 50 * k, "ended:exception:KeyboardInterrupt": 8 * k, "ended:exception:SystemExit": 8 * k, "ended:exhaustion": 30 * k, "ended:failure_limit": 30 * k, "ended:criterion": 150 * k,
              "decided:loop_ends": 5000 * k, "decided:counters_vs_history": 5000 * k, "decided:post_run_state": 400 * k,
              "decided:budget_overshoot": 100 * k, "runs:wait_trial_completion": 60 * k, "decided:results_file_rows": 300 * k,
              "decided:reentry_with_criterion_holding": 30 * k, "ended_by_criterion_after_exhaustion_with_trials_running": 5 * k,
              "decided:criterion_at_loop_start": 5000 * k,
              "decided:second_experiment_sharing_thresholds": 20 * k,
              "runs:thresholded_metric_nan_in_first_report": 8 * k, "decided:cost_vs_history": 300 * k,
              "field_decided:max_cost": 15 * k, "runs:jobs_stopped_from_outside": 15 * k})
    return f


def expand(spec):
    rng = random.Random(spec["seed"])
    kind, ending = spec["kind"], spec["ending"]
    if kind == "pbt":
        spec = dict(spec, backend="proc")
    if ending == "exhaustion":
        kind = "fifo_grid"
    if spec["backend"] == "sim":
        p = simrun.sim_params(rng, kind=kind)
        p["sjwd"] = True
        lv = p["n_fid"]
    else:
        max_t = rng.choice([3, 4, 8, 9])
        if kind in ("sync_hb", "hb_pasha") and max_t < 4:
            max_t = 4
        use_mra = rng.random() < 0.5
        p = {"kind": kind, "mode": rng.choice(["min", "max"]), "n_workers": rng.randint(1, 6), "max_t": max_t,
             "use_mra": use_mra, "checkpointing": rng.random() < 0.6, "delete_checkpoints": False,
             "plan": {"burst": rng.choice([1, 2, 3]), "late_max": rng.randint(0, 2), "exit_lag_max": rng.randint(0, 2)},
             "sjwd": True, "async": rng.random() < 0.85, "wait": rng.random() < 0.35,
             "space": gen.small_space(rng, ensure_infinite=(kind != "fifo_grid"), finite=(kind == "fifo_grid"), ordinal_kinds=("equal",)),
             "curves": "continuous"}
        if simrun.pause_capable(kind) and not use_mra:
            p["plan"]["burst"] = 1
        lv = max_t
    p["wait"] = rng.random() < 0.35
    # ---- stop criterion: one or two fields
    pool = FIELDS if spec["backend"] == "sim" else [f for f in FIELDS if f != "max_wallclock_time"]
    fields = [spec["field"]] if spec.get("field") in pool else [rng.choice(pool)]
    if rng.random() < 0.3:
        fields.append(rng.choice([f for f in pool if f not in fields]))
    stop = {}
    for f in fields:
        if f == "max_wallclock_time":
            stop[f] = rng.uniform(2.0, 20.0) * lv
        elif f == "max_num_evaluations":
            stop[f] = rng.randint(5, 120)
        elif f == "max_num_trials_started":
            stop[f] = rng.randint(2, 20)
        elif f == "max_num_trials_completed":
            stop[f] = rng.randint(0, 5)
        elif f == "max_num_trials_finished":
            stop[f] = rng.randint(1, 10)
        elif f == "max_metric_value":
            stop[f] = {"loss": rng.uniform(0.7, 0.99)}
        else:
            stop[f] = {"loss": rng.uniform(0.01, 0.3)}
        if f in ("max_metric_value", "min_metric_value"):
            # several thresholds in one dict: on a metric no trial ever reports (listed first or last) and on one that is
            # always reported but never crossed; each threshold counts by itself
            r = rng.random()
            if r < 0.3:
                stop[f] = dict({"never_reported": 0.5}, **stop[f])
            elif r < 0.45:
                stop[f] = dict(stop[f], never_reported=0.5)
            elif r < 0.6:
                stop[f] = dict({"epoch": 1e9 if f == "max_metric_value" else -1.0}, **stop[f])
    if "max_wallclock_time" in stop and not any(isinstance(v_, dict) for v_ in stop.values()) and rng.random() < 0.5:
        # a wallclock budget together with a (generous) metric threshold: on the simulator both are rewritten into one criterion
        stop["max_metric_value"] = {"loss": 1e9}
    if ending in ("exception", "failure_limit", "exhaustion") or not any(
            f in stop for f in ("max_num_trials_started", "max_num_evaluations", "max_wallclock_time")):
        # guarantee termination: a generous backstop (decided like any other field)
        stop.setdefault("max_num_trials_started", 40)
    if kind in ("hb_stopping", "hb_promotion", "hb_pasha", "sync_hb", "moasha") and "max_num_trials_completed" in stop:
        stop.setdefault("max_num_trials_started", 40)  # these kinds never 'complete' a trial
    r2 = random.Random(spec["seed"] + 77)
    if spec["backend"] != "sim" and ending in ("criterion", "exception") and r2.random() < 0.3:
        # cost budget: the scripted workers report st_worker_cost like a job on a priced instance does (the counter restarts with
        # every run of a trial); total cost = sum over trials of the largest cost reported
        stop = {"max_cost": r2.uniform(4.0, 60.0)}
        if r2.random() < 0.3:
            stop["max_num_evaluations"] = r2.randint(20, 120)
        stop.setdefault("max_num_trials_started", 40)
        p["plan"]["dollar_cost"] = r2.choice([0.5, 1.0, 2.0])
    if spec["backend"] != "sim" and ending == "criterion" and r2.random() < 0.3:
        # jobs interrupted from outside (the backend reports them stopped although nobody asked for it)
        p["plan"]["ext_stop"] = {f"{r2.randint(0, 6)}:{r2.choice([0, 0, 1])}": r2.randint(1, max(1, lv - 1)) for _ in range(r2.randint(1, 3))}
    p["stop"] = stop
    p["max_failures"] = 100
    if ending == "failure_limit":
        p["max_failures"] = rng.randint(0, 3)
        plan = {f"{t}:0": rng.randint(0, 2) for t in range(0, 40, rng.choice([1, 2, 3]))}
        if spec["backend"] == "sim":
            p["fail"] = plan
        else:
            p["plan"]["fail"] = plan
    if ending == "exhaustion":
        p["stop"] = {"max_num_trials_started": 10000}
        if rng.random() < 0.5:
            # the space runs out while trials are running and a criterion starts to hold only afterwards
            size = len(simrun.grid_of(p["table"])[1]) if spec["backend"] == "sim" else gen.space_size(p["space"])
            if size and size < 200:
                # aim between "all configurations started" and "all of them finished"
                p["n_workers"] = max(p["n_workers"], rng.randint(2, 6))
                last = min(p["n_workers"], size) * lv
                p["stop"]["max_num_evaluations"] = max(1, size * lv - rng.randint(1, max(1, last - 1)))
            else:
                p["stop"]["max_num_evaluations"] = rng.randint(3, 40)
            p["late_criterion"] = True
    if ending == "exception":
        p["inject"] = {"where": rng.choice(["s.on_trial_result", "s.suggest", "b.fetch_status_results", "s.on_trial_add"]),
                       "at": rng.randint(1, 25), "exc": rng.choice(["Exception", "Exception", "KeyboardInterrupt", "SystemExit"])}
    p.update({k: v for k, v in spec.items() if k not in ("seed", "kind", "backend", "ending", "field") and not k.startswith("_")})
    return p, spec


class _OwnStats:
    """min / max / count over all results handed to the tuning loop so far, computed by the harness from the recorded polls
    (NaN values are ignored, as the running statistics are documented to do)."""

    def __init__(self):
        self.count = 0
        self.min_metrics, self.max_metrics = {}, {}
        self.trial_cost = {}

    def add(self, res, trial=None):
        self.count += 1
        c = res.get("st_worker_cost")
        if trial is not None and isinstance(c, (int, float)) and c == c:
            self.trial_cost[trial] = max(self.trial_cost.get(trial, c), c)
        for k, v in res.items():
            if isinstance(v, bool) or not isinstance(v, (int, float)) or v != v:
                continue
            self.min_metrics[k] = min(self.min_metrics.get(k, v), v)
            self.max_metrics[k] = max(self.max_metrics.get(k, v), v)


def ref_criterion(stop, st, sim, own=None):
    """Independent reading of the documented StoppingCriterion on a TuningStatus. Returns the list of
    fields that hold. With ``own`` the metric statistics come from the harness' own bookkeeping."""
    hold = []
    oms = own if own is not None else st.overall_metric_statistics
    for f, v in stop.items():
        if f == "max_wallclock_time":
            if sim:
                mx = oms.max_metrics.get("st_tuner_time") if oms.count > 0 else None
                if mx is not None and mx > v:
                    hold.append(f)
            elif st.wallclock_time > v:
                hold.append(f)
        elif f == "max_num_evaluations":
            if oms.count > v:
                hold.append(f)
        elif f == "max_cost":
            if own is not None:
                if sum(own.trial_cost.values()) > v:
                    hold.append(f)
            elif st.cost > v:
                hold.append(f)
        elif f == "max_num_trials_started":
            if st.num_trials_started > v:
                hold.append(f)
        elif f == "max_num_trials_completed":
            if st.num_trials_completed > v:
                hold.append(f)
        elif f == "max_num_trials_finished":
            if st.num_trials_finished > v:
                hold.append(f)
        elif f == "max_metric_value":
            for m, thr in v.items():
                if oms.count > 0 and m in oms.max_metrics and oms.max_metrics[m] > thr:
                    hold.append(f)
        elif f == "min_metric_value":
            for m, thr in v.items():
                if oms.count > 0 and m in oms.min_metrics and oms.min_metrics[m] < thr:
                    hold.append(f)
    return hold


def run_case(spec):
    from syne_tune.tuner_callback import TunerCallback

    o = Obs()
    p, spec = expand(spec)
    sim = spec["backend"] == "sim"
    ending = spec["ending"]
    kind = p["kind"]
    if p.get("wait"):
        o.count("runs:wait_trial_completion")
    if (p.get("plan") or {}).get("ext_stop"):
        o.count("runs:jobs_stopped_from_outside")
    import copy

    ref_stop = copy.deepcopy(p["stop"])  # the reference reads the criterion as the user wrote it, whatever happens to the objects later
    if sim:
        r = simrun.SimRun(p, spec["seed"])
    else:
        extra_fn = (lambda t, l, rn: {"loss2": ((t * 31 + l * 17) % 101) / 101.0}) if kind == "moasha" else None
        value_fn = None
        if any(isinstance(v_, dict) for v_ in p["stop"].values()) and kind in ("fifo_random", "fifo_grid", "median", "hb_stopping") \
                and random.Random(spec["seed"] + 21).random() < 0.6:
            # the thresholded metric is undefined (NaN) in the first report(s) of the experiment
            base_v = gen.Curves(p.get("curves", "continuous"), spec["seed"] + 1, p["max_t"])
            n_nan = random.Random(spec["seed"] + 22).randint(1, 2)

            def value_fn(t, l, cfg=None):
                return float("nan") if (t == 0 and l <= n_nan) else base_v(t, l, cfg)

            o.count("runs:thresholded_metric_nan_in_first_report")
        r = simrun.ProcRun(p, spec["seed"], extra_fn=extra_fn, value_fn=value_fn)
    tuner = r.tuner
    rec = r.rec
    log = {"loops": [], "after_hold": None}

    # ---- history-based reconstruction of trial statuses (as the tuner is documented to see them)
    own = _OwnStats()
    seen = {"i": 0}

    def own_stats():
        ev_ = rec.events
        while seen["i"] < len(ev_):
            e_ = ev_[seen["i"]]
            seen["i"] += 1
            if e_[1] == "b.fetch_status_results.ret":
                for _t, res_ in e_[2]["ret"]["results"]:
                    own.add(res_, _t)
        return own

    class Watch(TunerCallback):
        def on_loop_start(self):
            # the status at the start of an iteration is the one the criterion was evaluated on after the previous one
            st = tuner.tuning_status
            if st is not None:
                rec.ev("h.loop_start", hold=ref_criterion(ref_stop, st, sim, own_stats()), failed_over=st.num_trials_failed > p["max_failures"])

        def on_loop_end(self):
            st = tuner.tuning_status
            hold = ref_criterion(ref_stop, st, sim, own_stats())
            failed_over = st.num_trials_failed > p["max_failures"]
            rec.ev("h.loop_end", hold=hold, failed_over=failed_over, cost=(float(st.cost), float(sum(own.trial_cost.values()))),
                   counters={"started": st.num_trials_started, "completed": st.num_trials_completed,
                             "failed": st.num_trials_failed, "finished": st.num_trials_finished,
                             "running": st.num_trials_running, "evals": st.overall_metric_statistics.count})

    tuner.callbacks.append(Watch())

    # ---- injected exception
    inj = p.get("inject")
    if inj:
        target = r.scheduler if inj["where"].startswith("s.") else r.backend
        name = inj["where"][2:]
        orig = getattr(target, name)
        cnt = {"n": 0}

        def boom(*a, **k):
            cnt["n"] += 1
            if cnt["n"] == inj["at"]:
                rec.ev("h.injected", where=inj["where"])
                raise INJECT[inj.get("exc", "Exception")](f"injected at {inj['where']} call {inj['at']}")
            return orig(*a, **k)

        setattr(target, name, boom)
    r.run()
    exc = r.exc
    events = rec.events

    # ---- classify how the run ended
    ended = None
    if exc is None:
        ended = "criterion"
    elif isinstance(exc, (Injected, InjectedInterrupt, InjectedExit)):
        ended = "exception"
        o.count("ended:exception:" + inj.get("exc", "Exception"))
    elif type(exc).__name__ == "LoopBoundExceeded":
        o.inconclusive("loop_bound")
        ended = "loop_bound"
    elif type(exc).__name__ == "ValueError" and "failed" in repr(exc) and ending == "failure_limit":
        ended = "failure_limit"
    else:
        ended = "raised"
        tag = f":resume_of_failed_trial:{kind}" if "Cannot resume trial_id" in repr(exc) else ""
        o.violate("run_returns", f"tuner_run_raised:{type(exc).__name__}{tag}", {"error": repr(exc)[:300], "kind": kind, "ending": ending})

    # ---- walk the log
    started = 0
    status = {}
    evals = 0
    first_hold = None
    n_loops = 0
    suggest_none_at = None
    polled = {}
    idle_loops = 0
    ever_failed = set()
    tuning_ended = False
    deliveries = 0
    viol = [False]

    def V(clause, mech, **d):
        if not viol[0]:
            o.violate(clause, mech, dict(d, kind=kind, backend=spec["backend"], stop=p["stop"], wait=p.get("wait")))
        viol[0] = True

    alive_jobs, dead_loops = set(), 0
    for idx, k, pl in events:
        if k == "c.tuning_end":
            tuning_ended = True
        if tuning_ended:
            continue
        if k == "w.spawn":
            alive_jobs.add(pl["trial"])
            dead_loops = 0
        elif k in ("w.job_end", "w.external_stop"):
            alive_jobs.discard(pl["trial"])
        elif k in ("b.stop_trial.ret", "b.pause_trial.ret"):
            alive_jobs.discard(pl["trial_id"])
        if k == "c.loop_start" and not sim and started > 0:
            dead_loops = dead_loops + 1 if not alive_jobs else 0
            if dead_loops > 150:  # bounded progress, in loop iterations: every job has ended, none is started, the loop goes on
                V("run_ends", "loop_goes_on_with_no_job_alive" + (":after_a_job_was_stopped_from_outside" if p["plan"].get("ext_stop") else ""),
                  iterations_without_a_job=dead_loops, criterion_held=first_hold is not None)
        if k == "c.loop_start":
            n_loops += 1
            if suggest_none_at is not None and not any(v == "InProgress" for v in status.values()):
                idle_loops += 1
                if idle_loops > 200:  # bounded progress as a logical bound on loop iterations
                    V("exhaustion", "run_does_not_return_after_exhaustion_with_nothing_running", idle_loop_iterations=idle_loops)
            else:
                idle_loops = 0
            if first_hold is not None and not p.get("wait"):
                V("ends_after_first_iteration_where_criterion_holds", "loop_iteration_after_criterion_held",
                  held_at_loop=first_hold[0], fields=first_hold[1])
        elif k == "h.loop_start":
            o.count("decided:criterion_at_loop_start")
            if (pl["hold"] or pl["failed_over"]) and not p.get("wait"):
                V("ends_after_first_iteration_where_criterion_holds", "loop_iteration_after_criterion_held",
                  held_at_loop=n_loops - 1, fields=pl["hold"] + (["failure_limit"] if pl["failed_over"] else []),
                  seen_at="loop_start", after_exhaustion=suggest_none_at is not None)
            if (pl["hold"] or pl["failed_over"]) and suggest_none_at is not None:
                o.count("criterion_held_after_exhaustion")
        elif k == "b.start_trial.ret":
            started += 1
            status[pl["ret"]["trial_id"]] = "InProgress"
            if first_hold is not None:
                V("no_start_once_criterion_holds", "trial_started_after_criterion_held", fields=first_hold[1], trial=pl["ret"]["trial_id"])
            if suggest_none_at is not None:
                V("exhaustion", "trial_started_after_suggest_returned_None", trial=pl["ret"]["trial_id"])
        elif k == "b.resume_trial.ret":
            status[pl["trial_id"]] = "InProgress"
            if first_hold is not None:
                V("no_start_once_criterion_holds", "trial_resumed_after_criterion_held", fields=first_hold[1], trial=pl["trial_id"])
        elif k == "s.suggest.ret" and pl["ret"] is None:
            suggest_none_at = idx
            if ending == "exhaustion":
                pass
        elif k == "b.fetch_status_results.ret":
            evals += len(pl["ret"]["results"])
            polled = dict(pl["ret"]["status"])
            for t, s in polled.items():
                status[t] = s
                if s == "Failed":
                    ever_failed.add(t)
        elif k == "s.on_trial_result.ret":
            deliveries += 1
            d = pl["ret"]
            t = pl["trial_id"]
            # as Tuner._update_running_trials documents it: a polled 'failed' always wins, a polled
            # 'completed' wins over STOP but not over PAUSE, otherwise the decision sets the status
            ps = polled.get(t)
            if ps == "Failed":
                pass
            elif d == "PAUSE":
                status[t] = "Paused"
            elif d == "STOP" and ps != "Completed":
                status[t] = "Stopped"
        elif k == "h.loop_end":
            o.count("decided:loop_ends")
            if "max_cost" in ref_stop:
                # what the cost budget is compared with: the sum over trials of the largest cost any of their reports carried
                o.count("decided:cost_vs_history")
                if abs(pl["cost"][0] - pl["cost"][1]) > 1e-9 * max(1.0, abs(pl["cost"][1])):
                    V("cost_budget", "tuning_status_cost_differs_from_the_cost_reported_so_far" + (":below" if pl["cost"][0] < pl["cost"][1] else ":above"),
                      tuning_status_cost=pl["cost"][0], from_reports=pl["cost"][1])
            c = pl["counters"]
            mine = {"started": started, "completed": sum(v == "Completed" for v in status.values()),
                    "failed": sum(v == "Failed" for v in status.values()),
                    "finished": sum(v in ("Completed", "Stopped", "Stopping", "Failed") for v in status.values()),
                    "running": sum(v == "InProgress" for v in status.values()), "evals": evals}
            o.count("decided:counters_vs_history")
            if c != mine:
                V("status_counters_equal_state_counts", "tuning_status_counters_differ_from_history",
                  tuning_status=c, history=mine)
            if (pl["hold"] or pl["failed_over"]) and first_hold is None:
                first_hold = (n_loops, pl["hold"] + (["failure_limit"] if pl["failed_over"] else []), dict(c))
    # ---- clause 1 (converse): the run ended normally => the criterion held at the last loop end
    last_he = [e for e in events if e[1] == "h.loop_end"]
    if ended == "criterion" and ending != "exhaustion":
        if first_hold is None:
            if suggest_none_at is None and last_he:
                V("ends_only_when_criterion_holds", "run_returned_although_criterion_never_held",
                  last_counters=last_he[-1][2]["counters"])
        else:
            for f in first_hold[1]:
                o.count(f"field_decided:{f}")
    running_at_end = sorted(t for t, v in status.items() if v == "InProgress")
    if ended == "criterion" and p.get("wait") and first_hold is not None:
        if running_at_end and suggest_none_at is None:
            V("wait_trial_completion", "run_returned_while_trials_running_with_wait_trial_completion", running=running_at_end)
    # ---- clause 2: budget overshoot
    if ended in ("criterion",) and first_hold is not None:
        c = first_hold[2]  # counters at the first loop end at which the criterion held
        for f, key in (("max_num_trials_started", "started"), ("max_num_trials_completed", "completed"), ("max_num_trials_finished", "finished")):
            if f in p["stop"] and first_hold is not None and f in first_hold[1]:
                o.count("decided:budget_overshoot")
                if c[key] - p["stop"][f] > p["n_workers"]:
                    V("budget_overshoot_at_most_n_workers", f"{f}_overshot_by_more_than_n_workers",
                      value=c[key], budget=p["stop"][f], n_workers=p["n_workers"])
    # ---- clause 3: exhaustion
    if ending == "exhaustion" and ended == "criterion":
        if suggest_none_at is None:
            if p.get("late_criterion"):
                o.count("criterion_before_exhaustion")
            else:
                o.inconclusive("space_not_exhausted")
            ended = "other"
        else:
            ended = "exhaustion"
            if first_hold is not None and running_at_end and not p.get("wait"):
                o.count("ended_by_criterion_after_exhaustion_with_trials_running")
            if running_at_end and first_hold is None:
                V("exhaustion", "run_returned_while_trials_running_after_exhaustion", running=running_at_end)
    if ending == "failure_limit" and ended == "criterion":
        ended = "criterion"  # not enough failures happened before the backstop
    if ending == "failure_limit" and ended == "failure_limit":
        failed_ids = {t for t, s in status.items() if s == "Failed"}
        import re

        m = re.search(r"Trial - (\d+) failed", repr(exc))
        if not m or int(m.group(1)) not in ever_failed:
            V("error_names_failed_trial", "failure_limit_error_does_not_name_a_failed_trial", error=repr(exc)[:200], failed=sorted(failed_ids))
        if len(failed_ids) <= p["max_failures"]:
            V("failure_limit", "run_aborted_although_failures_within_limit", failed=len(failed_ids), max_failures=p["max_failures"])
    o.count(f"ended:{ended}")
    # ---- clause 4: post-run state
    if ended != "loop_bound":
        o.count("decided:post_run_state")
        be = r.backend
        if not sim:
            alive = be.alive_unkilled()
            if alive:
                V("nothing_left_running", f"process_alive_and_not_killed_after_run:{ended}", alive=alive[:10])
        try:
            ids = list(be.trial_ids)
            tr = be._all_trial_results(ids)
            inprog = [t.trial_id for t in tr if t.status == "InProgress"]
            if inprog and not sim:
                V("nothing_left_running", f"backend_reports_trial_in_progress_after_run:{ended}", trials=inprog[:10])
        except Exception as e:  # noqa: BLE001
            o.inconclusive("post_run_status_query_failed:" + type(e).__name__)
        st = tuner.tuning_status
        if st is not None:
            if st.num_trials_running != 0:
                V("status_counters_equal_state_counts", f"tuning_status_reports_running_trials_after_run:{ended}", running=st.num_trials_running)
        # results file
        path = os.path.join(str(tuner.tuner_path), "results.csv.zip")
        rows_cb = len(r.results()) if sim else len(r.store_cb.results)
        if not os.path.exists(path):
            if ended != "raised":
                V("final_results_stored", f"results_file_missing_after_run:{ended}", path=path)
        else:
            try:
                import pandas as pd

                df = pd.read_csv(path)
                o.count("decided:results_file_rows")
                ncb = sum(1 for e in events if e[1] == "c.trial_result")
                if len(df) != ncb or rows_cb != ncb:
                    V("final_results_stored", f"results_file_rows_differ_from_deliveries:{ended}", file_rows=len(df), callback_rows=rows_cb, deliveries=ncb)
            except Exception as e:  # noqa: BLE001
                if rows_cb > 0:
                    V("final_results_stored", "results_file_unreadable:" + type(e).__name__, error=repr(e)[:200])
    # ---- run() entered while the criterion already holds (the tuner is run again; its status is retained): the
    # criterion is evaluated before the first iteration, so nothing may be started
    if ended == "criterion" and ending == "criterion" and not viol[0] and first_hold is not None and not inj and (spec["seed"] // 3) % 2 == 0:
        st = tuner.tuning_status
        count_stop = {f: v for f, v in p["stop"].items() if f != "max_wallclock_time"}
        holds_now = ref_criterion(count_stop, st, sim) if st is not None else []
        from syne_tune.optimizer.schedulers import FIFOScheduler

        if holds_now and sim and isinstance(r.scheduler, FIFOScheduler):
            # documented restriction: FIFOScheduler.set_time_keeper asserts that the simulator's time keeper is
            # assigned only once, so a simulated experiment with such a scheduler cannot be run again
            o.count("reentry_skipped:time_keeper_assigned_once")
        elif holds_now:
            n0 = len(events)
            r.exc = None
            r.run()
            o.count("decided:reentry_with_criterion_holding")
            if r.exc is not None:
                if type(r.exc).__name__ == "LoopBoundExceeded":
                    V("no_start_once_criterion_holds", "rerun_with_criterion_holding_does_not_return", fields=holds_now)
                else:
                    V("no_start_once_criterion_holds", "rerun_with_criterion_holding_raised:" + type(r.exc).__name__,
                      fields=holds_now, error=repr(r.exc)[:200])
            for idx, k, pl in events[n0:]:
                if k in ("b.start_trial.call", "b.resume_trial.call"):
                    V("no_start_once_criterion_holds", "trial_started_by_run_entered_with_criterion_holding", fields=holds_now,
                      call=k, counters={"started": st.num_trials_started, "completed": st.num_trials_completed})
                    break
    # ---- a second simulated experiment that shares the user's threshold dict with the first one (a benchmark loop re-using
    # its settings): it must end by its own criterion, not by anything the first run left in the shared objects
    shared = [f for f in ("max_metric_value", "min_metric_value") if isinstance(p["stop"].get(f), dict)]
    if sim and shared and "max_wallclock_time" in p["stop"] and not inj and ended in ("criterion", "exhaustion") and not viol[0]:
        p2 = copy.deepcopy({k_: v_ for k_, v_ in p.items() if k_ != "stop"})
        p2["stop"] = {f: p["stop"][f] for f in shared}            # the SAME dict objects
        p2["stop"]["max_num_trials_started"] = 12
        ref2 = {f: copy.deepcopy(ref_stop[f]) for f in shared}   # as the user wrote them
        ref2["max_num_trials_started"] = 12
        p2["wait"] = False
        r2 = simrun.SimRun(p2, spec["seed"] + 1, name=f"stv2-{os.getpid()}-{spec['seed'] % 100000}")
        held = {"ever": False}

        class Watch2(TunerCallback):
            def on_loop_end(self):
                st2 = r2.tuner.tuning_status
                if st2 is not None and ref_criterion(ref2, st2, True):
                    held["ever"] = True

        r2.tuner.callbacks.append(Watch2())
        r2.run()
        o.count("decided:second_experiment_sharing_thresholds")
        none_at = any(e[1] == "s.suggest.ret" and e[2]["ret"] is None for e in r2.rec.events)
        if r2.exc is None and not held["ever"] and not none_at:
            V("ends_only_when_criterion_holds", "second_experiment_sharing_threshold_dict_returned_although_criterion_never_held",
              thresholds_now={f: dict(p["stop"][f]) for f in shared}, thresholds_as_written={f: ref_stop[f] for f in shared},
              first_run_wallclock=ref_stop["max_wallclock_time"])
        import shutil

        shutil.rmtree(str(r2.tuner.tuner_path), ignore_errors=True)
    if hasattr(r, "cleanup"):
        r.cleanup()
    else:
        import shutil

        shutil.rmtree(str(tuner.tuner_path), ignore_errors=True)
    for e in events[-30:]:
        if e[1].startswith(("h.", "c.loop", "b.start", "b.resume", "s.suggest.ret", "c.tuning_end")):
            o.ev(e[0], e[1], {k: v for k, v in e[2].items() if k in ("hold", "counters", "trial_id", "where")})
    fin = {s_: sum(v == s_ for v in status.values()) for s_ in set(status.values())}
    o.set_sig((sorted(p["stop"].keys()), ended, n_loops, started, sorted(fin.items())),
              nontrivial=(ended == ending or (ending == "failure_limit" and ended == "criterion")) and n_loops >= 2)
    o.sample = {"kind": kind, "backend": spec["backend"], "stop": p["stop"], "ending_wanted": ending, "ended": ended,
                "wait": p.get("wait"), "n_workers": p["n_workers"], "loops": n_loops, "started": started, "final_states": fin,
                "held": first_hold}
    return o.result()
