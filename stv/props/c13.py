"""C13 — trial failures are contained (engine A: scheduler level, virtual tuner).

For every scheduler / searcher kind the real scheduler is driven by the virtual tuner through scenarios
of 3-10 trials in which 1-3 trials fail at chosen points of their life:

  before_first   the trial fails before its first report
  between        after >= 1 report, the last one at a level where the kind takes no decision
  at_rung        right after a report at a decision level (rung level / perturbation point / rank-rule
                 level) that was answered CONTINUE
  after_resume   the trial was paused, resumed, and fails in its second (or later) run
  with_decision  the backend reports `failed` in the same poll as the report that is answered STOP/PAUSE:
                 the tuner then calls on_trial_remove *and* on_trial_error (Tuner._update_running_trials)

Oracles (clause names in brackets):
  [on_trial_error_returns]   on_trial_error returns without raising; the searcher's evaluation_failed is
                             called exactly once, with the failed trial, per failure;
  [later_calls_return]       every later scheduler call returns without raising; suggest keeps returning
                             work on an infinite space;
  [others_follow_reference]  the decisions for the other trials still follow the reference models (C03
                             stopping reference, C04 promotion reference with the failed trial's rung entries
                             left where they were but never promoted, C05 synchronous validator with the
                             failed slot as NaN, small PBT / median-rule / MOASHA references in this file) —
                             the monitors of c03 / c04 / c05 are reused by import;
  [failed_not_resumed]       a failed trial is never suggested for resumption;
  [failed_config_not_repeated] with a searcher that promises it (random / bayesopt / hypertune: always,
                             also with allow_duplicates=True; grid: without duplicates) a failed
                             configuration is not suggested again for a new trial;
  [searcher_state]           model-based searchers: on_trial_error leaves pending evaluations and
                             observations of the other trials unchanged, removes all pending evaluations of
                             the failed trial and lists it as failed;
  [bracket_progress]         synchronous brackets: the failed slot counts as reported, the rung completes
                             when the remaining jobs report and the next rung opens (validator); a suggest
                             call that exceeds the logical step budget is a violation (never a wall clock).

Engine B of DESIGN (real Tuner, max_failures) is a separate module; nothing of it is generated here.
"""
import contextlib
import copy
import io
import math
import random

from stv import envshim  # noqa: F401
from stv import gen
from stv.obs import Obs
from stv.refmodels.asha import RefPromotion, RefStopping, in_band
from stv.refmodels.syncbracket import BracketValidator
from stv.vtuner import Port

ID = "C13"
LEVEL = "exploration"
RULE = (
    "case = scheduler kind (FIFO random/grid/bayesopt, REA, Hyperband stopping/rush_stopping/promotion/pasha/"
    "cost_promotion/rush_promotion with random or GP (bayesopt, hypertune) searcher, synchronous Hyperband custom/"
    "geometric, DEHB (rare), PBT, MedianStoppingRule, MOASHA) x 3-10 trials x 1-3 failure targets, each = (failure point, "
    "which opportunity) with failure point in {before_first, between, at_rung, after_resume, with_decision} x workers x "
    "arrival policy x metric table x (finite space with allow_duplicates for the no-repeat clause; half of the GP Hyperband "
    "histories: allow_duplicates=True on a 6-9 point space, 2-3 initial random choices, 7-10 trials, so that failures land "
    "after the searcher holds an observation of the trial and many model-based suggestions follow; 30 % of the random-searcher "
    "FIFO / Hyperband / median-rule histories: restrict_configurations of 2-6 members with allow_duplicates=True, as many "
    "failure targets as members for the small sets, so that 'None once every member has failed' is reached). Engine B arms "
    "wait_last / exhaust_last / all_in_final_poll put the failures that exceed max_failures into the last iteration of the "
    "tuning loop (job that ends last learnt from a first, failure-free pass of the same simulated run). Distinct = digest of "
    "(kind, searcher, failure events (trial, point, level), sequence of event kinds after the first failure); non-trivial "
    "= at least one failure was delivered and at least one scheduler call was answered after it."
)
ASSUMPTIONS = [
    "the virtual tuner follows the protocol of Tuner._update_running_trials: a failure is signalled by exactly one "
    "on_trial_error call; 'with_decision' failures are on_trial_remove followed by on_trial_error, as the tuner does when "
    "a STOP/PAUSE decision and status failed arrive in the same poll",
    "failure targets are opportunity based (the k-th time a trial is at the chosen point), so the failing subset is "
    "sampled, not enumerated; explicit plans (spec['fail'], spec['targets']) give deterministic reproducers",
    "reference for promotion types: a failed trial's rung entries stay in the rung (they count for the quantile) and are "
    "never promoted; PBT: both 'failed trial stays in the population' and 'leaves it' are accepted",
    "searcher state is read from the public attribute searcher.state_transformer.state; bracket / slot of a trial from "
    "public methods wrapped per instance (as in C03/C04/C05)",
    "DEHB is explored rarely and only with as many brackets as rungs (C05-K2 excluded); its failure handling is the known "
    "finding C05-K3, reported here under the C13 key dehb:<point>:suggest_fails_after_failed_slot",
    "GP hyper-parameter fitting is kept cheap (opt_maxiter 3-5, opt_nstarts 1); the searcher bookkeeping is what is checked",
]
CASE_TIMEOUT = 90
SHARDS_PER_JOB = 6  # GP cases cost 0.3-1 s, the others ~10 ms: small shards balance the load
STEP_BUDGET_RERUN = 2_000_000  # interpreted lines per scheduler call; applied to synchronous kinds only

BF, BT, AR, RS, WD = "before_first", "between", "at_rung", "after_resume", "with_decision"
POINTS = {
    "fifo_random": [BF, BT], "fifo_grid": [BF, BT], "fifo_bayesopt": [BF, BT], "rea": [BF, BT],
    "hb_stopping": [BF, BT, AR, WD], "hb_rush_stopping": [BF, BT, AR, WD],
    "hb_promotion": [BF, BT, AR, RS, WD], "hb_cost_promotion": [BF, BT, AR, RS, WD],
    "hb_rush_promotion": [BF, BT, AR, RS, WD], "hb_pasha": [BF, BT, RS, WD],
    "sync": [BF, BT, AR, RS, WD], "dehb": [BF, BT, RS, WD],
    "pbt": [BF, BT, AR, WD], "msr": [BF, BT, AR, WD], "moasha": [BF, BT, AR, WD],
}
GP_VARIANTS = [("hb_stopping", "bayesopt"), ("hb_stopping", "hypertune"), ("hb_promotion", "bayesopt"),
               ("hb_promotion", "hypertune"), ("hb_pasha", "bayesopt")]
PROMO_TYPES = ("promotion", "cost_promotion", "rush_promotion", "pasha")


def case_timeout(spec):
    if spec.get("kind") in ("sync", "dehb"):
        return 10
    return CASE_TIMEOUT


def preload():
    import syne_tune.optimizer.schedulers  # noqa: F401
    import syne_tune.optimizer.schedulers.searchers  # noqa: F401
    import syne_tune.optimizer.schedulers.synchronous  # noqa: F401
    import syne_tune.optimizer.schedulers.multiobjective.moasha  # noqa: F401
    import syne_tune.optimizer.schedulers.searchers.regularized_evolution  # noqa: F401
    import stv.props.c03  # noqa: F401
    import stv.props.c04  # noqa: F401
    import stv.props.c05  # noqa: F401
    import stv.props.c19  # noqa: F401


def kind_label(kind, searcher):
    return kind if searcher in (None, "random", "grid", "rea") or kind in ("fifo_bayesopt",) else f"{kind}+{searcher}"


def _plan(tier):
    """[(kind, searcher, point, number of scenarios)]"""
    k = 1 if tier == "quick" else 11
    out = []
    for kind, pts in POINTS.items():
        if kind == "dehb":
            for pt in pts:
                out.append((kind, None, pt, (40 if pt == RS else 8) * k))
            continue
        for pt in pts:
            n = 32
            if kind == "fifo_bayesopt":
                n = 36
            if pt == AR and kind in ("hb_promotion", "hb_cost_promotion", "hb_rush_promotion", "sync"):
                n = 48
            if pt == RS or (kind == "msr" and pt in (WD, BT)) or (kind == "hb_pasha" and pt == BT):
                n = 44
            out.append((kind, None, pt, n * k))
    for kind, srch in GP_VARIANTS:
        for pt in POINTS[kind]:
            n = 20
            if pt == AR and kind != "hb_stopping":
                n = 30
            if pt == RS or (kind == "hb_pasha" and pt == BT):
                n = 28
            if kind == "hb_pasha" and pt == RS:
                n = 38
            out.append((kind, srch, pt, n * k))
    return out


def cases(tier, seed):
    out = []
    i = 0
    for kind, srch, pt, n in _plan(tier):
        for j in range(n):
            spec = {"kind": kind, "point": pt, "seed": seed * 2750159 + i * 19 + 7}
            if srch is not None:
                spec["searcher"] = srch
            out.append(spec)
            i += 1
    # interleave so that shards get a similar mix (GP cases are the expensive ones)
    random.Random(seed * 31 + 1).shuffle(out)
    # ---- ENGINE B: real Tuner.run on the scripted-process / simulator backends with failing jobs and jobs
    # stopped from outside the scheduler (also after a pause and resume); the trace automaton of C01 decides
    # "the scheduler is notified once per failure" (stv/props/c01.py check_trace)
    nb = 240 if tier == "quick" else 5000
    kinds_b = ["hb_promotion", "sync_hb", "hb_stopping", "fifo_random", "hb_pasha", "median", "hb_cost_promotion", "fifo_bo"]
    for i in range(nb):
        out.append({"engine": "B", "seed": seed * 7129 + i * 5 + 4, "kind": kinds_b[i % len(kinds_b)],
                    "backend": "proc" if i % 4 else "sim"})
    # engine B arms: the failures that exceed max_failures arrive in the last iteration of the tuning loop
    # (_b_final_poll_run): 'exceeding the limit ends the run with an error that names a failed trial'
    na = 28 if tier == "quick" else 340
    for j, arm in enumerate(("wait_last", "exhaust_last", "all_in_final_poll")):
        for i in range(na):
            out.append({"engine": "B", "arm": arm, "seed": seed * 9341 + (j * na + i) * 11 + 6,
                        "kind": kinds_b[i % len(kinds_b)], "backend": "sim"})
    return out


def floors(tier):
    k = 1 if tier == "quick" else 8
    f = {}
    for kind, pts in POINTS.items():
        if kind == "dehb":
            continue
        for pt in pts:
            f[f"cell:{kind}:{pt}"] = (20 if pt != WD else 10) * k
    for kind, srch in GP_VARIANTS:
        for pt in POINTS[kind]:
            f[f"cell:{kind}+{srch}:{pt}"] = (10 if pt != WD else 5) * k
    f.update({
        "gp:failure_events": 200 * k,
        "decided:searcher_state": 200 * k,
        "decided:evaluation_failed_once": 1500 * k,
        "decided:decision_after_failure": 5000 * k,
        "decided:suggest_after_failure": 2500 * k,
        "decided:resume_after_failure_not_failed_trial": 150 * k,
        "decided:new_config_vs_failed_configs": 1500 * k,
        "decided:new_config_vs_failed_configs:allow_duplicates": 100 * k,
        # GP searcher + allow_duplicates + small finite space: the failed list alone keeps a failed configuration out
        "gp:failure_events:trial_had_observations:allow_duplicates": 100 * k,
        "decided:no_resuggest_of_failed:gp:allow_duplicates:failed_after_observation": 500 * k,
        "decided:no_resuggest_of_failed:gp:allow_duplicates:failed_after_observation:model_based_phase": 400 * k,
        "decided:no_resuggest_of_failed:gp:allow_duplicates:failed_after_observation:model_based_phase:bayesopt": 250 * k,
        "decided:no_resuggest_of_failed:gp:allow_duplicates:failed_after_observation:model_based_phase:hypertune": 120 * k,
        "decided:sync_rung_completed_with_failed_slot": 40 * k,
        "scenarios_with_2+_failures": 300 * k,
        "scenarios_with_3_failures": 60 * k,
        "B:runs": 200 * k,
        "B:failures_notified": 60 * k,
        "B:external_stops_notified": 40 * k,
        "B:runs_carried_on_after_failure": 40 * k,
        "B:ended_by_failure_limit": 1 * k,
        "B:runs_with_max_failures_0_and_a_failure": 3 * k,
        "B:decided:failure_limit:all_failures_in_final_loop_iteration:wait_last": 5 * k,
        "B:decided:failure_limit:all_failures_in_final_loop_iteration:exhaust_last": 5 * k,
        "B:decided:failure_limit:all_failures_in_final_loop_iteration:all_in_final_poll": 12 * k,
        "B:decided:failure_limit:several_failures_in_final_loop_iteration": 6 * k,
        # restrict_configurations + allow_duplicates: only the exclusion list (= failed configurations) filters
        "decided:no_resuggest_of_failed:restrict_configurations:allow_duplicates": 1000 * k,
        "decided:restrict:allow_duplicates:None_after_every_member_failed": 80 * k,
    })
    return f


# =================================================================================================
# virtual tuner with opportunity-based failure targets and 'with_decision' failures
# =================================================================================================
def _fvtuner_class():
    from stv.props.c04 import CfgTrackingVTuner

    class FVTuner(CfgTrackingVTuner):
        """targets: list of [point, skip] — the (skip+1)-th time a trial that is about to act is at
        ``point`` it fails instead (with_decision: in the same poll as its STOP/PAUSE decision)."""

        def __init__(self, *a, targets=(), is_decision_level=None, static_wd=None, **k):
            super().__init__(*a, **k)
            self.targets = [list(t) for t in targets]
            self.is_decision_level = is_decision_level or (lambda vt: False)
            self.static_wd = {int(t): int(r) for t, r in (static_wd or {}).items()}
            self.wd_now = False
            # explicit plans [run, reports, 1] in p['fail'] mean with_decision in that run
            for tid, plan in list(self.fail.items()):
                if len(plan) > 2 and plan[2]:
                    self.static_wd[tid] = plan[0]
                    del self.fail[tid]

        def _at(self, point, vt):
            if point == BF:
                return vt.run_no == 0 and vt.reports_in_run == 0
            if point == RS:
                return vt.run_no >= 1
            if vt.run_no != 0 or vt.reports_in_run == 0:
                return False
            dec = bool(self.is_decision_level(vt))
            return dec if point == AR else not dec

        def _fire(self, point, vt):
            for tg in self.targets:
                if tg[0] == point or (point is None and tg[0] != WD and self._at(tg[0], vt)):
                    if tg[1] <= 0:
                        self.targets.remove(tg)
                        return True
                    tg[1] -= 1
                    return False
            return False

        def _deliver_failure(self, vt, wd):
            tid = vt.trial_id
            prev = vt.status
            vt.status = "failed"
            if tid in self.running:
                self.running.remove(tid)
            self.events.append(("error", tid, vt.run_no, vt.last_level, "with_" + prev if wd else "running"))
            self.wd_now = wd
            try:
                self._notify("pre_error", vt)
                self.port.on_trial_error(vt.trial)
                self._notify("post_error", vt)
            finally:
                self.wd_now = False

        def do_advance(self, tid):
            vt = self.trials[tid]
            if tid not in self.fail and tid not in self.static_wd and self.targets and self._fire(None, vt):
                self._deliver_failure(vt, wd=False)
                return
            super().do_advance(tid)
            if vt.status in ("stopped", "paused"):
                if self.static_wd.get(tid) == vt.run_no:
                    del self.static_wd[tid]
                    self._deliver_failure(vt, wd=True)
                elif tid not in self.static_wd and self.targets and self._fire(WD, vt):
                    self._deliver_failure(vt, wd=True)

    return FVTuner


# =================================================================================================
# reference models added for C13 (the others are imported)
# =================================================================================================
class RefPromotionF(RefPromotion):
    """C04 promotion reference; entries of failed trials stay in their rung (and count for the quantile /
    cost threshold) but are not candidates for promotion."""

    def __init__(self, *a, **k):
        super().__init__(*a, **k)
        self.failed = set()

    def _rush_ok(self, e, level):
        return e["trial"] not in self.failed

    def _eligible_cost(self, entries, level):
        if len(entries) < 2:
            return None
        if len({e["value"] for e in entries}) < len(entries):
            return "ambiguous"
        order = sorted(entries, key=lambda e: e["value"], reverse=(self.mode == "max"))
        total = sum(e["cost"] for e in order)
        thr = self.q(level) * total
        acc = 0.0
        for e in order:
            acc += e["cost"]
            if acc > thr and not in_band(acc, thr):
                return None
            sure = not in_band(acc, thr)
            if not e["promoted"] and e["trial"] not in self.failed:
                return {e["trial"]}, sure
        return None


class PBTRef:
    """PopulationBasedTraining from its docstring: a trial is judged when `perturbation_interval` resource
    units passed since it was last judged; if it is in the bottom quantile of the population (trials not
    stopped that have a score) it is stopped and a top-quantile trial is cloned by the next suggest."""

    def __init__(self, mode, max_t, interval, qf):
        self.op = 1.0 if mode == "max" else -1.0
        self.max_t, self.interval, self.qf = max_t, interval, qf
        self.t = {}
        self.stack = []

    def add(self, tid):
        self.t[tid] = {"score": None, "last": 0, "stopped": False, "failed": False, "judged": False}

    def _quantiles(self, include_failed):
        pop = [k for k, v in self.t.items() if not v["stopped"] and v["score"] is not None
               and (include_failed or not v["failed"])]
        scores = [self.t[k]["score"] for k in pop]
        ties = len(set(scores)) < len(scores)
        pop.sort(key=lambda k: self.t[k]["score"])
        if len(pop) <= 1:
            return [], [], ties
        n = int(math.ceil(len(pop) * self.qf))
        if n > len(pop) / 2:
            n = int(math.floor(len(pop) / 2))
        if n == 0:
            return [], [], ties
        return pop[:n], pop[-n:], ties

    def on_report(self, tid, cost, metric):
        """returns (set of acceptable decisions, kind)"""
        s = self.t[tid]
        s["judged"] = False
        if cost >= self.max_t:
            s["stopped"] = True
            return {"STOP"}, "max_t"
        if cost - s["last"] < self.interval:
            return {"CONTINUE"}, "inside_interval"
        s["score"] = self.op * metric
        s["last"] = cost
        acc, uppers, amb = set(), set(), False
        for inc in (True, False):
            lo, up, ties = self._quantiles(inc)
            amb = amb or ties
            if tid in lo:
                acc.add("STOP")
                uppers |= set(up)
            else:
                acc.add("CONTINUE")
        s["judged"] = True
        self._uppers = uppers
        if amb:
            return {"STOP", "CONTINUE"}, "tied_scores"
        return acc, "quantile"

    def after_decision(self, tid, decision, kind):
        if decision == "STOP" and kind in ("quantile", "tied_scores"):
            self.t[tid]["stopped"] = True
            self.stack.append(set(self._uppers) if kind == "quantile" else None)


class MSRRef:
    """MedianStoppingRule from its docstring / parameters: a report is compared with all (running-average)
    values recorded at the same resource level (incl. its own); rank = fraction strictly better; stop iff not
    in grace (fewer than grace_population values at that level, or level < grace_time) and rank > cutoff."""

    def __init__(self, mode, grace_time, grace_population, cutoff, running_average):
        self.mode, self.gt, self.gp, self.cut, self.ra = mode, grace_time, grace_population, cutoff, running_average
        self.at = {}
        self.hist = {}

    def on_report(self, tid, level, value):
        import numpy as np

        v = -value if self.mode == "max" else value
        if self.ra:
            self.hist.setdefault(tid, []).append(v)
            v = float(np.mean(self.hist[tid]))
        cur = self.at.setdefault(level, [])
        idx = sum(1 for x in cur if x < v)
        cur.append(v)
        rank = idx / float(len(cur))
        grace = len(cur) < self.gp or level < self.gt
        tie = any(x == v for x in cur[:-1])
        if grace:
            return "CONTINUE", "grace", tie
        return ("CONTINUE" if rank <= self.cut else "STOP"), "rank", tie


# =================================================================================================
# kind adapters: build the scheduler, own the reference monitor, know the decision levels
# =================================================================================================
class SubObs(Obs):
    """Obs handed to an imported monitor; its violations are re-keyed with kind + failure context."""


class Adapter:
    searcher = None
    norepeat = False
    finite = False
    family = None  # gp_fifo / gp_multifidelity for the searcher-state clause
    step_budget = False

    def __init__(self, o, p, spec):
        self.o, self.p, self.spec = o, p, spec
        self.sub = SubObs()
        self.max_t = p["max_t"]
        self.value_fn = gen.Curves(p["curves"], spec["seed"] + 1, p["max_t"])
        self.extra_fn = None
        self.vp_extra = {}
        self.mon = None

    # hooks, default: forward to the imported monitor if it has the hook
    def _fw(self, name, *a):
        f = getattr(self.mon, name, None) if self.mon is not None else None
        if f is not None:
            f(*a)

    def pre_suggest(self, vt, next_id):
        self._fw("pre_suggest", vt, next_id)

    def post_suggest(self, vt, next_id, sugg, t):
        self._fw("post_suggest", vt, next_id, sugg, t)

    def post_result(self, vt, t, result, decision):
        self._fw("post_result", vt, t, result, decision)

    def post_complete(self, vt, t):
        self._fw("post_complete", vt, t)

    def pre_error(self, vt, t):
        pass

    def post_error(self, vt, t, wd):
        pass

    def is_decision_level(self, vt):
        return False

    def context(self):
        return contextlib.nullcontext()

    def finish(self, vt):
        pass


def _search_options(p):
    so = {"debug_log": False}
    if p.get("allow_duplicates"):
        so["allow_duplicates"] = True
    if p.get("searcher") in ("bayesopt", "hypertune"):
        so.update(p["gp_options"])
    if p.get("restrict_n"):
        # documented option restrict_configurations: the searcher only suggests members of this small set. With
        # allow_duplicates=True the exclusion list holds exactly the configurations of failed trials, so 'a failed
        # configuration is never suggested again' (and: None once every member has failed) rests on it alone
        if "restrict_configurations" not in p:
            import numpy as np

            space = gen.build_space(p["space"])
            rs = np.random.RandomState(p["restrict_seed"] % (2**31))
            cfgs, seen = [], set()
            for _ in range(200):
                c = {}
                for k_, dom in space.items():
                    if hasattr(dom, "sample"):
                        v = dom.sample(random_state=rs)
                        c[k_] = v.item() if hasattr(v, "item") else v
                key = repr(sorted(c.items()))
                if key not in seen:
                    seen.add(key)
                    cfgs.append(c)
                if len(cfgs) >= p["restrict_n"]:
                    break
            p["restrict_configurations"] = cfgs
        so["restrict_configurations"] = [dict(c) for c in p["restrict_configurations"]]
    return so


def _hp_keys(desc):
    return [k for k, v in desc.items() if v[0] != "const"]


class FifoAdapter(Adapter):
    def __init__(self, o, p, spec):
        super().__init__(o, p, spec)
        from syne_tune.optimizer.schedulers import FIFOScheduler

        space = gen.build_space(p["space"])
        srch = p["searcher"]
        seed = spec["seed"] % (2**31)
        if srch == "rea":
            from syne_tune.optimizer.schedulers.searchers.regularized_evolution import RegularizedEvolution

            s = RegularizedEvolution(space, metric="loss", mode=p["mode"], population_size=p["rea_population"],
                                     sample_size=p["rea_sample"], random_seed=seed)
            self.sched = FIFOScheduler(space, searcher=s, metric="loss", mode=p["mode"], random_seed=seed)
        else:
            self.sched = FIFOScheduler(space, searcher=srch, metric="loss", mode=p["mode"], random_seed=seed,
                                       search_options=_search_options(p))
        self.searcher = self.sched.searcher
        self.norepeat = srch in ("random", "bayesopt", "kde") or (srch == "grid" and not p.get("allow_duplicates"))
        self.family = "gp_fifo" if srch == "bayesopt" else None
        self._pop = None

    def post_result(self, vt, t, result, decision):
        self.o.count("decided:fifo_decision")
        if decision != "CONTINUE":
            self.sub.violate("fifo_continues", f"fifo_decision_{decision}", {"trial": t.trial_id})

    def pre_error(self, vt, t):
        if self.p["searcher"] == "rea":
            self._pop = [(e.score, dict(e.config)) for e in self.searcher.population]

    def post_error(self, vt, t, wd):
        if self._pop is not None:
            self.o.count("decided:rea_population_unchanged")
            now = [(e.score, dict(e.config)) for e in self.searcher.population]
            if now != self._pop:
                self.sub.violate("population_intact", "rea_population_changed_by_on_trial_error", {"before": len(self._pop), "after": len(now)})


class HBAdapter(Adapter):
    def __init__(self, o, p, spec):
        super().__init__(o, p, spec)
        from stv.props import c03, c04

        typ = p["type"]
        self.promo = typ in PROMO_TYPES
        space = gen.build_space(p["space"])
        bp = dict(p)
        bp["search_options"] = _search_options(p)
        kw = {}
        seed = spec["seed"] % (2**31)
        if self.promo and p["use_mra"]:
            space["epochs"] = p["max_t"]
            bp["max_resource_attr"] = "epochs"
        if typ == "cost_promotion":
            kw["cost_attr"] = "cost"
        if typ.startswith("rush"):
            nc = p.get("rush_candidates", 0)
            kw["rung_system_kwargs"] = {"num_threshold_candidates": nc}
            if nc > 0:
                rr = random.Random(spec["seed"] + 5)
                names = _hp_keys(p["space"])
                kw["points_to_evaluate"] = [{k: c03._sample(space[k], rr) for k in names} for _ in range(nc)]
        self.sched = gen.build_hyperband(space, bp, seed=seed, **kw)
        self.searcher = self.sched.searcher
        self.norepeat = p["searcher"] in ("random", "bayesopt", "hypertune")
        self.family = "gp_multifidelity" if p["searcher"] in ("bayesopt", "hypertune") else None
        self.levels = gen.ref_rung_levels(p)
        if list(self.sched.rung_levels) != self.levels:
            self.sub.violate("rung_levels", "rung_levels_differ_from_documented_formula", {"got": list(self.sched.rung_levels), "ref": self.levels})
        term = self.sched.terminator
        if not self.promo:
            self.ref = RefStopping(self.levels, p["max_t"], p["mode"], p["brackets"], p["rung_system_per_bracket"],
                                   rush_candidates=p.get("rush_candidates", 0))
            brackets = {}
            orig_add = term.on_task_add

            def on_task_add(trial_id, **kwargs):
                brackets[str(trial_id)] = kwargs.get("bracket")
                return orig_add(trial_id, **kwargs)

            term.on_task_add = on_task_add
            self.mon = c03.Monitor(self.sub, p, self.sched, self.ref, brackets)
        else:
            self.ref = RefPromotionF(self.levels, p["max_t"], p["mode"], p["brackets"], p["rung_system_per_bracket"],
                                     variant=typ, rush_candidates=p.get("rush_candidates", 0))
            sched_log = []
            orig = term.on_task_schedule

            def on_task_schedule(new_trial_id):
                r = orig(new_trial_id)
                try:
                    sched_log.append({"trial": r[0], "bracket": r[1]["bracket"]})
                except Exception:  # noqa: BLE001
                    pass
                return r

            term.on_task_schedule = on_task_schedule
            crng = random.Random(spec["seed"] + 9)
            cum = []
            for _ in range(64):
                acc, row = 0.0, []
                for _l in range(p["max_t"]):
                    acc += crng.uniform(0.5, 3.0)
                    row.append(acc)
                cum.append(row)

            def cost_fn(trial_id, level):
                return cum[trial_id % 64][level - 1]

            def extra_fn(trial_id, level, run_no, vt_):
                if typ != "cost_promotion":
                    return {}
                if p["checkpointing"] and run_no > 0:
                    base_level = vt_.run_start_level - 1
                    base = cost_fn(trial_id, base_level) if base_level >= 1 else 0.0
                else:
                    base = 0.0
                return {"cost": cost_fn(trial_id, level) - base}

            self.extra_fn = extra_fn
            self.mon = c04.Monitor(self.sub, p, self.sched, self.ref, sched_log, cost_fn)
            self.vp_extra = {"max_resource_attr": "epochs" if p["use_mra"] else None, "checkpointing": p["checkpointing"]}

    def context(self):
        from stv.contracts import rung_contract

        return rung_contract(self.sub)

    def is_decision_level(self, vt):
        return vt.last_level in self.levels

    def post_error(self, vt, t, wd):
        if self.promo:
            self.ref.remove(str(t.trial_id))
            self.ref.failed.add(str(t.trial_id))
        # secondary, read-only probe (DESIGN 8): the scheduler must not go on treating the failed trial as
        # a running task (HyperbandScheduler._cleanup_trial: terminator.on_task_remove + trial_decision)
        tid = str(t.trial_id)
        try:
            rec = self.sched._active_trials.get(tid)
            tracked = tid in self.sched.terminator._task_info
            running = rec is not None and rec.trial_decision == "CONTINUE"
        except Exception:  # noqa: BLE001
            self.o.count("probe_not_available:hyperband_active_trials")
            return
        self.o.count("decided:failed_trial_released_by_scheduler")
        if tracked or running:
            self.sub.violate("failed_trial_released", "failed_trial_still_tracked_as_running_task",
                             {"trial": tid, "in_terminator_task_info": tracked, "trial_decision_CONTINUE": running})

    def finish(self, vt):
        if self.promo:
            self.o.count("hb_promotions_observed", self.mon.promotions)


class SyncAdapter(Adapter):
    step_budget = True

    def __init__(self, o, p, spec):
        super().__init__(o, p, spec)
        from stv.props import c05

        space = gen.build_space(p["space"])
        self.sched = c05.build_sync(p, space, spec["seed"] % (2**31))
        self.dehb = p["kind"].startswith("dehb")
        self.searcher = self.sched.searcher
        self.norepeat = not self.dehb
        mgr = self.sched.bracket_manager
        self.systems = [[tuple(x) for x in b] for b in mgr.bracket_rungs]
        self.levels = {lv for _, lv in self.systems[0]}
        self.val = BracketValidator(self.systems, p["mode"], dehb=self.dehb)
        joblog = []
        orig_next = mgr.next_job

        def next_job():
            r = orig_next()
            b, s = r
            joblog.append((b, {"rung_index": s.rung_index, "level": s.level, "slot_index": s.slot_index, "trial_id": s.trial_id}))
            return r

        mgr.next_job = next_job
        slot_results = []
        if self.dehb:
            orig_res = mgr.on_result

            def on_result(result):
                slot_results.append((result[1].trial_id, result[1].metric_val))
                return orig_res(result)

            mgr.on_result = on_result
        self.mon = c05.MonitorB(self.sub, p, self.sched, self.val, joblog)
        self.mon.slot_results = slot_results
        self.vp_extra = {"max_resource_attr": "epochs" if p["use_mra"] else None, "checkpointing": p["checkpointing"],
                         "pbt_restart_levels": True}
        self._rc_at_failure = None

    def is_decision_level(self, vt):
        return vt.last_level in self.levels

    def post_error(self, vt, t, wd):
        before = self.val.stats["rung_completions"]
        self.mon.post_error(vt, t)
        if self.val.stats["rung_completions"] > before:
            self.o.count("sync_rung_completed_by_the_failure_report")

    def post_suggest(self, vt, next_id, sugg, t):
        nf = self.val.stats["failed_slots"]
        pc = self.val.stats["promotions_checked"]
        jl = self.mon.joblog
        while len(jl) > 1 and jl[0][1]["trial_id"] is not None and not self.dehb and \
                getattr(vt.trials.get(jl[0][1]["trial_id"]), "status", None) == "failed":
            # a scheduler may take the job of a failed trial that was placed in the next rung, report it
            # as failed at once and ask for the next job: the validator sees a job and a failed result
            b0, s0 = jl.pop(0)
            key = self.val.on_job(b0, s0["rung_index"], s0["level"], s0["slot_index"], s0["trial_id"])
            if key is not None:
                self.val.on_result(key, s0["trial_id"], float("nan"))
            self.o.count("sync_slot_of_failed_trial_failed_again_by_scheduler")
        super().post_suggest(vt, next_id, sugg, t)
        if nf > 0 and self.val.stats["promotions_checked"] > pc and not self.sub.violations:
            # a job of a rung that opened: the rung below was completed although it holds a failed slot?
            b = self.mon.joblog[0][0] if self.mon.joblog else None
            if b is not None and any(x[1] == "nan" for x in (self.val.brackets[b].get("prev_results") or [])):
                self.o.count("decided:sync_rung_completed_with_failed_slot")

    def finish(self, vt):
        self.mon._flush()
        st = self.val.stats
        self.o.count("sync_rung_completions", st["rung_completions"])
        self.o.count("sync_failed_slots", st["failed_slots"])


class PBTAdapter(Adapter):
    def __init__(self, o, p, spec):
        super().__init__(o, p, spec)
        from syne_tune.optimizer.schedulers import PopulationBasedTraining

        space = gen.build_space(p["space"])
        self.sched = PopulationBasedTraining(
            space, metric="loss", mode=p["mode"], resource_attr="epoch", max_t=p["max_t"],
            population_size=p["n_workers"], perturbation_interval=p["pbt_interval"], quantile_fraction=p["pbt_qf"],
            resample_probability=p["pbt_resample"], random_seed=spec["seed"] % (2**31),
            search_options=_search_options(p))
        self.searcher = self.sched.searcher
        self.norepeat = True  # fresh trials come from the random searcher
        self.ref = PBTRef(p["mode"], p["max_t"], p["pbt_interval"], p["pbt_qf"])
        self.vp_extra = {"pbt_restart_levels": True}

    def is_decision_level(self, vt):
        s = self.ref.t.get(vt.trial_id)
        return bool(s and s["judged"])

    def post_suggest(self, vt, next_id, sugg, t):
        o = self.o
        if t is None or not sugg.spawn_new_trial_id:
            self.sub.violate("pbt_suggestions", "pbt_suggested_a_resume", {"suggestion": repr(sugg)[:200]})
            return
        src = sugg.checkpoint_trial_id
        if self.ref.stack:
            exp = self.ref.stack.pop()
            o.count("decided:pbt_clone_source")
            if src is None:
                self.sub.violate("pbt_exploit", "pbt_stopped_trial_not_replaced_by_clone", {"expected_from": sorted(exp or [])})
            elif exp is not None and src not in exp:
                self.sub.violate("pbt_exploit", "pbt_clone_source_not_in_top_quantile", {"source": src, "top": sorted(exp)})
            if src is not None and vt.trials[src].status == "failed":
                o.count("obs:pbt_clone_from_failed_trial")
        elif src is not None:
            self.sub.violate("pbt_exploit", "pbt_clone_without_stopped_trial", {"source": src})
        self.ref.add(t.trial_id)

    def post_result(self, vt, t, result, decision):
        acc, kind = self.ref.on_report(t.trial_id, result["epoch"], result["loss"])
        self.o.count("decided:pbt_decision:" + kind)
        if len(acc) > 1:
            self.o.count("pbt_either_decision_accepted")
        if decision not in acc:
            self.sub.violate("pbt_rule", f"pbt_decision_{decision}_expected_{'|'.join(sorted(acc))}:{kind}",
                             {"trial": t.trial_id, "level": result["epoch"], "population": {k: v for k, v in self.ref.t.items()}})
        self.ref.after_decision(t.trial_id, decision, kind)

    def post_error(self, vt, t, wd):
        if t.trial_id in self.ref.t:
            self.ref.t[t.trial_id]["failed"] = True
            self.ref.t[t.trial_id]["judged"] = False


class MSRAdapter(Adapter):
    def __init__(self, o, p, spec):
        super().__init__(o, p, spec)
        from syne_tune.optimizer.schedulers import FIFOScheduler, MedianStoppingRule

        space = gen.build_space(p["space"])
        seed = spec["seed"] % (2**31)
        self.inner = FIFOScheduler(space, searcher=p["searcher"], metric="loss", mode=p["mode"], random_seed=seed,
                                   search_options=_search_options(p))
        self.sched = MedianStoppingRule(self.inner, resource_attr="epoch", running_average=p["msr_running_average"],
                                        grace_time=p["msr_grace_time"], grace_population=p["msr_grace_population"],
                                        rank_cutoff=p["msr_cutoff"])
        self.searcher = self.inner.searcher
        self.norepeat = True
        self.family = "msr_gp_fifo" if p["searcher"] == "bayesopt" else None
        self.ref = MSRRef(p["mode"], p["msr_grace_time"], p["msr_grace_population"], p["msr_cutoff"], p["msr_running_average"])
        self.last_kind = {}

    def is_decision_level(self, vt):
        return self.last_kind.get(vt.trial_id) == "rank"

    def post_result(self, vt, t, result, decision):
        exp, kind, tie = self.ref.on_report(t.trial_id, result["epoch"], result["loss"])
        self.last_kind[t.trial_id] = kind
        self.o.count("decided:msr_decision:" + kind)
        if decision != exp:
            self.sub.violate("median_rule", f"msr_decision_{decision}_expected_{exp}:{kind}",
                             {"trial": t.trial_id, "level": result["epoch"], "values_at_level": self.ref.at.get(result["epoch"])})


class MoashaAdapter(Adapter):
    """MOASHA: rung matrix = exactly the trials recorded at that rung (entries of failed trials included)
    plus the new one; decision by the rank of the new trial's priority as returned by the priority object."""

    def __init__(self, o, p, spec):
        super().__init__(o, p, spec)
        import numpy as np
        from syne_tune.optimizer.schedulers.multiobjective.moasha import MOASHA
        from stv.props.c19 import _wrap_priority

        np.random.seed(spec["seed"] % (2**32))  # MOASHA draws brackets and configurations from the global RNG
        space = gen.build_space(p["space"])
        self.metrics = ["m0", "m1"]
        self.sched = MOASHA(space, metrics=self.metrics, mode=p["mode"], time_attr="epoch", max_t=p["max_t"],
                            grace_period=p["grace_period"], reduction_factor=p["reduction_factor"], brackets=p["brackets"])
        self.calls = []
        _wrap_priority(self.sched._multiobjective_priority, self.calls)
        c0 = gen.Curves(p["curves"], spec["seed"] + 1, p["max_t"])
        c1 = gen.Curves(p["curves"], spec["seed"] + 4, p["max_t"])
        self.value_fn = lambda tid, level, config=None: {"m0": c0(tid, level), "m1": c1(tid, level)}
        self.sign = -1.0 if p["mode"] == "max" else 1.0
        self.bidx = {}
        self.milestones = {}
        self.recorded = {}
        self.at_milestone = {}
        self.vp_extra = {"metric": "m0"}

    def context(self):
        return contextlib.redirect_stdout(io.StringIO())

    def is_decision_level(self, vt):
        return bool(self.at_milestone.get(vt.trial_id))

    def post_suggest(self, vt, next_id, sugg, t):
        if t is None or not sugg.spawn_new_trial_id:
            self.sub.violate("moasha_suggestions", "moasha_suggested_a_resume", {})
            return
        tid = t.trial_id
        try:
            b = self.sched._trial_info[tid]
            bi = next(i for i, bb in enumerate(self.sched._brackets) if bb is b)
            if bi not in self.milestones:
                self.milestones[bi] = sorted(float(m) for m, _ in b._rungs)
            self.bidx[tid] = bi
        except Exception:  # noqa: BLE001
            self.o.inconclusive("moasha_bracket_not_readable")

    def pre_result(self, vt, t, result):
        self.n_calls = len(self.calls)

    def post_result(self, vt, t, result, decision):
        import numpy as np
        from fractions import Fraction

        o = self.o
        tid = t.trial_id
        bi = self.bidx.get(tid)
        if bi is None:
            return
        lev = result["epoch"]
        svec = [self.sign * result[m] for m in self.metrics]
        self.at_milestone[tid] = False
        if lev >= self.p["max_t"]:
            o.count("decided:moasha:max_t")
            if decision != "STOP":
                self.sub.violate("moasha_rule", "moasha_no_stop_at_max_t", {"level": lev})
            return
        reached = [m for m in self.milestones[bi] if lev >= m and all(x[0] != tid for x in self.recorded.get((bi, m), []))]
        if not reached:
            o.count("decided:moasha:non_rung")
            if decision != "CONTINUE":
                self.sub.violate("moasha_rule", "moasha_stop_between_rungs", {"level": lev})
            return
        m = max(reached)
        entries = self.recorded.setdefault((bi, m), [])
        if not entries:
            o.count("decided:moasha:first_arrival")
            exp = "CONTINUE"
        else:
            new = self.calls[self.n_calls:]
            n = len(entries) + 1
            if not new:
                self.sub.violate("moasha_rule", "moasha_rung_decision_without_priority_evaluation", {"level": lev})
                exp = decision
            else:
                M, pr = new[-1]
                want = sorted(map(tuple, [e[1] for e in entries]))
                got = sorted(map(tuple, np.array(M, dtype=float)[:-1].tolist())) if len(M) == n else None
                if got != want or list(np.array(M, dtype=float)[-1]) != svec:
                    self.sub.violate("rung_entries_intact", "moasha_rung_matrix_differs_from_recorded_history",
                                     {"recorded": want, "given": np.array(M).tolist(), "failed_trials": sorted(k for k, v in vt.trials.items() if v.status == "failed")})
                pr = np.array(pr)
                cnt = int((pr < pr[-1]).sum())
                exp = "CONTINUE" if Fraction(cnt, n) <= 1 / Fraction(self.p["reduction_factor"]) else "STOP"
                o.count("decided:moasha:rank")
                if any(vt.trials[e[0]].status == "failed" for e in entries):
                    o.count("decided:moasha:rank_with_failed_trial_in_rung")
        if decision != exp:
            self.sub.violate("moasha_rule", f"moasha_decision_{decision}_expected_{exp}", {"level": lev, "rung": m, "n": len(entries) + 1})
        entries.append((tid, svec))
        self.at_milestone[tid] = decision == "CONTINUE"


# =================================================================================================
# the C13 monitor proper
# =================================================================================================
def _gp_snapshot(searcher):
    st = searcher.state_transformer.state
    pend = [(x.trial_id, x.resource) for x in st.pending_evaluations]
    obs = {e.trial_id: copy.deepcopy(e.metrics) for e in st.trials_evaluations}
    cfg = {k: dict(v) for k, v in st.config_for_trial.items()}
    return pend, obs, list(st.failed_trials), cfg


class Top:
    def __init__(self, o, p, ad, label):
        self.o, self.p, self.ad, self.label = o, p, ad, label
        self.failures = []  # (trial id, point, level)
        self.failed_cfg = {}
        self.cur = None  # (trial id, point) of the on_trial_error call in flight
        self.nv = 0
        self.hp = _hp_keys(p["space"])
        self.ef_calls = []
        self.after = []
        self.handled_resume = False
        self.snap = None
        self.failed_observed = set()  # failed trials the GP searcher held an observation of when they failed
        self.model_based = False
        s = ad.searcher
        if s is not None and hasattr(s, "evaluation_failed"):
            orig = s.evaluation_failed

            def evaluation_failed(trial_id):
                self.ef_calls.append(trial_id)
                return orig(trial_id)

            s.evaluation_failed = evaluation_failed
        self.has_searcher = s is not None

    # ------------------------------------------------------------------ helpers
    def ctx(self):
        return self.failures[-1][1] if self.failures else "no_failure_yet"

    def viol(self, clause, what, detail=None, point=None):
        self.o.violate(clause, f"{self.label}:{point or self.ctx()}:{what}", detail)

    def flush(self):
        sub = self.ad.sub
        while self.nv < len(sub.violations):
            v = sub.violations[self.nv]
            self.nv += 1
            clause = "bracket_progress" if v["mechanism"] in (
                "new_bracket_opened_although_open_bracket_has_free_slot", "job_for_rung_other_than_current",
                "job_for_completed_bracket") else "others_follow_reference"
            if v["clause"] in ("failed_trial_released", "population_intact", "rung_entries_intact"):
                clause = "bookkeeping_intact"
            self.viol(clause, "ref:" + v["mechanism"], {"reference_clause": v["clause"], "detail": v["detail"],
                                                        "failures": self.failures})

    def proj(self, cfg):
        return {k: cfg.get(k) for k in self.hp}

    # ------------------------------------------------------------------ suggest
    def pre_suggest(self, vt, next_id):
        self.model_based = bool(self.ad.family) and self._gp_model_based_phase()
        self.ad.pre_suggest(vt, next_id)

    def _gp_model_based_phase(self):
        """Will the coming get_config be a model-based choice? (documented rule: initial random choices until
        num_init_random distinct configurations are in the state and there is at least one observation).
        Read from the public state; qualifies counters only, never a verdict."""
        try:
            st = self.ad.searcher.state_transformer.state
            if not st.trials_evaluations:
                return False
            ids = {x.trial_id for x in st.pending_evaluations} | set(st.failed_trials) | {e.trial_id for e in st.trials_evaluations}
            distinct = {repr(sorted(self.proj(st.config_for_trial[i]).items())) for i in ids}
            return len(distinct) >= self.p.get("gp_options", {}).get("num_init_random", 3)
        except Exception:  # noqa: BLE001
            self.o.count("probe_not_available:gp_state")
            return False

    def post_suggest(self, vt, next_id, sugg, t):
        o, p, ad = self.o, self.p, self.ad
        if self.failures:
            o.count("decided:suggest_after_failure")
            self.after.append("s")
        if sugg is None:
            if ad.finite:
                o.count("space_exhausted_None")
                if p.get("restrict_n") and p.get("allow_duplicates"):
                    members = [self.proj(c) for c in p.get("restrict_configurations", [])]
                    if members and all(m in self.failed_cfg.values() for m in members):
                        o.count("decided:restrict:allow_duplicates:None_after_every_member_failed")
                    else:
                        o.count("restrict:allow_duplicates:None_although_a_member_has_not_failed")
            elif p["kind"].startswith("dehb") and self.failures:
                self.viol("later_calls_return", "suggest_fails_after_failed_slot", {"what": "suggest returned None"})
                vt.stop = True
            else:
                self.viol("later_calls_return", "suggest_returned_None_on_infinite_space", {"failures": self.failures})
                vt.stop = True
            return
        if not sugg.spawn_new_trial_id:
            tid = sugg.checkpoint_trial_id
            st = vt.trials.get(tid)
            if t is None:
                self.handled_resume = True
                status = None if st is None else st.status
                if status == "failed":
                    fp = next((f for f in self.failures if f[0] == tid), (tid, "?", None))
                    what = "failed_trial_resumed"
                    detail = {"trial": tid, "failed_at": fp[1], "failures": self.failures}
                    if p["kind"].startswith("sync"):
                        b, slot = ad.mon.joblog[0] if ad.mon.joblog else (None, {})
                        prev = ad.val.brackets[b].get("prev_results") if b is not None and b < len(ad.val.brackets) else None
                        valid = None if prev is None else sum(1 for x in prev if x[1] != "nan")
                        size = None
                        if b is not None and slot:
                            size = ad.systems[b % len(ad.systems)][slot["rung_index"]][0]
                        if fp[1] != WD and valid is not None and size is not None and valid < size:
                            what += ":fewer_valid_results_than_slots_in_next_rung"
                        detail.update({"bracket": b, "slot": slot, "previous_rung": prev, "bracket_rungs": ad.systems})
                    elif fp[1] == WD:
                        what += ":unpromoted_rung_entry_of_failed_trial"
                    self.viol("failed_not_resumed", what, detail, point=fp[1])
                else:
                    self.viol("later_calls_return", f"resume_of_non_paused_trial:{status}", {"trial": tid})
                vt.stop = True
                return
            if self.failures:
                o.count("decided:resume_after_failure_not_failed_trial")
        else:
            if t is not None and sugg.checkpoint_trial_id is None and self.failed_cfg and ad.norepeat:
                o.count("decided:new_config_vs_failed_configs")
                if p.get("allow_duplicates"):
                    o.count("decided:new_config_vs_failed_configs:allow_duplicates")
                    if p.get("restrict_n"):
                        o.count("decided:no_resuggest_of_failed:restrict_configurations:allow_duplicates")
                        o.count(f"decided:no_resuggest_of_failed:restrict_configurations:allow_duplicates:{p['searcher']}")
                        members = [self.proj(c) for c in p.get("restrict_configurations", [])]
                        if members and all(m in self.failed_cfg.values() for m in members):
                            # every member of the restricted set has failed: the only legal answer is None
                            o.count("decided:restrict:allow_duplicates:suggestion_after_every_member_failed")
                    if ad.family:
                        cell = "decided:no_resuggest_of_failed:gp:allow_duplicates"
                        o.count(cell)
                        if self.failed_observed:
                            o.count(cell + ":failed_after_observation")
                            if self.model_based:
                                o.count(cell + ":failed_after_observation:model_based_phase")
                                o.count(f"{cell}:failed_after_observation:model_based_phase:{p['searcher']}")
                pc = self.proj(sugg.config)
                for ftid, fc in self.failed_cfg.items():
                    if fc == pc:
                        fp = next(f for f in self.failures if f[0] == ftid)
                        self.viol("failed_config_not_repeated",
                                  "failed_config_suggested_again" + (":allow_duplicates" if p.get("allow_duplicates") else ""),
                                  {"failed_trial": ftid, "new_trial": t.trial_id, "config": pc, "searcher": p["searcher"]}, point=fp[1])
                        break
        ad.post_suggest(vt, next_id, sugg, t)
        self.flush()

    # ------------------------------------------------------------------ results
    def pre_result(self, vt, t, result):
        f = getattr(self.ad, "pre_result", None)
        if f is not None:
            f(vt, t, result)

    def post_result(self, vt, t, result, decision):
        if self.failures:
            self.o.count("decided:decision_after_failure")
            self.after.append(decision[0])
        self.ad.post_result(vt, t, result, decision)
        self.flush()

    def post_complete(self, vt, t):
        if self.failures:
            self.after.append("c")
        self.ad.post_complete(vt, t)
        self.flush()

    # ------------------------------------------------------------------ failures
    def classify(self, vt, t):
        if vt.wd_now:
            return WD
        if t.run_no > 0:
            return RS
        if t.reports_in_run == 0:
            return BF
        return AR if self.ad.is_decision_level(t) else BT

    def pre_error(self, vt, t):
        point = self.classify(vt, t)
        self.cur = (t.trial_id, point, t.last_level)
        self.ef_calls = []
        self.snap = _gp_snapshot(self.ad.searcher) if self.ad.family else None
        self.ad.pre_error(vt, t)

    def post_error(self, vt, t):
        o, ad = self.o, self.ad
        tid, point, level = self.cur
        self.failures.append(self.cur)
        self.failed_cfg[tid] = self.proj(t.config)
        self.cur = None
        o.count("failures")
        o.count("failures:" + point)
        o.count("decided:on_trial_error_returned")
        stid = str(tid)
        if self.has_searcher and not self.p["kind"].startswith("dehb"):
            o.count("decided:evaluation_failed_once")
            if self.ef_calls != [stid]:
                what = ("failure_not_forwarded_to_searcher" if not self.ef_calls else
                        "evaluation_failed_called_for_other_trial" if any(c != stid for c in self.ef_calls) else
                        "evaluation_failed_called_more_than_once")
                self.viol("on_trial_error_returns", what, {"calls": self.ef_calls, "failed_trial": stid})
        if ad.family:
            o.count("gp:failure_events")
            o.count("decided:searcher_state")
            pend0, obs0, failed0, cfg0 = self.snap
            pend1, obs1, failed1, cfg1 = _gp_snapshot(ad.searcher)
            fam = ad.family
            if any(bool(v) for v in (obs0.get(stid) or {}).values()):
                self.failed_observed.add(tid)
                o.count("gp:failure_events:trial_had_observations")
                if self.p.get("allow_duplicates"):
                    o.count("gp:failure_events:trial_had_observations:allow_duplicates")
            d = {"failed_trial": stid, "pending_before": pend0, "pending_after": pend1, "failed_list": failed1}
            oth0 = sorted((x for x in pend0 if x[0] != stid), key=repr)
            oth1 = sorted((x for x in pend1 if x[0] != stid), key=repr)
            if oth0 != oth1:
                lost = [x for x in oth0 if x not in oth1]
                self.o.violate("searcher_state", f"{fam}:{point}:pending_of_other_trials_" + ("dropped" if lost else "changed"), d)
            if any(x[0] == stid for x in pend1):
                self.o.violate("searcher_state", f"{fam}:{point}:failed_trial_keeps_pending_evaluations", d)
            if stid not in failed1:
                self.o.violate("searcher_state", f"{fam}:{point}:failed_trial_not_listed_as_failed", d)
            if any(f not in failed1 for f in failed0):
                self.o.violate("searcher_state", f"{fam}:{point}:earlier_failed_trial_dropped_from_failed_list", d)
            if {k: v for k, v in obs0.items() if k != stid} != {k: v for k, v in obs1.items() if k != stid}:
                self.o.violate("searcher_state", f"{fam}:{point}:observations_of_other_trials_changed", {"failed_trial": stid})
            if {k: v for k, v in cfg0.items() if k != stid} != {k: v for k, v in cfg1.items() if k != stid}:
                self.o.violate("searcher_state", f"{fam}:{point}:configs_of_other_trials_changed", {"failed_trial": stid})
        ad.post_error(vt, t, point == WD)
        self.flush()


# =================================================================================================
# generator
# =================================================================================================
def _hb_params(rng, typ, point, max_max_t=30):
    for _ in range(400):
        p = gen.hyperband_params(rng, [typ])
        if p["max_t"] > max_max_t:
            continue
        lv = gen.ref_rung_levels(p)
        if not lv:
            continue
        if typ == "pasha":
            p["brackets"] = 1
            p["rung_system_per_bracket"] = False
            if len(lv) < 2:
                continue  # C04-K1: PASHA with a single rung level
        if point == AR and typ in PROMO_TYPES:
            if len(lv) < 2:
                continue
            p["brackets"] = rng.choice([2, 3, 4])  # a rung level answered CONTINUE needs a bracket > 0
        if point == BT and len(lv) >= p["max_t"] - 1:
            continue  # every level is a rung level: no 'between'
        if point == BT and typ in PROMO_TYPES and lv[0] < 2:
            continue  # a first-run trial pauses at its first milestone: 'between' needs levels below it
        return p
    raise RuntimeError("no hyperband parameters")


def _finite_space(rng):
    d = {"h0": ["choice", [f"c{j}" for j in range(rng.randint(2, 3))]], "h1": ["finrange", 0.0, 1.0, rng.randint(2, 3)]}
    if rng.random() < 0.4:
        d["const_i"] = ["const", 7]
    return d


def expand(spec):
    rng = random.Random(spec["seed"])
    kind = spec["kind"]
    point = spec.get("point", BF)
    p = {"kind": kind, "mode": rng.choice(["min", "max"])}
    srch = spec.get("searcher")
    if srch is None:
        srch = {"fifo_random": "random", "fifo_grid": "grid", "fifo_bayesopt": "bayesopt", "rea": "rea"}.get(kind, "random")
    p["searcher"] = srch
    gp = srch in ("bayesopt", "hypertune")
    p["n_trials"] = rng.randint(3, 10) if not gp else rng.randint(3, 7)
    p["n_workers"] = rng.randint(1, min(6, p["n_trials"]))
    if point in (AR, RS, WD) and p["n_workers"] == 1 and rng.random() < 0.7:
        p["n_workers"] = 2
    if point == RS:
        p["n_trials"] = max(p["n_trials"], 5)
    p["policy"] = rng.choice(["uniform", "round_robin", "starve", "burst", "eager", "uniform"])
    p["curves"] = rng.choice(["continuous", "continuous", "ties", "crossing"])
    p["space"] = gen.small_space(rng, ensure_infinite=True, ordinal_kinds=("equal",))
    p["allow_duplicates"] = False
    if gp:
        p["gp_options"] = {"opt_maxiter": rng.randint(3, 5), "opt_nstarts": 1,
                           "num_init_random": rng.choice([3, 3, 4, 6, 50])}
    # ------------------------------------------------------------------ kind specific
    if kind in ("fifo_random", "fifo_grid", "fifo_bayesopt", "rea"):
        p["max_t"] = rng.randint(2, 6)
        if kind == "rea":
            p["rea_population"] = rng.randint(2, 6)
            p["rea_sample"] = rng.randint(1, 3)
        if kind in ("fifo_random", "fifo_bayesopt") and rng.random() < (0.4 if kind == "fifo_random" else 0.15):
            p["space"] = _finite_space(rng)
            p["allow_duplicates"] = True
        if kind == "fifo_grid" and rng.random() < 0.3:
            p["space"] = _finite_space(rng)
    elif kind.startswith("hb_"):
        typ = kind[3:]
        p.update(_hb_params(rng, typ, point, 16 if gp else 30))
        p["type"] = typ
        if typ == "cost_promotion":
            p["curves"] = rng.choice(["continuous", "crossing"])
        p["use_mra"] = rng.random() < 0.5
        p["checkpointing"] = rng.random() < 0.6
        if typ.startswith("rush"):
            p["rush_candidates"] = rng.choice([0, 0, 1, 2])
        if gp:
            p["searcher_data"] = rng.choice(["rungs", "all", "rungs_and_last"] if typ == "stopping" else ["rungs", "all"])
            if srch == "hypertune":
                p["searcher_data"] = "rungs"  # its independent-GP model only holds data at rung levels
            p["register_pending_myopic"] = rng.random() < 0.3
            if rng.random() < 0.5:
                # GP searcher with allow_duplicates=True ("we exclude configs which are pending or failed") on a
                # small finite space: 'a failed configuration is never suggested again' is decidable and likely to
                # be hit. The exclusion then rests on the failed list alone (observed configs are not excluded), so
                # the trial should fail AFTER the searcher holds an observation of it, and enough suggestions must
                # follow in the model-based phase (few initial random choices, more trials)
                p["gp_dup"] = True
                p["allow_duplicates"] = True
                for _ in range(20):
                    p["space"] = _finite_space(rng)
                    if gen.space_size(p["space"]) >= 6:
                        break
                p["gp_options"]["num_init_random"] = rng.choice([2, 3])
                p["n_trials"] = rng.randint(7, 10)
                p["n_workers"] = min(p["n_workers"], 3)
                if srch == "bayesopt" and point in (BT, BF):
                    p["searcher_data"] = "all"  # every report is an observation: 'between' failures are observed
        elif srch == "random" and typ in ("stopping", "promotion") and rng.random() < 0.25:
            p["space"] = _finite_space(rng)
            p["allow_duplicates"] = True
    elif kind in ("sync", "dehb"):
        sub = ("sync_custom", "sync_geometric") if kind == "sync" else ("dehb", "dehb_geometric")
        k2 = rng.choice(sub)
        p["kind"] = k2
        if k2 in ("sync_custom", "dehb"):
            R = rng.randint(1, 4)
            levels = sorted(rng.sample(range(1, 20), R))
            sizes = sorted(rng.sample(range(1, 9), R), reverse=True)
            first = [[s_, l_] for s_, l_ in zip(sizes, levels)]
            if k2 == "dehb":
                if sum(sizes) < 3:
                    first[0][0] += 3  # DEHB asserts a parent pool of >= 3 evaluated trials
                p["rungs_first_bracket"] = first
                p["num_brackets"] = R  # fewer brackets than rungs is C05-K2: not generated here
            else:
                systems = [first]
                for off in range(1, rng.randint(1, R)):
                    lv = levels[off:]
                    sz = sorted(rng.sample(range(1, 9), len(lv)), reverse=True)
                    systems.append([[s_, l_] for s_, l_ in zip(sz, lv)])
                p["bracket_rungs"] = systems
            p["max_level"] = levels[-1]
        else:
            for _ in range(50):
                g, rf, ml = rng.randint(1, 3), rng.choice([2, 3, 4, 2.5]), rng.choice([4, 8, 9, 16, 27])
                if ml <= g:
                    ml = g + 3
                lvls, j = [], 0
                while g * rf ** j < ml:
                    lvls.append(int(round(g * rf ** j)))
                    j += 1
                if len(set(lvls + [ml])) == len(lvls) + 1 and lvls == sorted(set(lvls)):
                    break  # else C05-K1: a rounded level collides (with the maximum level)
            else:
                g, rf, ml = 1, 3, 9
            p["grace_period"], p["reduction_factor"], p["max_level"] = g, rf, ml
            p["brackets"] = rng.choice([None, 1, 2, 3]) if k2 == "sync_geometric" else None
        p["use_mra"] = rng.random() < 0.6
        p["checkpointing"] = rng.random() < 0.6
        p["support_pause_resume"] = rng.random() < 0.7
        if kind == "sync" and (point == AR or rng.random() < 0.3):
            # small custom systems: several brackets open within 3-10 trials; tight rungs make
            # 'fewer valid results than slots' reachable with <= 3 failures
            R = rng.randint(2, 3)
            levels = sorted(rng.sample(range(1, 10), R))
            sizes = sorted(rng.sample(range(1, 5), R), reverse=True)
            systems = [[[s_, l_] for s_, l_ in zip(sizes, levels)]]
            nb = rng.randint(2, R)
            for off in range(1, nb):
                lv = levels[off:]
                sz = sorted(rng.sample(range(1, 4), len(lv)), reverse=True)
                systems.append([[s_, l_] for s_, l_ in zip(sz, lv)])
            p["kind"] = "sync_custom"
            p["bracket_rungs"] = systems
            p["max_level"] = levels[-1]
            for key in ("grace_period", "reduction_factor", "brackets"):
                p.pop(key, None)
        p["max_t"] = p["max_level"]
        p["fail_rate"] = 0.0
    elif kind == "pbt":
        p["max_t"] = rng.randint(4, 12)
        p["pbt_interval"] = rng.choice([1, 2, 3]) if point != BT else rng.choice([2, 3, 4])
        p["pbt_qf"] = rng.choice([0.25, 0.5, 0.34, 0.5])
        p["pbt_resample"] = rng.choice([0.25, 0.0, 1.0])
        p["curves"] = rng.choice(["continuous", "crossing"])
        p["n_workers"] = max(2, p["n_workers"])
    elif kind == "msr":
        p["max_t"] = rng.randint(3, 8)
        p["msr_grace_time"] = rng.randint(1, 3)
        p["msr_grace_population"] = rng.randint(1, 4) if point != BT else rng.randint(2, 5)
        p["msr_cutoff"] = rng.choice([0.5, 0.3, 0.7, 0.0])
        p["msr_running_average"] = rng.random() < 0.5
        if point in (WD, AR):
            p["msr_grace_time"], p["msr_grace_population"] = 1, rng.randint(1, 2)
            p["msr_cutoff"] = rng.choice([0.0, 0.3, 0.5]) if point == WD else rng.choice([0.5, 0.7])
        r = rng.random()
        if spec.get("searcher") is not None:
            pass
        elif r < 0.35:
            p["space"] = _finite_space(rng)
            p["allow_duplicates"] = True
        elif r < 0.45:
            p["searcher"] = "bayesopt"
            p["gp_options"] = {"opt_maxiter": 3, "opt_nstarts": 1, "num_init_random": rng.choice([3, 50])}
            p["n_trials"] = min(p["n_trials"], 6)
    elif kind == "moasha":
        p["grace_period"] = rng.randint(1, 2)
        p["reduction_factor"] = rng.choice([2, 3, 2.5])
        p["max_t"] = rng.choice([4, 6, 8, 9, 12, 16])
        p["brackets"] = rng.choice([1, 1, 2])
        p["curves"] = rng.choice(["continuous", "crossing", "ties"])
    else:
        raise ValueError(kind)
    # ------------------------------------------------------------------ failure targets
    pts = POINTS[kind]
    nf = rng.choice([1, 1, 2, 2, 3])
    targets = []
    for i in range(nf):
        pt = point if i == 0 else rng.choice(pts)
        skip = {BF: rng.randint(0, max(0, p["n_trials"] - 1)), BT: rng.randint(0, 6), AR: rng.randint(0, 2),
                RS: rng.randint(0, 2), WD: rng.randint(0, 3)}[pt]
        if i == 0 and pt == BF:
            skip = rng.randint(0, min(2, p["n_trials"] - 1))
        if i == 0 and pt in (RS, WD, AR):
            skip = rng.randint(0, 1)
        targets.append([pt, skip])
    if kind == "sync" and p["kind"] == "sync_custom" and rng.random() < 0.5:
        targets = [[rng.choice([BF, BT]) if t[0] != point else t[0], min(t[1], 1)] for t in targets]
    p["targets"] = targets
    p["max_suggest"] = 3 * p["n_trials"] + 6
    p["max_events"] = min(60 + 12 * p["n_trials"] + 3 * p["max_t"], 260 if not gp else 80)
    if gp:
        p["max_suggest"] = 2 * p["n_trials"] + 4
    if p.get("gp_dup"):
        p["max_suggest"] = 2 * p["n_trials"] + 8
        p["max_events"] = 130
    # ------------------------------------------------------------------ restricted search + allow_duplicates
    # (own random stream, so that the draws above stay what they were)
    r2 = random.Random(spec["seed"] * 7 + 3)
    if p["searcher"] == "random" and (kind in ("fifo_random", "msr") or kind.startswith("hb_")) and r2.random() < 0.3:
        p["restrict_n"] = r2.choice([2, 2, 3, 3, 4, 6])
        p["restrict_seed"] = r2.randint(0, 2**30)
        p["allow_duplicates"] = True
        p["n_trials"] = max(p["n_trials"], 6)
        p["max_suggest"] = 3 * p["n_trials"] + 12
        # (KDE / BORE, the other searchers built on StochasticAndFilterDuplicatesSearcher, cannot be imported here)
        if p["restrict_n"] <= 3:
            # small sets: as many failure targets as members, so that 'every member has failed => None' is reached
            while len(p["targets"]) < p["restrict_n"] + 1:
                p["targets"].append([r2.choice([BF, BT]) if BT in pts else BF, r2.randint(0, 1)])
    p.update({k: v for k, v in spec.items() if k not in ("seed", "kind", "point", "searcher") and not k.startswith("_")})
    if "kind_exact" in spec:
        p["kind"] = spec["kind_exact"]
    return p


def _adapter(o, p, spec):
    k = spec["kind"]
    if k in ("fifo_random", "fifo_grid", "fifo_bayesopt", "rea"):
        return FifoAdapter(o, p, spec)
    if k.startswith("hb_"):
        return HBAdapter(o, p, spec)
    if k in ("sync", "dehb"):
        return SyncAdapter(o, p, spec)
    if k == "pbt":
        return PBTAdapter(o, p, spec)
    if k == "msr":
        return MSRAdapter(o, p, spec)
    return MoashaAdapter(o, p, spec)


def _b_final_poll_run(spec, o):
    """Engine-B arms for 'exceeding the limit ends the run with an error that names a failed trial' when the failures
    that exceed max_failures are observed in the very last iteration of Tuner.run's loop — the iteration that leaves
    through `break` because nothing is running any more:
      wait_last          wait_trial_completion_when_stopping=True, max_num_trials_started reached, the job that ends
                         last fails (max_failures=0, single failure);
      exhaust_last       the searcher runs out of configurations (tiny table) while trials are still running, the job
                         that ends last fails (max_failures=0);
      all_in_final_poll  as many workers as trials, every trial fails before its first report: all max_failures+1
                         failures arrive in one poll.
    For the first two the job that ends last is learnt from a first pass of the same (deterministic) simulated run without
    failures; it then fails at the very end of its run (all results delivered, status failed), so the time line is the same."""
    import random as _r

    from stv import simrun
    from stv.props import c01

    rng = _r.Random(spec["seed"] + 29)
    arm = spec["arm"]
    p = c01.expand({"seed": spec["seed"], "kind": spec["kind"], "backend": "sim"})
    p.pop("fail", None)
    p["sjwd"], p["async"], p["max_failures"] = True, True, 0
    if arm == "all_in_final_poll":
        w = rng.randint(1, 4)
        p["wait"], p["n_workers"], p["stop"] = True, w, {"max_num_trials_started": w - 1}  # 'more than' w-1 started
        p["fail"] = {f"{i}:0": 0 for i in range(w)}
        p["max_failures"] = rng.choice([0, w - 1, w - 1])
        return simrun.SimRun(p, spec["seed"]).run(), p
    if arm == "wait_last":
        p["wait"] = True
        p["stop"] = {"max_num_trials_started": rng.randint(1, 6)}
        p["n_workers"] = rng.randint(1, 4)
    else:
        p["table"] = {"x0": ["randint", 0, rng.randint(1, 2)], "x1": ["choice", ["v0", "v1", "v2"][: rng.randint(2, 3)]]}
        p["stop"] = {"max_num_trials_started": 500}
        p["n_workers"] = rng.randint(2, 4)
        p["wait"] = rng.random() < 0.5
    r1 = simrun.SimRun(dict(p), spec["seed"]).run()
    last = None
    for e in r1.rec.events:
        if e[1] == "w.job_end" and e[2].get("status") == "completed":
            last = (e[2]["trial"], e[2]["run"])
    if r1.exc is not None or last is None:
        o.count("B:final_poll_arm:first_pass_unusable")
        return r1, p
    keep = 10**6  # all results are delivered, then the job ends with status failed
    if not spec["kind"].startswith("fifo") or rng.random() < 0.3:
        # one result less: the last report of a full run is answered STOP by most schedulers, and a decision in the
        # same poll as the failure is a different situation (two end notifications, C01/C13 known findings)
        n_run = 0
        for e in r1.rec.events:
            if e[1] in ("c.start_trial", "c.resume_trial") and e[2].get("trial_id") == last[0]:
                n_run = 0
            elif e[1] == "c.trial_result" and e[2].get("trial_id") == last[0]:
                n_run += 1
        keep = max(0, n_run - 1)
    p["fail"] = {f"{last[0]}:{last[1]}": keep}
    return simrun.SimRun(p, spec["seed"]).run(), p


def run_engine_b(spec):
    """Real Tuner runs with failures / external stops; decided by the C01 trace automaton."""
    import random as _r

    from stv import simrun
    from stv.props import c01

    o = Obs()
    # arms that place the failure(s) which exceed max_failures in the LAST iteration of the tuning loop (see below)
    arm_run = _b_final_poll_run(spec, o) if spec.get("arm") else None
    sp = {"seed": spec["seed"], "kind": spec["kind"], "backend": spec["backend"]}
    p = c01.expand(sp)
    rng = _r.Random(spec["seed"] + 17)
    p["max_failures"] = rng.choice([0, 1, 3, 100])
    plan = {f"{rng.randint(0, 8)}:{rng.choice([0, 0, 1, 1])}": rng.randint(0, 3) for _ in range(rng.randint(1, 3))}
    p["sjwd"] = True  # start_jobs_without_delay=False is the subject of the open finding C01-K1
    if arm_run is not None:
        r, p = arm_run
    elif spec["backend"] == "proc":
        p["delete_checkpoints"] = False
        p["plan"].pop("fail", None)
        p["plan"].pop("ext_stop", None)
        p["plan"][rng.choice(["fail", "ext_stop", "ext_stop"])] = plan
        r = simrun.ProcRun(p, spec["seed"])
    else:
        p["fail"] = plan
        p["sjwd"] = True
        r = simrun.SimRun(p, spec["seed"])
    if arm_run is None:
        r.run()
    if spec["backend"] == "proc":
        r.cleanup()
    o.count("B:runs")
    if spec.get("arm"):
        o.count("B:arm:" + spec["arm"])
    n_fail = sum(1 for e in r.rec.events if e[1] == "s.on_trial_error.call")
    o.count("B:on_trial_error_calls", n_fail)
    if any(e[1] == "w.external_stop" for e in r.rec.events):
        o.count("B:runs_with_external_stop")
    if r.exc is not None and type(r.exc).__name__ != "LoopBoundExceeded":
        msg = repr(r.exc)[:200]
        if type(r.exc).__name__ == "ValueError" and "failed" in msg and "Trial - " in msg:
            # the documented failure limit: run() raises once MORE than max_failures trials have failed
            if n_fail > p["max_failures"]:
                o.count("B:ended_by_failure_limit")
            else:
                o.violate("run_carries_on", "B:run_aborted_although_failures_within_max_failures",
                          {"error": msg, "failures_notified": n_fail, "max_failures": p["max_failures"], "kind": spec["kind"]})
        else:
            tag = f":resume_of_non_paused_trial:{spec['kind']}" if "Cannot resume trial_id" in msg else ""
            o.violate("run_carries_on", f"B:tuner_run_raised:{type(r.exc).__name__}{tag}", {"error": msg, "kind": spec["kind"], "backend": spec["backend"]})
    elif r.exc is None and n_fail > 0:
        o.count("B:runs_carried_on_after_failure")
    sub = Obs()
    sig = c01.check_trace(sub, r.rec.events, p["n_workers"], True, spec["kind"], exc=r.exc, failure_must_be_notified=True)
    for v in sub.violations:
        m = v["mechanism"] + (f":{spec['kind']}" if v["mechanism"].startswith("resume_of_trial_in_state_") else "")
        o.violate(v["clause"], "B:" + m, v["detail"])
    o.count("B:end_notifications_decided", sub.counters.get("decided:end_notifications", 0))
    o.count("B:external_stops_notified", sub.counters.get("external_stops_notified", 0))
    o.count("B:failures_notified", sub.counters.get("failures_notified", 0))
    o.count("B:decided:failed_status_notified", sub.counters.get("decided:failed_status_notified", 0))
    # 'exceeding the limit ends the run with an error that names a failed trial' (jobs whose polled status was 'failed')
    n_failed_status = sub.counters.get("failures_notified", 0)
    if r.exc is None and n_failed_status > p["max_failures"] and not sub.violations:
        o.violate("failure_limit", "B:more_than_max_failures_failed_but_run_returned_normally",
                  {"failed": n_failed_status, "max_failures": p["max_failures"], "kind": spec["kind"]})
    elif n_failed_status > p["max_failures"]:
        o.count("B:failure_limit_exceeded_decided")
    if p["max_failures"] == 0 and n_failed_status > 0:
        o.count("B:runs_with_max_failures_0_and_a_failure")
    # was the limit exceeded only by failures seen in the final iteration of the loop, the one that leaves through
    # `break` (no on_loop_end follows), i.e. with nothing about a failed trial recorded in an earlier iteration?
    err_idx = [e[0] for e in r.rec.events if e[1] == "s.on_trial_error.call"]
    end_idx = [e[0] for e in r.rec.events if e[1] == "c.loop_end"]
    if n_failed_status > p["max_failures"] and err_idx and (not end_idx or min(err_idx) > max(end_idx)) and not sub.violations:
        o.count("B:decided:failure_limit:all_failures_in_final_loop_iteration")
        o.count("B:decided:failure_limit:all_failures_in_final_loop_iteration:" + str(spec.get("arm", "default")))
        if n_failed_status > 1:
            o.count("B:decided:failure_limit:several_failures_in_final_loop_iteration")
    o.set_sig(("B", spec["kind"], sig), nontrivial=n_fail > 0)
    o.sample = {"engine": "B", "kind": spec["kind"], "backend": spec["backend"], "on_trial_error_calls": n_fail,
                "trace": ["%s%d" % s_ for s_ in sig[:25]]}
    return o.result()


def run_case(spec):
    if spec.get("engine") == "B":
        return run_engine_b(spec)
    o = Obs()
    p = expand(spec)
    label = kind_label(spec["kind"], p["searcher"] if spec["kind"] != "msr" else None)
    if spec["kind"] == "msr" and p["searcher"] == "bayesopt":
        label = "msr+bayesopt"
    fam = "dehb" if p["kind"].startswith("dehb") else None
    try:
        ad = _adapter(o, p, spec)
    except Exception as e:  # noqa: BLE001
        o.violate("construction", f"{label}:constructor_raised:{type(e).__name__}",
                  {"params": {k: v for k, v in p.items() if k != "space"}, "error": repr(e)[:300]})
        return o.result()
    ad.finite = gen.space_size(p["space"]) is not None or p["searcher"] == "grid" or bool(p.get("restrict_n"))
    top = Top(o, p, ad, label)
    FVTuner = _fvtuner_class()
    vp = {"n_workers": p["n_workers"], "max_t": p["max_t"], "metric": "loss", "resource_attr": "epoch",
          "policy": p["policy"], "seed": spec["seed"] + 2, "max_trials": p["n_trials"], "max_suggest": p["max_suggest"],
          "max_events": p["max_events"], "order": p.get("order"), "fail": p.get("fail")}
    vp.update(ad.vp_extra)
    budget = spec.get("_stepbudget") if ad.step_budget else None
    vt = FVTuner(Port(ad.sched, step_budget=budget), vp, ad.value_fn, extra_fn=ad.extra_fn, monitors=[top],
                 targets=[] if p.get("fail") else p["targets"], is_decision_level=ad.is_decision_level)
    with ad.context():
        vt.run()
    ad.finish(vt)
    top.flush()
    # ------------------------------------------------------------------ raised
    if vt.raised and not (vt.raised[1] == "resume_of_non_paused" and top.handled_resume):
        api, exc = vt.raised[0], vt.raised[1]
        d = {"raised": vt.raised, "failures": top.failures, "params": {k: v for k, v in p.items() if k not in ("space", "targets")}}
        if api == "on_trial_error":
            tid, point, level = top.cur if top.cur else (None, "?", None)
            o.violate("on_trial_error_returns", f"{label}:{point}:raised:on_trial_error:{exc}", d)
            o.count("failures:" + point)
            top.failures.append((tid, point, level))
        elif fam == "dehb" and top.failures and api == "suggest":
            msg = str(vt.raised[2]) if len(vt.raised) > 2 else ""
            if exc == "KeyError" and "KeyError(None)" not in msg:
                # not the 'slot of a failed job holds trial id None' finding (C05-K3 / C13-K6): bookkeeping of a real trial is gone
                o.violate("later_calls_return", f"{label}:{top.ctx()}:suggest_raises_KeyError_for_a_known_trial", d)
            else:
                o.violate("later_calls_return" if exc != "StepBudgetExceeded" else "bracket_progress",
                          f"{label}:{top.ctx()}:suggest_fails_after_failed_slot", d)
        elif exc == "StepBudgetExceeded":
            o.violate("bracket_progress", f"{label}:{top.ctx()}:{api}_exceeds_step_budget", d)
        else:
            o.violate("later_calls_return", f"{label}:{top.ctx()}:raised:{api}:{exc}", d)
    # ------------------------------------------------------------------ counters, signature, sample
    pts_seen = sorted({f[1] for f in top.failures})
    for pt in pts_seen:
        o.count(f"cell:{label}:{pt}")
    o.count("kind:" + label)
    if p.get("allow_duplicates"):
        o.count("scenarios_allow_duplicates_finite_space")
    nfail = len(top.failures)
    if nfail >= 2:
        o.count("scenarios_with_2+_failures")
    if nfail >= 3:
        o.count("scenarios_with_3_failures")
    if nfail == 0:
        o.count("scenarios_without_delivered_failure")
    o.count("targets_not_reached", len(vt.targets))
    for k, v in ad.sub.counters.items():
        if not k.startswith("violations_raised"):
            o.count("ref:" + k, v)
    for r in ad.sub.inconc:
        o.inconclusive(r)
    for ev in vt.events[-60:]:
        o.ev(*ev)
    o.set_sig((label, p["kind"], top.failures, "".join(top.after)[:80]), nontrivial=nfail > 0 and len(top.after) > 0)
    o.sample = {"kind": label, "scheduler": p["kind"], "params": {k: v for k, v in p.items() if k not in ("space", "gp_options")},
                "failures": [list(f) for f in top.failures], "events": len(vt.events),
                "first_events": [list(e) for e in vt.events[:14]], "after_failure": "".join(top.after)[:60]}
    return o.result()
