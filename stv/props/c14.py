"""C14 — multi-fidelity surrogate data: each observation once, only live pending entries.

The real HyperbandScheduler (type stopping / promotion / dyhpo) with a GP searcher (bayesopt, hypertune,
dyhpo) and SynchronousHyperbandScheduler (bayesopt) are driven by the virtual tuner under generated
interleavings of suggestions, reports, pauses, resumes (with and without checkpointing), early
completions and failures. After EVERY tuner event — i.e. after ``suggest`` (+ ``on_trial_add``), after
``on_trial_result`` (+ ``on_trial_remove`` when the decision was STOP / PAUSE), after
``on_trial_complete`` and after ``on_trial_error`` have returned — the public
``searcher.state_transformer.state`` (for DyHPO: of the wrapped multi-fidelity searcher) is read and
compared with what the harness itself knows: which trial reported which level with which value, and
which trials are running right now.

The reference is a plain book-keeping model written from the documentation of ``searcher_data`` and of
the "Pending evaluations" section of ``HyperbandScheduler``; it never looks at scheduler internals.
Reading the state never triggers model fitting (``state`` is a plain property).

The property is about the data the surrogate is FITTED TO, which is not necessarily the searcher's state: the state
transformer may pass it through a state converter (down-sampling to ``max_size_data_for_model``) and caches predictors.
Therefore (a) every predictor the searcher itself obtains from the public ``state_transformer.fit`` during ``suggest`` is
intercepted (instance-level read-only wrap) and (b) in about half of the schedules the model is additionally recomputed
after every event with the public ``state_transformer.fit(skip_optimization=True)``; in both cases ``predictor.state`` — the
data set the model was computed for — is compared with the same reference: equal to it while the number of cases is within
``max_size_data_for_model`` (or no limit applies), otherwise a subset of it of at most that size which keeps data at the
highest level (the documented down-sampling); its pending entries equal the live ones. Schedules run with the default limit
(500; none for searcher_data="all") and with small limits; with "rungs_and_last" consecutive reports replace the last
observation without changing the number of cases, and the model is recomputed between them.
"""
import random

from stv import envshim  # noqa: F401
from stv import gen
from stv.obs import Obs
from stv.vtuner import Port, VTuner

ID = "C14"
LEVEL = "exploration"
RULE = (
    "case = scheduler (HyperbandScheduler type stopping / promotion with searcher bayesopt / hypertune, type dyhpo with "
    "searcher dyhpo; SynchronousHyperbandScheduler with bayesopt) x searcher_data (rungs, all, rungs_and_last) x "
    "register_pending_myopic x checkpointing on/off x max_resource_attr on/off x 1-3 brackets (shared / per-bracket rung "
    "systems) x mode min/max (map_reward default / minus_x / c_minus_x) x rung system (geometric, linear, explicit list; "
    "max_t 4-30) x metric table (continuous, crossing, ties, constant; a restarted run reports slightly different values) x "
    "1-6 workers x arrival policy (uniform, round-robin, starve, burst, eager) x failure plan x early-completing scripts x "
    "num_init_random (large: random suggestions; small: GP fitted incl. fantasising of pending entries) x "
    "max_size_data_for_model (default / explicit None / 3-25: down-sampling active) x model recomputed after every event or "
    "only when the searcher does x repeated reports of a level (0-15 %) x searcher saved / restored into a second scheduler in "
    "mid-history (stopping / promotion with bayesopt). "
    "Distinct = digest of the sequence of (event kind, #observations, #pending entries) after every event; non-trivial = "
    "at least one event with both observations and pending entries present and at least one trial that left the running set."
)
ASSUMPTIONS = [
    "trials report every resource level 1,2,... consecutively; a resumed trial continues after the level it was paused at "
    "(checkpointing) or restarts at level 1 (no checkpointing), in which case its re-reported values differ slightly from the "
    "first run's (so that an overwrite of an observation would be visible)",
    "'after the trial pauses / stops / completes / fails' is read as: after on_trial_remove / on_trial_complete / on_trial_error "
    "has returned; between suggest and the first report the new or resumed trial counts as running",
    "'last reported level' of a restarted (no checkpointing) trial is the largest level it reported so far: re-reported levels "
    "change nothing",
    "minimisation map: mode min -> identity; mode max -> c - metric with c from search_options['map_reward'] "
    "('1_minus_x' default, 'minus_x', '<c>_minus_x'), as documented for GPFIFOSearcher; compared up to 4 ulp",
    "policy 'rungs' means: levels in scheduler.rung_levels (documented formula) or max_t, for every bracket; for "
    "SynchronousHyperbandScheduler: the rung levels of the trial's own bracket (the levels at which it is paused)",
    "two clauses go beyond the literal statement and are read from the 'Pending evaluations' section of the HyperbandScheduler "
    "docstring: (pending_lifetime) a pending entry disappears only because its level was reported or its own trial left the "
    "running set; (pending_registered, asynchronous Hyperband only) a running trial below max_t has a pending entry at its next "
    "level (searcher_data != rungs) resp. at a later rung level or max_t (rungs)",
    "two data sets are read: searcher.state_transformer.state (the searcher's full data set) and predictor.state of every "
    "predictor returned by the public state_transformer.fit (what the surrogate is computed for); the harness' own fit calls "
    "use skip_optimization=True, which may spare the searcher a later hyper-parameter refit but never changes the data",
    "max_size_data_for_model in effect is taken from the documented defaults (500 unless searcher_data='all'; an explicit None "
    "in search_options is dropped by check_and_merge_defaults and therefore also means the default); above the limit only "
    "'subset of the reference, at most max_size cases, some case at the highest level kept' is claimed",
    "a script may report the level it has just reported once more with another value (5-15 % of the CONTINUE-answered reports in "
    "3/4 of the asynchronous schedules, every searcher_data): the observation keeps the FIRST value of the run; under "
    "rungs_and_last a repeated non-rung 'last' level stays (with its first value) until the next level is reported (C14-F4, fixed; "
    "consequences there carry the key suffix rungs_and_last_after_repeated_report_of_level); not generated for synchronous Hyperband",
    "in 40 % of the stopping / promotion schedules with searcher bayesopt the first experiment is drained (no new suggestions, "
    "running trials end), the searcher is saved (get_state, pickled), restored (clone_from_state) and handed to a second "
    "HyperbandScheduler(searcher=<clone>) which continues with new trials; ALL observations, before and after, are compared "
    "under the original searcher's minimisation map; the restored searcher may or may not down-sample (clone_from_state does "
    "not pass max_size_data_for_model on)",
    "bounds: <= 6 workers, <= 40 trials, max_t <= 30, <= 140 events per schedule; NaN / infinite metrics are not generated",
]
CASE_TIMEOUT = 240
SHARDS_PER_JOB = 4

TARGET = "target"  # INTERNAL_METRIC_NAME
ASYNC_CELLS = [(t, sd) for t in ("stopping", "promotion", "dyhpo") for sd in ("rungs", "all", "rungs_and_last")]
SYNC_CELLS = [("sync", "rungs"), ("sync", "all")]


def preload():
    import syne_tune.optimizer.schedulers  # noqa: F401
    import syne_tune.optimizer.schedulers.searchers  # noqa: F401
    import syne_tune.optimizer.schedulers.synchronous  # noqa: F401
    import syne_tune.optimizer.schedulers.searchers.dyhpo  # noqa: F401
    import syne_tune.optimizer.schedulers.searchers.hypertune  # noqa: F401


def cases(tier, seed):
    n = 250 if tier == "quick" else 6000
    out = []
    # stratified over the type x policy cells: 9 asynchronous cells get 26/27 of every 29 cases, the 2 synchronous ones 2
    pattern = ASYNC_CELLS * 3 + SYNC_CELLS
    for i in range(n):
        t, sd = pattern[i % len(pattern)]
        out.append({"seed": seed * 1000003 + i * 31 + 7, "type": t, "searcher_data": sd})
    return out


def floors(tier):
    k = 1 if tier == "quick" else 20
    f = {f"cmp:{t}:{sd}": 1000 * k for t, sd in ASYNC_CELLS}
    f.update({f"cmp:{t}:{sd}": 250 * k for t, sd in SYNC_CELLS})
    f.update({
        "resume_without_checkpointing": 200 * k,
        "failures": 200 * k,
        "completions_before_max_t": 100 * k,
        "schedules_with_gp_fit": 50 * k,
        "decided:observations_of_trial": 50000 * k,
        "decided:observation_value": 20000 * k,
        "decided:pending_entry": 10000 * k,
        "decided:no_pending_after_end": 2000 * k,
        "decided:rereport_changes_nothing": 300 * k,
        "decided:pending_registered": 10000 * k,
        "pending_fantasised_in_fit": 20 * k,
        "decided:repeated_report_changes_nothing": 200 * k,
        "decided:repeated_report_changes_nothing:stopping:rungs": 20 * k,
        "decided:repeated_report_changes_nothing:stopping:all": 20 * k,
        "decided:repeated_report_changes_nothing:promotion:rungs": 20 * k,
        "decided:repeated_report_changes_nothing:promotion:all": 20 * k,
        "decided:repeated_report_changes_nothing:stopping:rungs_and_last": 20 * k,
        "decided:repeated_report_changes_nothing:promotion:rungs_and_last": 20 * k,
        "decided:repeated_report_keeps_last_observation:rungs_and_last": 40 * k,
        "decided:next_level_after_repeated_last_level:rungs_and_last": 30 * k,
        "decided:repeated_report_at_rung_level:rungs_and_last": 15 * k,
        "repeated_report_of_selected_level": 100 * k,
        "searcher_restores": 15 * k,
        "searcher_restores:mode_max": 5 * k,
        "searcher_restores:mode_min": 5 * k,
        "decided:comparisons_after_searcher_restore:mode_max": 150 * k,
        "decided:comparisons_after_searcher_restore:mode_min": 150 * k,
        "decided:model_data_equals_reference:rungs": 1500 * k,
        "decided:model_data_equals_reference:all": 1000 * k,
        "decided:model_data_equals_reference:rungs_and_last": 1500 * k,
        "decided:model_data_subset_of_reference:rungs": 150 * k,
        "decided:model_data_subset_of_reference:all": 300 * k,
        "decided:model_data_subset_of_reference:rungs_and_last": 150 * k,
        "decided:model_data_after_count_preserving_update": 400 * k,
        "decided:model_data_after_count_preserving_update:state_converter_active": 400 * k,
        "decided:model_pending_equals_state": 5000 * k,
        "model_data_checked:searcher_fit": 500 * k,
        "model_data_checked:probe": 4000 * k,
        "model_data_checked:no_state_converter": 500 * k,
        "searcher:bayesopt": 60 * k,
        "searcher:hypertune": 30 * k,
        "searcher:dyhpo": 40 * k,
        "brackets>1": 40 * k,
        "myopic": 40 * k,
        "mode_max": 60 * k,
    })
    return f


# ------------------------------------------------------------------------------------------ spec
def expand(spec):
    """All generator parameters derive from the seed; explicit keys in the spec override (reproducers)."""
    rng = random.Random(spec["seed"])
    typ = spec.get("type") or rng.choice(["stopping", "promotion", "dyhpo", "sync"])
    p = {"type": typ, "mode": rng.choice(["min", "max"])}
    p["searcher_data"] = spec.get("searcher_data") or rng.choice(["rungs", "all"] + ([] if typ == "sync" else ["rungs_and_last"]))
    model_path = rng.random() < 0.5
    p["model_path"] = model_path
    if typ == "sync":
        R = rng.randint(1, 4)
        levels = sorted(rng.sample(range(1, 14 if model_path else 20), R))
        sizes = sorted(rng.sample(range(1, 9), R), reverse=True)
        systems = [[[s, l] for s, l in zip(sizes, levels)]]
        for off in range(1, rng.randint(1, R)):
            lv = levels[off:]
            sz = sorted(rng.sample(range(1, 9), len(lv)), reverse=True)
            systems.append([[s, l] for s, l in zip(sz, lv)])
        p["bracket_rungs"] = systems
        p["max_t"] = levels[-1]
        p["searcher"] = "bayesopt"
        p["brackets"] = len(systems)
    else:
        style = rng.choice(["rf", "rf", "inc", "list"]) if typ != "dyhpo" else rng.choice(["dy", "dy", "dy", "inc"])
        cap = 12 if model_path else 30
        if style == "rf":
            p["grace_period"] = rng.randint(1, 3)
            p["reduction_factor"] = rng.choice([2, 3, 4, 2.5])
            p["max_t"] = rng.choice([4, 8, 9, 12] if model_path else [4, 8, 9, 16, 27, 30])
            if p["max_t"] <= p["grace_period"]:
                p["max_t"] = p["grace_period"] + rng.randint(1, 6)
        elif style == "inc":
            p["grace_period"] = rng.randint(1, 4)
            p["rung_increment"] = rng.randint(1, 5)
            p["max_t"] = p["grace_period"] + rng.randint(1, cap - 5)
        elif style == "dy":
            # DyHPO's recommended setup: linearly spaced rung levels with grace_period == rung_increment
            p["grace_period"] = rng.randint(1, 3)
            p["rung_increment"] = p["grace_period"]
            p["max_t"] = p["grace_period"] * rng.randint(2, 6) + rng.randint(0, 1)
        else:
            max_t = rng.randint(4, cap)
            k = rng.randint(2, min(5, max_t))
            p["rung_levels"] = sorted(rng.sample(range(1, max_t + 1), k))
            p["max_t"] = max_t
        if typ == "dyhpo":
            p["searcher"] = "dyhpo"
            p["brackets"] = 1
            p["rung_system_per_bracket"] = False
            p["probability_sh"] = rng.choice([None, 0.0, 0.5, 0.9])
        else:
            p["searcher"] = rng.choice(["bayesopt", "bayesopt", "bayesopt", "hypertune", "hypertune"])
            p["brackets"] = rng.choice([1, 1, 2, 3])
            p["rung_system_per_bracket"] = rng.random() < 0.5
        p["register_pending_myopic"] = rng.random() < 0.5
        # Hyper-Tune's default model (independent GPs, one per rung level) can only represent data and pending entries at rung
        # levels; with other data policies the joint model is selected whenever the model is going to be used
        p["gp_model"] = "gp_multitask" if (p["searcher"] == "hypertune" and p["searcher_data"] != "rungs" and model_path) else None
    p["curves"] = rng.choice(["continuous", "continuous", "crossing"] if model_path else ["continuous", "continuous", "crossing", "ties", "const"])
    p["n_workers"] = rng.randint(1, 6)
    p["policy"] = rng.choice(["uniform", "round_robin", "starve", "burst", "eager", "eager"])
    p["max_trials"] = rng.randint(4, 40)
    p["max_events"] = rng.randint(50, 140)
    p["use_mra"] = rng.random() < 0.5
    p["checkpointing"] = rng.random() < 0.5
    p["map_reward"] = rng.choice([None, None, "minus_x", "2.5_minus_x"]) if p["mode"] == "max" else None
    p["num_init_random"] = rng.randint(2, 6) if model_path else 100
    p["opt_maxiter"] = rng.randint(3, 5)
    p["space"] = gen.small_space(rng, with_const=False, ensure_infinite=True, ordinal_kinds=("equal",))
    # failure plan and early-completing scripts
    fr = rng.choice([0.0, 0.1, 0.25, 0.5])
    fail = {}
    for tid in range(48):
        if rng.random() < fr:
            fail[str(tid)] = [rng.choice([0, 0, 0, 1]), rng.randint(0, 5)]
    p["fail"] = fail
    # (not for synchronous Hyperband: it has no notion of a trial that ends before its milestone — its slot would stay
    # pending for ever, which is C05 / C13 territory)
    sr = rng.choice([0.0, 0.0, 0.2, 0.5]) if typ != "sync" else 0.0
    script = {}
    for tid in range(48):
        if rng.random() < sr and p["max_t"] > 1:
            script[str(tid)] = rng.randint(1, p["max_t"] - 1)
    p["script_len"] = script
    p["rerun_noise"] = 0.003
    # what the surrogate is really fitted to: with the documented default of max_size_data_for_model (500 unless
    # searcher_data == "all"), without a limit, and with a small limit (down-sampling active); in about half of the schedules
    # the model is recomputed (public state_transformer.fit(skip_optimization=True)) after every event
    ms = rng.choice(["default", "default", "default", "none", "small", "small"])
    p["max_size"] = rng.randint(3, 25) if ms == "small" else ms
    if ms == "small":
        # Down-sampling to a handful of cases can remove all data of a resource level, which the acquisition step of the
        # searchers does not survive (suggest raises: no candidates at the target resource / no GP for a rung level) — that is
        # not what C14 is about. Schedules with a small limit therefore keep suggestions random; the model is computed (and
        # its data inspected) by the harness' own fit calls only.
        p["num_init_random"] = 100
    p["probe_model"] = rng.random() < 0.5 or ms == "small"
    if p["probe_model"] and p["searcher"] == "hypertune" and p["searcher_data"] != "rungs":
        p["gp_model"] = "gp_multitask"  # see above: the independent-GPs model cannot fantasise pending entries off rung levels
    # repeated reports: a script may report the SAME level twice in a row with a different value (quick estimate, then the
    # full validation score). All data policies (rungs_and_last: C14-F4, fixed in 71733e4 — consequences there keep the key
    # suffix rungs_and_last_after_repeated_report_of_level); not for the synchronous scheduler.
    dr = rng.choice([0.0, 0.05, 0.1, 0.15])
    p["dup_rate"] = 0.0 if typ == "sync" else dr
    # save / restore of the searcher in the middle of the history: get_state -> (pickle) -> clone_from_state -> second
    # HyperbandScheduler(searcher=<clone>) which keeps feeding it results (GPMultiFidelitySearcher only: the other searchers do
    # not provide a clone of their own class)
    ra = rng.random() < 0.4
    rk = rng.randint(12, max(13, int(p["max_events"] * 0.6)))
    p["restore_at"] = rk if (ra and typ in ("stopping", "promotion") and p["searcher"] == "bayesopt") else None
    p.update({k: v for k, v in spec.items() if k != "seed" and not k.startswith("_")})
    return p


def min_map(p):
    """The documented minimisation map of the GP searchers."""
    if p["mode"] == "min":
        return lambda x: x
    name = p.get("map_reward") or "1_minus_x"
    const = 0.0 if name == "minus_x" else float(name[: len(name) - len("_minus_x")])
    return lambda x: const - x


def effective_max_size(p):
    """max_size_data_for_model in effect, from the documented defaults: 500 for the multi-fidelity GP searchers unless
    searcher_data == 'all' (the synchronous scheduler does not pass searcher_data to the searcher: always 500); None = no
    down-sampling (no state converter). An explicit None in search_options is dropped by check_and_merge_defaults (options
    with value None are treated as not given), so it selects the default as well."""
    ms = p.get("max_size", "default")
    if ms in ("default", "none", None):
        return None if (p["type"] != "sync" and p["searcher_data"] == "all") else 500
    return int(ms)


def close(a, b):
    if a == b:
        return True
    try:
        return abs(a - b) <= 4 * 2.220446049250313e-16 * max(abs(a), abs(b), 1e-300)
    except TypeError:
        return False


# ------------------------------------------------------------------------------------------ tuner
class ScriptVTuner(VTuner):
    """Virtual tuner whose training scripts may end before max_t (per-trial script length): such a trial
    completes (on_trial_complete) after its last report was answered CONTINUE."""

    def __init__(self, *a, script_len=None, dup_rate=0.0, dup_seed=0, **k):
        super().__init__(*a, **k)
        self.script_len = {int(t): int(v) for t, v in (script_len or {}).items()}
        self.dup_rate = dup_rate
        self.dup_rng = random.Random(dup_seed)
        self.dup_levels = set(tuple(x) for x in (self.p.get("dup_at") or []))  # explicit (trial, level) pairs (reproducers)
        self.last_was_dup = False

    def do_advance(self, tid):
        self.last_was_dup = False
        n = len(self.events)
        super().do_advance(tid)
        ev = self.events[-1] if len(self.events) > n else None
        if ev is None or ev[0] != "result" or ev[4] != "CONTINUE":
            return
        t = self.trials[tid]
        if t.status != "running":
            return
        if (tid, ev[3]) in self.dup_levels or (self.dup_rate and self.dup_rng.random() < self.dup_rate):
            self._repeat_report(t, ev[3])

    def _repeat_report(self, t, level):
        """The script reports the level it has just reported once more, with another value."""
        result = self.make_result(t, level)
        result[self.p["metric"]] = result[self.p["metric"]] + 0.0137
        self.last_was_dup = True
        self._notify("pre_result", t, result)
        decision = self.port.on_trial_result(t.trial, dict(result))
        t.last_result = result
        t.reports.append((t.run_no, level, result.get(self.p["metric"]), decision))
        self.events.append(("result", t.trial_id, t.run_no, level, decision, "repeat"))
        if decision in ("STOP", "PAUSE"):
            self.port.on_trial_remove(t.trial)
            t.status = "stopped" if decision == "STOP" else "paused"
            self.running.remove(t.trial_id)
        self._notify("post_result", t, result, decision)
        self.last_was_dup = False

    def do_suggest(self):
        sugg = super().do_suggest()
        ev = self.events[-1] if self.events else None
        if ev is not None and ev[0] == "suggest" and ev[2] in ("start", "resume"):
            t = self.trials.get(ev[3])
            ln = self.script_len.get(ev[3])
            if t is not None and ln is not None and t.status == "running":
                t.run_max = min(t.run_max, ln)
        return sugg


# ------------------------------------------------------------------------------------------ monitor
class Monitor:
    def __init__(self, o, p, get_state, rung_levels, brackets_of):
        self.o, self.p, self.get_state = o, p, get_state
        self.cell = f"{p['type']}:{p['searcher']}:{p['searcher_data']}"
        self.policy = p["searcher_data"]
        self.sync = p["type"] == "sync"
        self.max_t = p["max_t"]
        self.rungset = set(rung_levels) | {p["max_t"]}
        self.rung_levels = list(rung_levels)
        self.brackets_of = brackets_of
        self.fmap = min_map(p)
        self.first = {}       # tid -> {level: raw value at first report}
        self.later = {}       # tid -> {level: [raw values of re-reports]}
        self.repeats = {}     # tid -> {level: [raw values of repeated reports of the level within the same run]}
        self.repeat_pending_next = set()  # rungs_and_last: trials whose non-rung last level was just repeated
        self.restored = False  # the searcher was saved and restored (clone_from_state) earlier in this history
        self.maxlev = {}      # tid -> largest level reported
        self.exp = {}         # tid -> {level: mapped expected value}
        self.sync_rungs = {}  # tid -> levels at which a synchronous trial was paused
        self.prev_pending = set()
        self.dropped = set()  # trials whose pending entries were dropped without reason (presence not checked afterwards)
        self.per_mech = {}    # at most 3 witnesses per mechanism and schedule
        self.reported = set()  # (mechanism, trial, level) already reported: one violation per root cause
        self.sig = []
        self.ended = 0
        self.both = False
        self.n_cmp = 0
        # the data the surrogate model is fitted to (predictor.state)
        self.limit = effective_max_size(p)   # None: no state converter (documented defaults)
        self.probe_fn = None                 # set by run_case: recompute the model with the public fit(skip_optimization=True)
        self.model_prev = None               # (#cases, set of (trial, level)) of the reference at the previous model comparison
        self.n_model_cmp = 0

    # -- book keeping from what the harness itself sent
    def _record_report(self, t, level, value, decision, repeat=False):
        tid = str(t.trial_id)
        f = self.first.setdefault(tid, {})
        if level in f:
            if repeat:
                self.repeats.setdefault(tid, {}).setdefault(level, []).append(value)
                self.o.count("repeated_report_of_level")
                if level in self.exp.get(tid, {}):
                    self.o.count("repeated_report_of_selected_level")
                if self.policy == "rungs_and_last":
                    if level in self.rungset:
                        self.o.count("decided:repeated_report_at_rung_level:rungs_and_last")
                    else:
                        self.o.count("decided:repeated_report_keeps_last_observation:rungs_and_last")
                        self.repeat_pending_next.add(tid)
            else:
                self.later.setdefault(tid, {}).setdefault(level, []).append(value)
                self.o.count("rereported_level")
            return False
        f[level] = value
        if tid in self.repeat_pending_next:
            # the report where the unrepaired library raised: the repeated non-rung 'last' level is replaced by the new level
            self.repeat_pending_next.discard(tid)
            self.o.count("decided:next_level_after_repeated_last_level:rungs_and_last")
        prev_max = self.maxlev.get(tid, 0)
        self.maxlev[tid] = max(prev_max, level)
        e = self.exp.setdefault(tid, {})
        if self.sync:
            if decision == "PAUSE":
                self.sync_rungs.setdefault(tid, set()).add(level)
            sel = self.policy == "all" or decision == "PAUSE"
        else:
            sel = self.policy in ("all", "rungs_and_last") or level in self.rungset
        if self.policy == "rungs_and_last" and prev_max and prev_max not in self.rungset:
            e.pop(prev_max, None)
        if sel:
            e[level] = self.fmap(value)
        return True

    def _violate(self, clause, what, detail, key=None):
        if self.policy == "rungs_and_last" and self.repeats and clause in ("selected_levels_present", "no_other_levels", "value_equals_reported_metric"):
            what += ":rungs_and_last_after_repeated_report_of_level"
        k = (what,) + tuple(key or ())
        if k in self.reported or self.per_mech.get(what, 0) >= 3:
            return
        self.reported.add(k)
        self.per_mech[what] = self.per_mech.get(what, 0) + 1
        self.o.violate(clause, f"{self.cell}:{what}", detail)

    # -- the comparison after one event
    def check(self, vt, kind, tid_ev=None):
        o, p = self.o, self.p
        try:
            st = self.get_state()
            evals = list(st.trials_evaluations)
            pend = [(x.trial_id, x.resource) for x in st.pending_evaluations]
        except Exception as e:  # noqa: BLE001
            o.inconclusive("state_not_readable:" + type(e).__name__)
            return
        self.n_cmp += 1
        o.count(f"cmp:{p['type']}:{self.policy}")
        o.count("events:" + kind)
        status = {str(t): v.status for t, v in vt.trials.items()}
        # ---------------- observations
        actual = {}
        n_obs = 0
        for ev in evals:
            tid = ev.trial_id
            if tid in actual:
                self._violate("each_observation_once", "trial_listed_twice_in_observations", {"trial": tid}, (tid,))
            m = ev.metrics.get(TARGET)
            d = actual.setdefault(tid, {})
            if m is None:
                continue
            if not isinstance(m, dict):
                self._violate("observation_per_level", "observation_without_resource_level", {"trial": tid, "value": m}, (tid,))
                continue
            for k_, v in m.items():
                try:
                    lv = int(k_)
                    canon = str(lv) == k_
                except (TypeError, ValueError):
                    lv, canon = k_, False
                if not canon:
                    self._violate("each_observation_once", "non_canonical_level_key", {"trial": tid, "key": k_}, (tid, str(k_)))
                if lv in d:
                    self._violate("each_observation_once", "duplicate_observation", {"trial": tid, "level": lv, "keys": list(m)}, (tid, lv))
                d[lv] = v
                n_obs += 1
        for tid in set(actual) | set(self.exp):
            a, e = actual.get(tid, {}), self.exp.get(tid, {})
            o.count("decided:observations_of_trial")
            if a == e:
                o.count("decided:observation_value", len(e))
                continue
            self._diagnose_obs(tid, a, e, kind, tid_ev, status.get(tid))
        # ---------------- pending
        seen = set()
        for tid, res in pend:
            o.count("decided:pending_entry")
            if (tid, res) in seen:
                self._violate("pending_once", "duplicate_pending_entry", {"trial": tid, "level": res, "pending": pend[:40]}, (tid, res))
            seen.add((tid, res))
            s = status.get(tid)
            if s is None:
                self._violate("pending_of_running_trial", "pending_of_unknown_trial", {"trial": tid, "level": res}, (tid,))
                continue
            if s != "running":
                self._violate("pending_of_running_trial", f"pending_of_{s}_trial",
                              {"trial": tid, "level": res, "status": s, "after_event": kind, "event_trial": tid_ev,
                               "last_reported_level": self.maxlev.get(tid, 0), "pending": pend[:40]}, (tid,))
                continue
            if not isinstance(res, int) or isinstance(res, bool) or res < 1 or res > self.max_t:
                self._violate("pending_level", "pending_at_invalid_level", {"trial": tid, "level": res, "max_t": self.max_t}, (tid, str(res)))
                continue
            if res in actual.get(tid, {}):
                self._violate("pending_not_observed", "pending_at_observed_level", {"trial": tid, "level": res, "after_event": kind}, (tid, res))
            elif res <= self.maxlev.get(tid, 0):
                self._violate("pending_beyond_last_report", "pending_at_or_below_last_reported_level",
                              {"trial": tid, "level": res, "last_reported_level": self.maxlev.get(tid, 0), "after_event": kind}, (tid, res))
            if self.policy == "rungs" and not self.sync and res not in self.rungset:
                self._violate("pending_level", "pending_at_non_rung_level", {"trial": tid, "level": res, "rung_levels": self.rung_levels}, (tid, res))
        if kind in ("result_end", "complete", "error"):
            o.count("decided:no_pending_after_end")
        # ---------------- pending life time: an entry disappears only when observed / reported or when its trial ended
        for tid, res in self.prev_pending - seen:
            if status.get(tid) != "running":
                continue
            if res in self.first.get(tid, {}) or res in actual.get(tid, {}):
                continue
            self.dropped.add(tid)
            own = tid_ev is not None and str(tid_ev) == tid
            how = {"error": "failure", "complete": "completion"}.get(kind, kind)
            what = (f"pending_dropped_without_observation:after_{how}" if own
                    else f"pending_of_other_trial_dropped_on_{how}")
            self._violate("pending_lifetime", what,
                          {"trial": tid, "level": res, "after_event": kind, "event_trial": tid_ev, "pending_now": pend[:40]}, (kind, str(tid_ev)))
        self.prev_pending = seen
        # ---------------- a running trial has its next pending entry (docstring 'Pending evaluations'; asynchronous only)
        if not self.sync:
            for tid, s in status.items():
                if s != "running" or tid in self.dropped:
                    continue
                m = self.maxlev.get(tid, 0)
                if m >= self.max_t:
                    continue
                o.count("decided:pending_registered")
                if self.policy == "rungs":
                    ok = any(t_ == tid and r_ in self.rungset and r_ > m for t_, r_ in seen if isinstance(r_, int))
                    what = "no_pending_entry_at_later_rung_level_for_running_trial"
                else:
                    ok = (tid, m + 1) in seen
                    what = "no_pending_entry_at_next_level_for_running_trial"
                if not ok:
                    self._violate("pending_registered", what,
                                  {"trial": tid, "last_reported_level": m, "after_event": kind, "event_trial": tid_ev,
                                   "pending_of_trial": sorted(r_ for t_, r_ in seen if t_ == tid)}, (tid,))
        if n_obs and seen:
            self.both = True
        self.sig.append((kind, n_obs, len(seen)))
        # ---------------- recompute the model and look at the data it is fitted to
        if self.probe_fn is not None and n_obs >= 1 and kind != "initial":
            try:
                predictor = self.probe_fn()
            except Exception as e:  # noqa: BLE001 - the harness' own extra call: never a verdict
                o.inconclusive("model_probe_raised:" + type(e).__name__)
                return
            o.count("model_probe_calls")
            self.check_model(predictor, "probe_after_" + kind)

    @staticmethod
    def _obs_of(evals):
        out = {}
        for ev in evals:
            m = ev.metrics.get(TARGET)
            if isinstance(m, dict) and m:
                d = out.setdefault(ev.trial_id, {})
                for k_, v in m.items():
                    try:
                        d[int(k_)] = v
                    except (TypeError, ValueError):
                        d[k_] = v
        return out

    def check_model(self, predictor, origin):
        """Compare predictor.state — the data set the surrogate model was computed for — with the reference. Trials whose
        entry in the searcher's own state already deviates from the reference are judged by check() and skipped here."""
        o = self.o
        pstate = getattr(predictor, "state", None)
        if pstate is None or not hasattr(pstate, "trials_evaluations"):
            o.inconclusive("predictor_state_not_available")
            return
        try:
            st = self.get_state()
            actual = self._obs_of(st.trials_evaluations)
            model = self._obs_of(pstate.trials_evaluations)
            pend_state = sorted((x.trial_id, x.resource) for x in st.pending_evaluations)
            pend_model = sorted((x.trial_id, x.resource) for x in pstate.pending_evaluations)
        except Exception as e:  # noqa: BLE001
            o.inconclusive("model_state_not_readable:" + type(e).__name__)
            return
        self.n_model_cmp += 1
        ref = {t: e for t, e in self.exp.items() if e}
        deviating = {t for t in set(actual) | set(ref) if actual.get(t, {}) != ref.get(t, {})}
        n_state = sum(len(v) for v in actual.values())
        n_model = sum(len(v) for v in model.values())
        conv = "state_converter_active" if self.limit is not None else "no_state_converter"
        keys = frozenset((t, lv) for t, e in ref.items() for lv in e)
        cpu = self.model_prev is not None and self.model_prev[0] == len(keys) and self.model_prev[1] != keys
        self.model_prev = (len(keys), keys)
        base = {"origin": origin, "max_size_data_for_model": self.limit, "cases_in_searcher_state": n_state, "cases_in_model_data": n_model,
                "reference_changed_without_changing_its_size_since_last_model": cpu}
        subsampled = self.limit is not None and n_state > self.limit
        if subsampled and self.restored and n_model == n_state:
            # clone_from_state does not hand the state converter (max_size_data_for_model) to the restored searcher, which then
            # fits to the full data set: not a statement about the data being wrong -> judged as 'no down-sampling' (and counted)
            subsampled = False
            o.count("restored_searcher_without_down_sampling")

        def judge(t, lv, v):
            """one case of the model data against the reference"""
            e = ref.get(t, {})
            if lv in e:
                if close(v, e[lv]):
                    return None
                return "model_data_value_differs_from_reported_metric"
            if lv in self.first.get(t, {}):
                return "model_data_contains_removed_observation" if self.policy == "rungs_and_last" else "model_data_contains_unselected_observation"
            return "model_data_contains_unreported_observation"

        bad = False
        for t in sorted(set(model) | set(ref)):
            if t in deviating:
                o.count("model_data_trial_skipped:searcher_state_deviates")
                continue
            m, e = model.get(t, {}), ref.get(t, {})
            if m == e:
                continue
            for lv in sorted(m, key=str):
                what = judge(t, lv, m[lv])
                if what is not None:
                    bad = True
                    self._violate("model_data_is_reported_data", f"{what}:{conv}",
                                  dict(base, trial=t, level=lv, value=m[lv], model_levels=sorted(m, key=str), reference_levels=sorted(e),
                                       reported_levels=sorted(self.first.get(t, {}))), (t, lv))
            if not subsampled:
                for lv in sorted(set(e) - set(m)):
                    bad = True
                    self._violate("model_data_is_reported_data", f"model_data_lacks_observation:{conv}",
                                  dict(base, trial=t, level=lv, model_levels=sorted(m, key=str), reference_levels=sorted(e)), (t, lv))
        if subsampled:
            # documented down-sampling: at most max_size cases, a subset of the data, data at the highest level is kept
            if n_model > self.limit:
                bad = True
                self._violate("model_data_down_sampling", "model_data_exceeds_max_size_data_for_model", base, ())
            top = max((lv for e in actual.values() for lv in e if isinstance(lv, int)), default=None)
            if top is not None and not any(top in m for m in model.values()):
                bad = True
                self._violate("model_data_down_sampling", "model_data_without_any_case_at_highest_level", dict(base, highest_level=top), ())
            if n_model < self.limit:
                o.count("model_data_smaller_than_limit")
            o.count(f"decided:model_data_subset_of_reference:{self.policy}")
        else:
            o.count(f"decided:model_data_equals_reference:{self.policy}")
        if pend_state != pend_model:
            bad = True
            self._violate("model_pending_is_live_pending", f"model_pending_differs_from_searcher_state:{conv}",
                          dict(base, pending_state=pend_state[:30], pending_model=pend_model[:30]), ())
        o.count("decided:model_pending_equals_state")
        if cpu:
            o.count("decided:model_data_after_count_preserving_update")
            o.count(f"decided:model_data_after_count_preserving_update:{conv}")
        o.count("model_data_checked:" + ("probe" if origin.startswith("probe") else "searcher_fit"))
        o.count("model_data_checked:" + conv)
        return not bad

    def _diagnose_obs(self, tid, a, e, kind, tid_ev, status):
        p = self.p
        first = self.first.get(tid, {})
        base = {"trial": tid, "after_event": kind, "event_trial": tid_ev, "status": status, "reported_levels": sorted(first),
                "observed_levels": sorted(a, key=str), "expected_levels": sorted(e), "rung_levels": self.rung_levels, "max_t": self.max_t}
        for lv in sorted(set(e) - set(a)):
            if self.policy == "rungs_and_last" and lv == self.maxlev.get(tid) and lv not in self.rungset:
                what = "observation_missing_at_last_level"
            elif lv in self.rungset or self.sync:
                what = "observation_missing_at_rung_level"
                b = self.brackets_of.get(tid)
                if not self.sync and b is not None and lv in self.rung_levels and self.rung_levels.index(lv) < b:
                    what = "observation_missing_at_rung_level_below_first_milestone_of_bracket"
            else:
                what = "observation_missing"
            self._violate("selected_levels_present", what, dict(base, level=lv, bracket=self.brackets_of.get(tid)), (tid, lv))
        for lv in sorted(set(a) - set(e), key=str):
            if lv not in first:
                what = "observation_at_unreported_level"
            elif self.policy == "rungs_and_last":
                what = "stale_last_observation_not_removed"
            else:
                what = "observation_at_unselected_level"
            if kind == "complete" and str(tid_ev) == tid:
                what += ":added_on_completion"
                if not e:
                    # C14-F3 needs an earlier searcher update of the trial (largest_update_resource is set at its
                    # first selected level): a final observation of a trial with no selected level is not that finding
                    what += ":trial_has_no_selected_level"
            if ("extra", tid, lv) in self.reported:
                continue
            self.reported.add(("extra", tid, lv))
            self._violate("no_other_levels", what, dict(base, level=lv), (tid, lv))
        for lv in sorted(set(a) & set(e)):
            self.o.count("decided:observation_value")
            if close(a[lv], e[lv]):
                if a[lv] != e[lv]:
                    self.o.count("roundoff_band")
                continue
            raw = first.get(lv)
            later = self.later.get(tid, {}).get(lv, [])
            reps = self.repeats.get(tid, {}).get(lv, [])
            if any(close(a[lv], self.fmap(x)) for x in reps):
                what = "observation_overwritten_by_repeated_report_of_level"
            elif any(close(a[lv], self.fmap(x)) for x in later):
                what = "observation_overwritten_by_rereported_level"
            elif p["mode"] == "max" and close(a[lv], raw):
                what = "metric_not_mapped_to_minimisation:mode_max"
            elif any(close(a[lv], self.fmap(x)) for x in first.values()):
                what = "observation_value_of_other_level"
            else:
                what = "observation_value_differs_from_reported_metric"
            if self.restored and not what.startswith("observation_overwritten"):
                what += ":after_searcher_restore"
            self._violate("value_equals_reported_metric", what,
                          dict(base, level=lv, observed=a[lv], expected=e[lv], reported_raw=raw, rereported_raw=later[:5]), (tid, lv))

    # -- vtuner hooks
    def post_suggest(self, vt, next_id, sugg, t):
        o = self.o
        if sugg is None:
            o.count("suggest_none")
            self.check(vt, "suggest_none")
            return
        if t is None:
            return  # resume of a non-paused trial: vtuner stops the run (reported via vt.raised)
        if sugg.spawn_new_trial_id:
            self.check(vt, "start", t.trial_id)
        else:
            o.count("resumes")
            if not self.p["checkpointing"]:
                o.count("resume_without_checkpointing")
            self.check(vt, "resume", t.trial_id)

    def post_result(self, vt, t, result, decision):
        level = result["epoch"]
        repeat = bool(getattr(vt, "last_was_dup", False))
        new = self._record_report(t, level, result["loss"], decision, repeat)
        if repeat:
            self.o.count("decided:repeated_report_changes_nothing")
            self.o.count(f"decided:repeated_report_changes_nothing:{self.p['type']}:{self.policy}")
        elif not new:
            self.o.count("decided:rereport_changes_nothing")
        if decision in ("STOP", "PAUSE"):
            self.ended += 1
            self.o.count("decision:" + decision)
            self.check(vt, "result_end", t.trial_id)
        else:
            self.check(vt, "result" if new else ("repeat" if repeat else "rereport"), t.trial_id)

    def post_complete(self, vt, t):
        self.ended += 1
        if t.last_level < self.max_t:
            self.o.count("completions_before_max_t")
        self.check(vt, "complete", t.trial_id)

    def post_error(self, vt, t):
        self.ended += 1
        self.o.count("failures")
        self.check(vt, "error", t.trial_id)


# ------------------------------------------------------------------------------------------ build + run
def build(p, space, seed, **over):
    so = {"opt_maxiter": p["opt_maxiter"], "opt_nstarts": 1, "num_init_random": p["num_init_random"],
          "num_init_candidates": 30, "debug_log": False}
    if p.get("map_reward"):
        so["map_reward"] = p["map_reward"]
    if p.get("gp_model"):
        so["model"] = p["gp_model"]
    if p.get("max_size", "default") != "default":
        so["max_size_data_for_model"] = None if p["max_size"] == "none" else int(p["max_size"])
    if p["type"] == "sync":
        from syne_tune.optimizer.schedulers import synchronous as sy

        kw = dict(metric="loss", mode=p["mode"], resource_attr="epoch", random_seed=seed, searcher="bayesopt",
                  search_options=so, searcher_data=p["searcher_data"])
        if p["use_mra"]:
            space = dict(space, epochs=p["max_t"])
            kw["max_resource_attr"] = "epochs"
        else:
            kw["max_resource_level"] = p["max_t"]
        return sy.SynchronousHyperbandScheduler(space, bracket_rungs=[[tuple(x) for x in b] for b in p["bracket_rungs"]], **kw)
    bp = dict(p)
    bp["search_options"] = so
    if p["use_mra"]:
        space = dict(space, epochs=p["max_t"])
        bp["max_resource_attr"] = "epochs"
    if p["type"] == "dyhpo" and p.get("probability_sh") is not None:
        bp["rung_system_kwargs"] = {"probability_sh": p["probability_sh"]}
    return gen.build_hyperband(space, bp, seed=seed, **over)


def run_case(spec):
    o = Obs()
    p = expand(spec)
    space = gen.build_space(p["space"])
    cell = f"{p['type']}:{p['searcher']}:{p['searcher_data']}"
    try:
        sched = build(p, space, spec["seed"] % (2**31))
    except Exception as e:  # noqa: BLE001
        o.violate("construction", f"{cell}:constructor_raised:{type(e).__name__}",
                  {"args": {k: p.get(k) for k in ("type", "searcher", "grace_period", "reduction_factor", "rung_increment", "rung_levels", "max_t", "brackets", "bracket_rungs")}, "error": repr(e)[:300]})
        return o.result()
    o.count("searcher:" + p["searcher"])
    if p["type"] == "sync":
        ref_levels = sorted({l for b in p["bracket_rungs"] for _, l in b})
    else:
        ref_levels = gen.ref_rung_levels(p)
        if list(sched.rung_levels) != ref_levels:
            o.inconclusive("rung_levels_differ_from_documented_formula")  # C03 / C04 decide this
            ref_levels = list(sched.rung_levels)
    brackets_of = {}
    fits = [0, 0]
    cur = {}  # the searcher (wrapped multi-fidelity searcher for DyHPO) currently in use
    mon_holder = {}

    def attach(scheduler):
        """read-only instance-level wraps of public methods of the scheduler / searcher in use: bracket of a trial; every
        predictor the searcher obtains"""
        searcher = scheduler.searcher
        inner = getattr(searcher, "_searcher_int", None) if p["searcher"] == "dyhpo" else searcher
        if inner is None or getattr(inner, "state_transformer", None) is None:
            return False
        cur["inner"] = inner
        if p["type"] != "sync":
            term = scheduler.terminator
            orig_add = term.on_task_add

            def on_task_add(trial_id, **kwargs):
                if kwargs.get("new_config", True):
                    brackets_of[str(trial_id)] = kwargs.get("bracket")
                return orig_add(trial_id, **kwargs)

            term.on_task_add = on_task_add
        stf = inner.state_transformer
        orig_fit = stf.fit
        cur["orig_fit"] = orig_fit

        def fit(**kwargs):
            fits[0] += 1
            try:
                if stf.state.pending_evaluations and stf.state.trials_evaluations:
                    fits[1] += 1
            except Exception:  # noqa: BLE001
                pass
            predictor = orig_fit(**kwargs)
            # the predictor the searcher itself just asked for: what is its model fitted to?
            m_ = mon_holder.get("mon")
            if m_ is not None:
                m_.check_model(predictor, "searcher_fit")
            return predictor

        stf.fit = fit
        return True

    if not attach(sched):
        o.inconclusive("state_transformer_not_available")
        return o.result()

    def get_state():
        return cur["inner"].state_transformer.state

    curves = gen.Curves(p["curves"], spec["seed"] + 1, p["max_t"])
    holder = {}
    noise = p.get("rerun_noise", 0.0)

    def value_fn(trial_id, level, config):
        t = holder["vt"].trials.get(trial_id)
        return curves(trial_id, level) + noise * (t.run_no if t is not None else 0)

    mon = Monitor(o, p, get_state, ref_levels, brackets_of)
    mon_holder["mon"] = mon
    if p.get("probe_model"):
        mon.probe_fn = lambda: cur["orig_fit"](skip_optimization=True)
        o.count("schedules_with_model_probe")
    restore_at = p.get("restore_at") if not p.get("order") or p.get("restore_at_explicit") else None
    vp = {
        "n_workers": p["n_workers"], "max_t": p["max_t"], "metric": "loss", "resource_attr": "epoch",
        "policy": p["policy"], "seed": spec["seed"] + 2, "max_trials": p["max_trials"],
        "max_events": p["max_events"] if not restore_at else min(restore_at, p["max_events"]), "order": p.get("order"), "fail": p.get("fail"),
        "max_resource_attr": "epochs" if p["use_mra"] else None, "checkpointing": p["checkpointing"], "dup_at": p.get("dup_at"),
    }
    vt = ScriptVTuner(Port(sched), vp, value_fn, monitors=[mon], script_len=p.get("script_len"),
                      dup_rate=p.get("dup_rate", 0.0), dup_seed=spec["seed"] + 77)
    holder["vt"] = vt
    mon.check(vt, "initial")
    vt.run()
    all_events = vt.events
    if restore_at and not vt.raised:
        # ---- the experiment ends: no new suggestions, running trials run until they stop / pause / complete / fail
        vt.p["max_suggest"] = vt.num_suggest_calls
        vt.order = None
        guard = 0
        while vt.running and guard < 600 and vt.step():
            guard += 1
        if vt.running or vt.raised:
            if not vt.raised:
                o.inconclusive("first_experiment_did_not_drain")
        else:
            # ---- save, restore, second scheduler around the restored searcher
            import pickle

            old = sched.searcher
            try:
                state = old.get_state()
                try:
                    state = pickle.loads(pickle.dumps(state))
                    o.count("restore_state_pickled")
                except Exception:  # noqa: BLE001
                    o.count("restore_state_not_picklable")
                clone = old.clone_from_state(state)
                sched2 = build(p, space, (spec["seed"] + 1) % (2**31), searcher=clone)
            except Exception as e:  # noqa: BLE001
                o.violate("no_raise", f"{cell}:raised:searcher_restore:{type(e).__name__}", {"error": repr(e)[:400]})
                sched2 = None
            if sched2 is not None and attach(sched2):
                mon.restored = True
                o.count("searcher_restores")
                o.count("searcher_restores:mode_" + p["mode"])
                vp2 = dict(vp, seed=spec["seed"] + 3, max_events=max(10, p["max_events"] - vt.n_events), order=None)
                vt2 = ScriptVTuner(Port(sched2), vp2, value_fn, monitors=[mon], script_len=p.get("script_len"),
                                   dup_rate=p.get("dup_rate", 0.0), dup_seed=spec["seed"] + 78)
                for tid_, t_ in vt.trials.items():
                    if t_.status == "paused":
                        t_.status = "stopped"  # abandoned with the first experiment: the second scheduler does not know them
                    vt2.trials[tid_] = t_
                holder["vt"] = vt2
                mon.check(vt2, "restore")
                n_before = mon.n_cmp
                vt2.run()
                o.count("decided:comparisons_after_searcher_restore", mon.n_cmp - n_before)
                o.count(f"decided:comparisons_after_searcher_restore:mode_{p['mode']}", mon.n_cmp - n_before)
                all_events = vt.events + [("restore",)] + vt2.events
                vt = vt2
    if vt.raised:
        if vt.raised[1] == "resume_of_non_paused":
            # protocol derailed by the scheduler (C04 / C13 decide this); what was compared so far stands
            o.inconclusive("resume_of_non_paused_trial")
        else:
            mech = f"{cell}:raised:{vt.raised[0]}:{vt.raised[1]}"
            if mon.policy == "rungs_and_last" and mon.repeats:
                mech += ":rungs_and_last_after_repeated_report_of_level"
            if mon.restored:
                mech += ":after_searcher_restore"
            o.violate("no_raise", mech,
                      {"raised": vt.raised, "rung_levels": ref_levels, "max_t": p["max_t"],
                       "params": {k: p.get(k) for k in ("register_pending_myopic", "checkpointing", "use_mra", "brackets", "mode", "num_init_random")}})
    if fits[0]:
        o.count("schedules_with_gp_fit")
        o.count("gp_fit_calls", fits[0])
    if fits[1]:
        o.count("pending_fantasised_in_fit")
    if p.get("brackets", 1) > 1:
        o.count("brackets>1")
    if p.get("register_pending_myopic"):
        o.count("myopic")
    if p["mode"] == "max":
        o.count("mode_max")
    if p["use_mra"]:
        o.count("max_resource_attr")
    for ev in all_events[-60:]:
        o.ev(*ev)
    o.set_sig(mon.sig, nontrivial=mon.both and mon.ended > 0)
    o.sample = {
        "params": {k: p.get(k) for k in ("type", "searcher", "searcher_data", "register_pending_myopic", "mode", "map_reward", "grace_period",
                                         "reduction_factor", "rung_increment", "rung_levels", "bracket_rungs", "max_t", "brackets",
                                         "rung_system_per_bracket", "curves", "n_workers", "policy", "use_mra", "checkpointing",
                                         "num_init_random", "fail", "script_len", "dup_rate", "restore_at")},
        "rung_levels": ref_levels, "events": len(all_events), "state_comparisons": mon.n_cmp, "gp_fit_calls": fits[0],
        "model_data_comparisons": mon.n_model_cmp, "max_size_data_for_model": mon.limit, "probe_model": bool(p.get("probe_model")),
        "restored": mon.restored, "first_events": [list(e) for e in all_events[:14]], "trace": mon.sig[:14],
    }
    return o.result()
