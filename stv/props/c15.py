"""C15 — minimising f and maximising -f are the same experiment.

Lock-step PAIRS under the virtual tuner: scheduler A is built with mode "min" and fed the metric
table f, scheduler B is built with the same constructor arguments and random seed but mode "max" and
is fed -f (exact in floating point). A twin port (same methods as ``vtuner.Port``) forwards every
call of the virtual tuner to both, negating the metric(s) in the results given to B, and compares

* every suggestion (none / start / resume, trial id, checkpoint trial, full configuration dict),
* every decision returned by ``on_trial_result``,
* public ranking views where they exist (``terminator.snapshot_rungs`` of HyperbandScheduler: rung
  membership, best-first order, promoted flags, negated values; PASHA's resource cap, read-only).

The FIRST divergence ends the pair. Tables are in general position (gen.Curves kinds continuous /
crossing: distinct values), so the only legitimate asymmetry is the interpolation round-off of the
rung quantile (q versus 1-q). A divergence is therefore closed as ``excluded_roundoff`` only if an
independent plain-list model of what entered the rungs of run A (stv/refmodels/asha.py: RefRungs +
numpy.quantile) says that the cutoff of the deciding rung lies within 64 eps * scale of the deciding
metric; otherwise it is a violation. Scheduler kinds without any interpolated threshold (FIFO,
cost-aware promotion, synchronous Hyperband, DEHB, PBT, regularised evolution, median rule, MOASHA)
have no exclusion at all.

Reporting part (kind ``reporting``): TuningStatus objects are filled by ``update()`` calls the way
``Tuner`` makes them, from a generated history with f and with -f; ``print_best_metric_found``,
``Tuner.best_config`` (a real Tuner object around a stub backend, never run) and
``ExperimentResult.best_config`` (on a generated results frame) with mode min on f versus mode max on
-f must name the same trial / row, with exactly negated metric values; with several metrics the second
run also flips one metric alone (its mode exchanged, its column negated, the rest untouched).

Serialisation round trips: in most pairs BOTH twins go through the same round trip
(``dill.loads(dill.dumps(scheduler))`` as Tuner.save / load does, or ``copy.deepcopy``) at random points of
the history, several per history; the mirrored suggestions / decisions / rankings must still agree.

Transfer learning (kinds ``rush_scheduler_*``, ``bounding_box``): offline tables E (several tasks, seeds,
fidelities, crossing learning curves) for run A and -E for run B; ``top_k_hyperparameter_configurations``
must return the same configurations in the same order (min on E / max on -E) for every k, and RUSHScheduler
(types stopping / promotion) resp. BoundingBox(random search) built from them are paired like the others.
"""
import contextlib
import copy
import datetime
import math
import os
import random
import sys

from stv import envshim  # noqa: F401
from stv import gen
from stv.obs import Obs
from stv.refmodels.asha import EPS, RefRungs
from stv.vtuner import SchedRaised, VTuner

ID = "C15"
LEVEL = "exploration"
RULE = (
    "case = one PAIR: scheduler kind (FIFO random / grid; HyperbandScheduler stopping, promotion, pasha, "
    "cost_promotion, rush_stopping, rush_promotion; synchronous Hyperband custom / geometric; DEHB custom / "
    "geometric; PBT; regularised evolution via baselines.REA or FIFOScheduler(searcher=RegularizedEvolution); "
    "MedianStoppingRule(FIFO); RUSHScheduler (stopping / promotion) and BoundingBox(random search) built from mirrored multi-fidelity offline tables (1-3 tasks, crossing curves), plus top_k_hyperparameter_configurations itself; MOASHA with per-metric mode lists, all or a subset of the metrics flipped, scalar / default mode) x constructor arguments x metric table in "
    "general position x 1-8 workers x arrival policy x optional failure plan (synchronous Hyperband also: a burst of failures in the first rung leaving fewer valid results than the next rung has slots) x sparse reporters and scripts ending before max_t with mixed-sign values (MOASHA) x with/without max_resource_attr x "
    "checkpointing x 0-6 serialisation round trips (dill / deepcopy) of both twins at random points of the history; or one generated reporting history (1-3 metrics, 2-10 trials, random update batches; values in general position, or errors clipped at zero / integer-valued {0,1,2} where one trial attains exactly 0.0 or -0.0 as the optimum before its last report). "
    "Distinct = digest of (kind, sequence of suggestion kinds and non-CONTINUE decisions with their levels, how the "
    "pair ended). Non-trivial = the pair was compared to its end without exclusion and contains at least one "
    "rule-based non-CONTINUE decision (below max_t) and at least one resume / warm start where the kind has them "
    "(REA: a suggestion made from a full population; FIFO: a completed trial followed by a suggestion)."
)
ASSUMPTIONS = [
    "metric tables are in general position (distinct values; gen.Curves continuous / crossing); -f is exact",
    "a divergence is excluded (counted, not judged) only when the reference cutoff of the deciding rung is within "
    "64 eps * max|rung values| of the deciding metric (stopping: the reporting trial's metric; promotion: the best "
    "not yet promoted entry of the first rung, scanning from the top, that is eligible or in the band; RUSH with "
    "threshold candidates: any not yet promoted entry of such a rung)",
    "the bracket of a trial / of a suggestion of HyperbandScheduler is observed from the arguments / return value "
    "of the public terminator.on_task_add / on_task_schedule of run A (instance-level read-only wrap); PASHA's cap "
    "from the rung system's current_max_t (read-only)",
    "MOASHA draws from the global numpy RNG: it is re-seeded identically before each of the two calls of a pair "
    "(done for every kind)",
    "PopulationBasedTraining writes the scheduler's elapsed time into suggested configs: both runs get a constant "
    "time keeper (set_time_keeper)",
    "a relation between two runs cannot see a defect that is itself symmetric under (mode, sign) exchange (e.g. both "
    "signs swapped): those are the business of C03/C04/C05/C19",
    "both twins go through the same serialisation round trips; a round trip that fails alike in both runs is "
    "counted (roundtrip_failed_in_both) and skipped, one that fails in one run only is a violation",
    "ZeroShotTransfer is paired with use_surrogates=False only (kind zero_shot: the model-free greedy rank "
    "selection over offline tables whose configurations are the same in every task); its module imports xgboost, "
    "which is not installed here: the harness puts an empty stand-in module into sys.modules when the import "
    "fails (xgboost is only used by use_surrogates=True, which depends on a floating-point model fit and is "
    "outside the property's quantifier). The quantile-based transfer searcher is not paired",
    "Tuner.best_config is exercised on a real Tuner object constructed around a stub TrialBackend (never run); "
    "whole simulated Tuner runs are not paired here",
]
CASE_TIMEOUT = 60
BAND_K = 64.0

KINDS = [
    "fifo_random", "fifo_grid",
    "hyperband_stopping", "hyperband_promotion", "hyperband_pasha", "hyperband_cost_promotion",
    "hyperband_rush_stopping", "hyperband_rush_promotion",
    "sync_hyperband", "sync_geometric_hyperband", "dehb",
    "pbt", "rea", "median_rule", "moasha", "reporting",
    "rush_scheduler_stopping", "rush_scheduler_promotion", "bounding_box", "zero_shot",
]
HB_TYPES = {
    "hyperband_stopping": "stopping", "hyperband_promotion": "promotion", "hyperband_pasha": "pasha",
    "hyperband_cost_promotion": "cost_promotion", "hyperband_rush_stopping": "rush_stopping",
    "hyperband_rush_promotion": "rush_promotion",
    "rush_scheduler_stopping": "rush_stopping", "rush_scheduler_promotion": "rush_promotion",
}
TRANSFER_KINDS = ("rush_scheduler_stopping", "rush_scheduler_promotion", "bounding_box")
PROMO_TYPES = ("promotion", "pasha", "cost_promotion", "rush_promotion")
# kinds whose pairs must contain a resume (or warm start) to count as non-trivial
NEEDS_RESUME = {"hyperband_promotion", "hyperband_pasha", "hyperband_cost_promotion", "hyperband_rush_promotion",
                "sync_hyperband", "sync_geometric_hyperband", "pbt", "rush_scheduler_promotion"}
NEEDS_DECISION = set(KINDS) - {"fifo_random", "fifo_grid", "rea", "reporting", "bounding_box", "zero_shot"}

_DEVNULL = open(os.devnull, "w")


def preload():
    with contextlib.redirect_stdout(_DEVNULL):
        import pandas  # noqa: F401
        import syne_tune.optimizer.schedulers  # noqa: F401
        import syne_tune.optimizer.schedulers.searchers  # noqa: F401
        import syne_tune.optimizer.schedulers.synchronous  # noqa: F401
        import syne_tune.optimizer.schedulers.multiobjective  # noqa: F401
        import syne_tune.optimizer.baselines  # noqa: F401
        import syne_tune.optimizer.schedulers.transfer_learning  # noqa: F401
        import dill  # noqa: F401
        import syne_tune.experiments.experiment_result  # noqa: F401
        import syne_tune.tuner  # noqa: F401


# the five Hyperband types with an interpolated quantile lose pairs to excluded_roundoff: twice the share
CYCLE = KINDS + ["hyperband_stopping", "hyperband_promotion", "hyperband_pasha", "hyperband_rush_stopping",
                 "hyperband_rush_promotion", "moasha"]


def n_cases(tier):
    return len(CYCLE) * (34 if tier == "quick" else 608)  # 850 / 15200


def cases(tier, seed):
    n = n_cases(tier)
    return [{"kind": CYCLE[i % len(CYCLE)], "seed": seed * 1299709 + i * 19 + 7} for i in range(n)]


def floors(tier):
    n = n_cases(tier)
    per_kind = 30 if tier == "quick" else 520  # of 34 / 608 pairs per kind
    out = {"nontrivial:" + k: per_kind for k in KINDS}
    n_sched = n - n // len(CYCLE)
    out["zero_shot:best_fidelity_differs_between_configurations"] = 15 if tier == "quick" else 250
    out["decided:zero_shot_suggestion"] = 150 if tier == "quick" else 2500
    out["pairs_compared_to_the_end"] = int(0.8 * n_sched)  # i.e. excluded_roundoff (+ other early ends) < 20 %
    out["decided:decision"] = 20000 if tier == "quick" else 500000
    out["decided:suggestion"] = 5000 if tier == "quick" else 120000
    out["decided:ranking"] = 5000 if tier == "quick" else 120000
    out["decided:best_configuration"] = 200 if tier == "quick" else 5000
    out["sync_burst:fewer_valid_than_slots_reached_with_>=2_valid"] = 5 if tier == "quick" else 100
    out["moasha:completions_of_sparse_reporters_before_max_t"] = 50 if tier == "quick" else 1000
    for k in KINDS:
        if k not in ("reporting", "zero_shot"):
            out["pairs_with_roundtrip:" + k] = 10 if tier == "quick" else 180
    out["roundtrips"] = 1000 if tier == "quick" else 18000
    out["roundtrips_with_nonempty_rungs"] = 100 if tier == "quick" else 1800
    out["reporting:optimum_exactly_zero_before_last_report"] = 15 if tier == "quick" else 250
    out["decided:top_k"] = 300 if tier == "quick" else 5000
    out["transfer:top_k_best_and_worst_fidelity_rankings_differ"] = 30 if tier == "quick" else 500
    return out


# =============================================================================================
# generators


def _common(rng, p, workers=(1, 8), trials=(8, 40), events=(120, 500)):
    p["n_workers"] = rng.randint(*workers)
    p["policy"] = rng.choice(["uniform", "round_robin", "starve", "burst", "eager", "eager"])
    p["max_trials"] = rng.randint(*trials)
    p["max_events"] = rng.randint(*events)
    p["curves"] = rng.choice(["continuous", "continuous", "crossing"])
    p["checkpointing"] = rng.random() < 0.6
    p["fail_rate"] = rng.choice([0.0, 0.0, 0.0, 0.1])
    return p


def expand(spec):
    """All generator parameters derive from the seed; explicit keys in the spec override."""
    rng = random.Random(spec["seed"])
    kind = spec["kind"]
    p = {"kind": kind}
    if kind in ("fifo_random", "fifo_grid"):
        p["space"] = gen.small_space(rng, finite=(kind == "fifo_grid"), ensure_infinite=(kind == "fifo_random"),
                                     ordinal_kinds=("equal",))
        p["max_t"] = rng.randint(1, 4)
        _common(rng, p, workers=(1, 4), trials=(5, 25), events=(40, 160))
        p["pte"] = rng.choice(["default", "empty"])
    elif kind in TRANSFER_KINDS:
        p["space"] = _transfer_space(rng)
        if kind == "bounding_box":
            p["max_t"] = rng.randint(1, 3)
            _common(rng, p, workers=(1, 4), trials=(5, 25), events=(40, 160))
        else:
            typ = HB_TYPES[kind]
            for _ in range(50):
                hp = gen.hyperband_params(rng, [typ])
                if len(gen.ref_rung_levels(hp)) >= 1:
                    break
            hp.pop("mode")
            p.update(hp)
            _common(rng, p)
            p["use_mra"] = rng.random() < 0.5
            p["rush_candidates"] = 1  # > 0: the referee uses its loose rule (threshold candidates exist)
            p["extra_points"] = rng.choice(["none", "none", "empty", "one"])
        n_tasks = rng.randint(1, 3)
        p["offline"] = {
            "n_tasks": n_tasks, "n_evals": rng.randint(4, 10), "n_seeds": rng.randint(1, 3),
            "n_fidelities": rng.choice([1, 2, 3, 4, 6]), "k": rng.randint(2 if n_tasks == 1 else 1, 3),
            "objectives": rng.choice([["loss"], ["other", "loss"], ["loss", "other"]]),
            "seed": rng.randint(0, 10**6),
        }
        if kind == "bounding_box" and n_tasks * p["offline"]["k"] < 3:
            p["offline"]["k"] = 3
    elif kind in HB_TYPES:
        typ = HB_TYPES[kind]
        for _ in range(50):
            hp = gen.hyperband_params(rng, [typ])
            if typ == "pasha":
                hp["brackets"] = 1
                hp["rung_system_per_bracket"] = False
                # C04-K1: PASHA with one rung level is known-broken; with two its cap never grows beyond
                # the first rung level, so nothing is ever promoted (nothing to compare)
                if len(gen.ref_rung_levels(hp)) < 3:
                    continue
            if len(gen.ref_rung_levels(hp)) >= 1:
                break
        hp.pop("mode")
        p.update(hp)
        p["space"] = gen.small_space(rng, ensure_infinite=True, ordinal_kinds=("equal",))
        _common(rng, p)
        p["use_mra"] = rng.random() < 0.5
        if typ.startswith("rush"):
            p["rush_candidates"] = rng.choice([0, 1, 2, 3])
    elif kind in ("sync_hyperband", "sync_geometric_hyperband", "dehb"):
        sub = kind
        if kind == "dehb":
            sub = rng.choice(["dehb", "dehb", "dehb_geometric"])
        p["sub"] = sub
        if sub in ("sync_hyperband", "dehb"):
            R = rng.randint(2, 4)
            levels = sorted(rng.sample(range(1, 16), R))
            sizes = sorted(rng.sample(range(1, 9), R), reverse=True)
            first = [[s, l] for s, l in zip(sizes, levels)]
            if sub == "dehb":
                if sum(sizes) < 3:
                    first[0][0] += 3
                p["rungs_first_bracket"] = first
                p["num_brackets"] = R  # full brackets only (C05-K2)
            else:
                nb = rng.randint(1, R)
                systems = [first]
                for off in range(1, nb):
                    lv = levels[off:]
                    sz = sorted(rng.sample(range(1, 9), len(lv)), reverse=True)
                    systems.append([[s, l] for s, l in zip(sz, lv)])
                p["bracket_rungs"] = systems
            p["max_level"] = levels[-1]
        else:
            p["grace_period"] = rng.randint(1, 3)
            p["reduction_factor"] = rng.choice([2, 3, 4, 2.5])
            p["max_level"] = rng.choice([4, 8, 9, 16, 27])
            if p["max_level"] <= p["grace_period"]:
                p["max_level"] = p["grace_period"] + 3
            p["brackets"] = None if sub == "dehb_geometric" else rng.choice([None, 1, 2, 3])
        p["max_t"] = p["max_level"]
        p["space"] = gen.small_space(rng, ensure_infinite=True, ordinal_kinds=("equal",))
        _common(rng, p, events=(200, 700))
        p["max_trials"] = 10**6
        p["use_mra"] = rng.random() < 0.6
        p["support_pause_resume"] = rng.random() < 0.7
        if kind == "dehb":
            p["fail_rate"] = 0.0  # DEHB after a failed trial is known-broken (C05-K3)
        else:
            # burst of failures in the first rung of the first bracket (before the first report), sized so that
            # 2 <= #valid results < #slots of the next rung where possible: get_top_list's fallback branch
            p["burst"] = rng.random() < 0.4
            p["burst_seed"] = rng.randint(0, 10**6)
    elif kind == "pbt":
        p["space"] = gen.small_space(rng, ensure_infinite=True, ordinal_kinds=("equal",))
        p["max_t"] = rng.randint(6, 20)
        p["population_size"] = rng.randint(2, 6)
        p["perturbation_interval"] = rng.randint(1, 4)
        p["quantile_fraction"] = rng.choice([0.25, 0.34, 0.5])
        p["resample_probability"] = rng.choice([0.25, 0.5])
        _common(rng, p, trials=(10, 40), events=(150, 500))
        p["n_workers"] = max(2, min(8, p["population_size"] + rng.choice([0, 0, 1, -1])))
        p["pbt_restart_levels"] = rng.random() < 0.5
    elif kind == "rea":
        p["space"] = gen.small_space(rng, ensure_infinite=True, ordinal_kinds=("equal",))
        p["max_t"] = rng.randint(1, 2)
        p["population_size"] = rng.randint(2, 6)
        p["sample_size"] = rng.randint(1, 4)
        p["construction"] = rng.choice(["baseline", "fifo_searcher_with_mode", "fifo_searcher_default_mode"])
        _common(rng, p, workers=(1, 4), trials=(20, 45), events=(150, 350))
        p["fail_rate"] = 0.0
    elif kind == "median_rule":
        p["space"] = gen.small_space(rng, ensure_infinite=True, ordinal_kinds=("equal",))
        p["max_t"] = rng.randint(4, 12)
        p["running_average"] = rng.random() < 0.5
        p["grace_time"] = rng.randint(1, 3)
        p["grace_population"] = rng.randint(2, 5)
        p["rank_cutoff"] = rng.choice([0.3, 0.5, 0.7])
        _common(rng, p, workers=(2, 6), trials=(10, 35), events=(150, 450))
    elif kind == "moasha":
        p["space"] = gen.small_space(rng, ensure_infinite=True, ordinal_kinds=("equal",))
        k = rng.randint(1, 3)
        p["metrics"] = [f"m{j}" for j in range(k)]
        p["mode_form"] = rng.choice(["list", "list", "scalar", "default_vs_max"])
        p["modes"] = [rng.choice(["min", "max"]) for _ in range(k)]
        p["max_t"] = rng.choice([4, 8, 9, 16, 27])
        p["grace_period"] = rng.randint(1, 3)
        p["reduction_factor"] = rng.choice([2, 3, 4])
        p["brackets"] = rng.randint(1, 3)
        p["priority"] = rng.choice(["default", "default", "linear", "fixed"])
        _common(rng, p, workers=(2, 8), trials=(10, 40), events=(150, 450))
        # training scripts that finish on their own before the scheduler's max_t, sparse reporters (every
        # k-th level / once at the end: the completion path then records in a lower rung), mixed-sign values
        rungs = []
        while p["grace_period"] * p["reduction_factor"] ** len(rungs) <= p["max_t"]:
            rungs.append(p["grace_period"] * p["reduction_factor"] ** len(rungs))
        p["script_epochs"] = None
        if len(rungs) >= 2 and rungs[1] < p["max_t"] and rng.random() < 0.8:
            # long enough to pass two rung levels, shorter than the scheduler's max_t
            p["script_epochs"] = rng.randint(rungs[1], p["max_t"] - 1)
        p["strides"] = rng.choice([None, [1, 1, 3], [1, 2], [1, 100, 1], [100, 1, 2, 100], [2, 3, 100], [100, 1], [100, 100, 1]])
        p["max_trials"] = rng.randint(20, 50)
        p["max_events"] = rng.randint(200, 500)
        p["offset"] = rng.choice([0.0, 0.45, 0.45])
    elif kind == "reporting":
        p["n_metrics"] = rng.randint(1, 3)
        p["n_trials"] = rng.randint(2, 10)
        p["max_t"] = rng.randint(1, 6)
        p["curves"] = rng.choice(["continuous", "crossing"])
        # value arm: general position | errors clipped at zero (max(0, curve - c)) | integer-valued {0, 1, 2};
        # in the two zero arms one trial attains exactly 0.0 / -0.0 as the optimum at a non-final report
        p["values"] = rng.choice(["general", "general", "clipped", "clipped", "clipped", "integer"])
        if p["values"] != "general":
            p["max_t"] = max(2, p["max_t"])
        p["zero_seed"] = rng.randint(0, 10**6)
    else:
        raise ValueError(kind)
    if kind != "reporting":
        # serialisation round trips of both twins at random points of the history
        rrng = random.Random(spec["seed"] + 17)
        p["rt_prob"] = rrng.choice([0.0, 0.01, 0.02, 0.02, 0.05])
        p["rt_max"] = rrng.randint(1, 6)
    p.update({k: v for k, v in spec.items() if k not in ("seed", "kind") and not k.startswith("_")})
    return p


def _transfer_space(rng):
    """Numerical and categorical domains only (BoundingBox restricts exactly those), at least one continuous."""
    desc = {"h0": ["uniform", 0.0, rng.choice([1.0, 2.5])]}
    for i in range(1, rng.randint(2, 4)):
        k = rng.choice(["uniform", "loguniform", "randint", "choice"])
        if k == "uniform":
            lo = rng.choice([0.0, -1.0, 0.5])
            desc[f"h{i}"] = ["uniform", lo, lo + rng.choice([1.0, 10.0])]
        elif k == "loguniform":
            desc[f"h{i}"] = ["loguniform", rng.choice([1e-5, 1e-3, 0.1]), rng.choice([1.0, 10.0])]
        elif k == "randint":
            lo = rng.randint(0, 5)
            desc[f"h{i}"] = ["randint", lo, lo + rng.randint(3, 50)]
        else:
            desc[f"h{i}"] = ["choice", [f"c{j}" for j in range(rng.randint(2, 4))]]
    if rng.random() < 0.4:
        desc["const_i"] = ["const", 7]
    return desc


def build_offline(p, space, sign):
    """Offline evaluations of related tasks: E for run A (sign=+1), -E (metric column only) for run B.
    Learning curves over the fidelities cross (so ranking by best fidelity differs from ranking by the
    worst one), values in general position; averages over seeds are exact mirror images."""
    import numpy as np
    import pandas as pd
    from syne_tune.optimizer.schedulers.transfer_learning import TransferLearningTaskEvaluations

    off = p["offline"]
    out = {}
    names = list(off["objectives"])
    for t in range(off["n_tasks"]):
        rs = np.random.RandomState(off["seed"] * 7 + t)
        rows = []
        for _ in range(off["n_evals"]):
            rows.append({k: (v.sample(random_state=rs) if hasattr(v, "sample") else v) for k, v in space.items()})
        n, ns, nf = off["n_evals"], off["n_seeds"], off["n_fidelities"]
        a = rs.uniform(0.0, 1.0, size=(n, 1, 1))
        b = rs.uniform(-0.4, 0.4, size=(n, 1, 1))
        fid = np.arange(nf, dtype=float).reshape(1, 1, nf) / max(nf - 1, 1)
        ev = a + b * fid + rs.uniform(-0.05, 0.05, size=(n, ns, nf)) - 0.3
        full = np.zeros((n, ns, nf, len(names)))
        for j, name in enumerate(names):
            full[..., j] = sign * ev if name == "loss" else rs.uniform(size=(n, ns, nf))
        out[f"task{t}"] = TransferLearningTaskEvaluations(
            configuration_space=space, hyperparameters=pd.DataFrame(rows), objectives_names=names,
            objectives_evaluations=full)
    return out


def check_top_k(o, kind, p, off_a, off_b):
    """top_k_hyperparameter_configurations itself: same configurations in the same order for mirrored tables."""
    import numpy as np

    for task in off_a:
        ea, eb = off_a[task], off_b[task]
        n = p["offline"]["n_evals"]
        avg = ea.objective_values("loss").mean(axis=1)
        best_order, worst_order = list(np.argsort(avg.min(axis=1))), list(np.argsort(avg.max(axis=1)))
        if best_order[: p["offline"]["k"]] != worst_order[: p["offline"]["k"]]:
            o.count("transfer:top_k_best_and_worst_fidelity_rankings_differ")
        for k in range(1, n + 1):
            try:
                ra = ea.top_k_hyperparameter_configurations(k, "min", "loss")
                rb = eb.top_k_hyperparameter_configurations(k, "max", "loss")
            except Exception as e:  # noqa: BLE001
                o.violate("no_raise", f"transfer:raised:top_k_hyperparameter_configurations:{type(e).__name__}",
                          {"error": repr(e)[:300], "k": k})
                return False
            o.count("decided:top_k")
            if ra != rb:
                o.violate("rankings", "transfer:top_k_hyperparameter_configurations:configurations_or_order_differ",
                          {"kind": kind, "task": task, "k": k, "n_fidelities": p["offline"]["n_fidelities"],
                           "min_on_E": ra[:4], "max_on_minus_E": rb[:4],
                           "avg_over_seeds_E": avg.tolist()[:10]})
                return False
    return True


# =============================================================================================
# construction of the two schedulers (identical arguments except the mode)


def _time_keeper():
    from syne_tune.backend.time_keeper import TimeKeeper

    class ConstantTimeKeeper(TimeKeeper):
        def start_of_time(self):
            pass

        def time(self):
            return 0.0

        def time_stamp(self):
            return datetime.datetime(2024, 1, 1)

        def advance(self, step):
            pass

    return ConstantTimeKeeper()


def _flip(mode):
    if isinstance(mode, list):
        return [_flip(m) for m in mode]
    return "max" if mode == "min" else "min"


def _rush_points(p, seed):
    import numpy as np

    nc = p.get("rush_candidates", 0)
    if not nc:
        return None
    space = gen.build_space(p["space"])
    rr = random.Random(seed + 5)
    names = [k for k, v in p["space"].items() if v[0] != "const"]
    return [{k: space[k].sample(random_state=np.random.RandomState(rr.randint(0, 2**31 - 1))) for k in names}
            for _ in range(nc)]


def build(p, mode, seed, shared):
    """mode: 'min' for run A, 'max' for run B (MOASHA: the mode (list) of that run)."""
    from syne_tune.optimizer import schedulers as S

    kind = p["kind"]
    space = gen.build_space(p["space"])
    if kind in TRANSFER_KINDS:
        from syne_tune.optimizer.schedulers.transfer_learning import BoundingBox, RUSHScheduler

        if p.get("use_mra"):
            space["epochs"] = p["max_t"]
        off = build_offline(p, space, 1.0 if mode == "min" else -1.0)
        shared.setdefault("offline", {})[mode] = off
        if kind == "bounding_box":
            max_t = p["max_t"]

            def scheduler_fun(new_space, mode_, metric_):
                return S.FIFOScheduler(new_space, searcher="random", metric=metric_, mode=mode_, max_t=max_t,
                                       random_seed=seed)

            return BoundingBox(scheduler_fun, space, "loss", off, mode=mode,
                               num_hyperparameters_per_task=p["offline"]["k"])
        kw = dict(
            searcher="random", mode=mode, resource_attr="epoch", brackets=p.get("brackets", 1),
            rung_system_per_bracket=p.get("rung_system_per_bracket", False), random_seed=seed,
            num_hyperparameters_per_task=p["offline"]["k"],
        )
        if p.get("use_mra"):
            kw["max_resource_attr"] = "epochs"
        else:
            kw["max_t"] = p["max_t"]
        for k in ("grace_period", "reduction_factor", "rung_increment", "rung_levels"):
            if p.get(k) is not None:
                kw[k] = p[k]
        if p["extra_points"] == "empty":
            kw["points_to_evaluate"] = []
        elif p["extra_points"] == "one":
            import numpy as np

            rs = np.random.RandomState(seed % 1000)
            kw["points_to_evaluate"] = [{k: v.sample(random_state=rs) for k, v in space.items() if hasattr(v, "sample")}]
        return RUSHScheduler(space, off, metric="loss", type=HB_TYPES[kind].replace("rush_", ""), **kw)
    if kind in ("fifo_random", "fifo_grid"):
        kw = dict(searcher="random" if kind == "fifo_random" else "grid", metric="loss", mode=mode,
                  max_t=p["max_t"], random_seed=seed)
        if p["pte"] == "empty":
            kw["points_to_evaluate"] = []
        return S.FIFOScheduler(space, **kw)
    if kind in HB_TYPES:
        typ = HB_TYPES[kind]
        bp = dict(p, type=typ, mode=mode)
        kw = {}
        if p["use_mra"]:
            space["epochs"] = p["max_t"]
            bp["max_resource_attr"] = "epochs"
        if typ == "cost_promotion":
            kw["cost_attr"] = "cost"
        if typ.startswith("rush"):
            kw["rung_system_kwargs"] = {"num_threshold_candidates": p.get("rush_candidates", 0)}
            if shared.get("rush_points"):
                kw["points_to_evaluate"] = copy.deepcopy(shared["rush_points"])
        return gen.build_hyperband(space, bp, seed=seed, **kw)
    if kind in ("sync_hyperband", "sync_geometric_hyperband", "dehb"):
        from syne_tune.optimizer.schedulers import synchronous as sy

        kw = dict(metric="loss", mode=mode, resource_attr="epoch", random_seed=seed)
        if p["use_mra"]:
            space["epochs"] = p["max_level"]
            kw["max_resource_attr"] = "epochs"
        else:
            kw["max_resource_level"] = p["max_level"]
        sub = p["sub"]
        if sub == "sync_hyperband":
            return sy.SynchronousHyperbandScheduler(
                space, bracket_rungs=[[tuple(x) for x in b] for b in p["bracket_rungs"]], **kw)
        if sub == "sync_geometric_hyperband":
            return sy.SynchronousGeometricHyperbandScheduler(
                space, grace_period=p["grace_period"], reduction_factor=p["reduction_factor"],
                brackets=p["brackets"], **kw)
        if sub == "dehb":
            return sy.DifferentialEvolutionHyperbandScheduler(
                space, rungs_first_bracket=[tuple(x) for x in p["rungs_first_bracket"]],
                num_brackets_per_iteration=p["num_brackets"], support_pause_resume=p["support_pause_resume"], **kw)
        return sy.GeometricDifferentialEvolutionHyperbandScheduler(
            space, grace_period=p["grace_period"], reduction_factor=p["reduction_factor"], brackets=p["brackets"],
            support_pause_resume=p["support_pause_resume"], **kw)
    if kind == "pbt":
        s = S.PopulationBasedTraining(
            space, metric="loss", mode=mode, resource_attr="epoch", max_t=p["max_t"],
            population_size=p["population_size"], perturbation_interval=p["perturbation_interval"],
            quantile_fraction=p["quantile_fraction"], resample_probability=p["resample_probability"],
            random_seed=seed)
        s.set_time_keeper(_time_keeper())
        return s
    if kind == "rea":
        if p["construction"] == "baseline":
            from syne_tune.optimizer.baselines import REA

            return REA(space, metric="loss", population_size=p["population_size"], sample_size=p["sample_size"],
                       random_seed=seed, mode=mode, max_t=p["max_t"])
        from syne_tune.optimizer.schedulers.searchers.regularized_evolution import RegularizedEvolution

        skw = dict(population_size=p["population_size"], sample_size=p["sample_size"], random_seed=seed)
        if p["construction"] == "fifo_searcher_with_mode":
            skw["mode"] = mode
        searcher = RegularizedEvolution(gen.build_space(p["space"]), metric="loss", **skw)
        return S.FIFOScheduler(space, searcher=searcher, metric="loss", mode=mode, max_t=p["max_t"], random_seed=seed)
    if kind == "median_rule":
        inner = S.FIFOScheduler(space, searcher="random", metric="loss", mode=mode, max_t=p["max_t"], random_seed=seed)
        return S.MedianStoppingRule(
            scheduler=inner, resource_attr="epoch", running_average=p["running_average"],
            grace_time=p["grace_time"], grace_population=p["grace_population"], rank_cutoff=p["rank_cutoff"])
    if kind == "moasha":
        import numpy as np
        from syne_tune.optimizer.schedulers.multiobjective import MOASHA
        from syne_tune.optimizer.schedulers.multiobjective import multiobjective_priority as mp

        prio = None
        if p["priority"] == "linear":
            w = [1.0 + 0.5 * j for j in range(len(p["metrics"]))]
            prio = mp.LinearScalarizationPriority(weights=np.array(w))
        elif p["priority"] == "fixed":
            prio = mp.FixedObjectivePriority(dim=len(p["metrics"]) - 1)
        kw = dict(metrics=list(p["metrics"]), time_attr="epoch", max_t=p["max_t"], grace_period=p["grace_period"],
                  reduction_factor=p["reduction_factor"], brackets=p["brackets"], multiobjective_priority=prio)
        if mode is not None:
            kw["mode"] = mode
        return MOASHA(space, **kw)
    raise ValueError(kind)


# =============================================================================================
# round-off referee for HyperbandScheduler (plain lists of what entered the rungs of run A)


def _in_band(v, c, scale):
    return abs(v - c) <= BAND_K * EPS * max(scale, 1e-300)


class HBReferee:
    def __init__(self, p, sched_a, levels):
        self.p = p
        self.typ = HB_TYPES[p["kind"]]
        self.promo = self.typ in PROMO_TYPES
        self.ref = RefRungs(levels, p["max_t"], "min", p["brackets"], p["rung_system_per_bracket"])
        self.brackets = {}
        self.sched_log = []
        self.observable = True
        self.cap_before = p["max_t"]
        self.attach(sched_a)

    def detach(self):
        """Remove the instance-level wraps (before run A is serialised)."""
        term = self.sched_a.terminator
        for name in ("on_task_add", "on_task_schedule"):
            term.__dict__.pop(name, None)

    def attach(self, sched_a):
        self.sched_a = sched_a
        term = sched_a.terminator
        orig_add, orig_sched = term.on_task_add, term.on_task_schedule

        def on_task_add(trial_id, **kwargs):
            self.brackets[str(trial_id)] = kwargs.get("bracket")
            return orig_add(trial_id, **kwargs)

        def on_task_schedule(new_trial_id):
            r = orig_sched(new_trial_id)
            try:
                self.sched_log.append(r[1]["bracket"])
            except Exception:  # noqa: BLE001
                self.observable = False
            return r

        term.on_task_add = on_task_add
        term.on_task_schedule = on_task_schedule

    # -- bookkeeping (run A only)
    def pre_suggest(self):
        self.sched_log.clear()
        self.cap_before = self.p["max_t"]
        if self.typ == "pasha":
            try:
                self.cap_before = self.sched_a.terminator._rung_systems[0].current_max_t
            except Exception:  # noqa: BLE001
                self.observable = False

    def _entries(self, tid, level):
        b = self.brackets.get(str(tid))
        if b is None:
            self.observable = False
            return None
        sysd = self.ref.sys_of(b)
        # promotion types: a trial promoted by a suggestion of another bracket (shared rung system) is
        # registered at the milestone it was promoted to, whatever that bracket's own levels are
        if level in sysd and (self.promo or level in self.ref.own_levels(b)):
            return sysd[level]
        return None

    def record_result(self, tid, level, value, decision_a):
        """Called for every report, BEFORE the decisions are compared (the real code inserts the
        value before it takes the quantile)."""
        if level >= self.p["max_t"]:
            return
        es = self._entries(tid, level)
        if es is None or any(e["trial"] == str(tid) for e in es):
            return
        if self.promo:
            if decision_a == "PAUSE":
                es.append({"trial": str(tid), "value": value, "promoted": False})
        else:
            es.append({"trial": str(tid), "value": value})

    def record_resume(self, tid, paused_level):
        if not self.sched_log:
            self.observable = False
            return
        sysd = self.ref.sys_of(self.sched_log[-1])
        for e in sysd.get(paused_level, []):
            if e["trial"] == str(tid):
                e["promoted"] = True

    # -- verdicts on a divergence
    def decision_ambiguous(self, tid, level):
        if self.promo or level >= self.p["max_t"]:
            return False, None
        es = self._entries(tid, level)
        if not es:
            return False, None
        c = self.ref.cutoff(es, level)
        mine = [e["value"] for e in es if e["trial"] == str(tid)]
        if c is None or not mine:
            return False, None
        scale = max(abs(e["value"]) for e in es)
        info = {"cutoff_ref": c, "metric": mine[0], "n": len(es), "q": self.ref.q(level), "band": BAND_K * EPS * scale}
        return _in_band(mine[0], c, scale), info

    def suggest_ambiguous(self):
        if not self.promo or self.typ == "cost_promotion" or not self.sched_log:
            return False, None
        loose = self.p.get("rush_candidates", 0) > 0
        sysd = self.ref.sys_of(self.sched_log[-1])
        for level in sorted(sysd.keys(), reverse=True):
            if not level < self.cap_before:
                continue
            es = sysd[level]
            c = self.ref.cutoff(es, level)
            cand = [e for e in es if not e["promoted"]]
            if c is None or not cand:
                continue
            scale = max(abs(e["value"]) for e in es)
            best = min(cand, key=lambda e: e["value"])
            info = {"level": level, "cutoff_ref": c, "best_unpromoted": best["value"], "n": len(es),
                    "q": self.ref.q(level), "band": BAND_K * EPS * scale}
            if _in_band(best["value"], c, scale) or (loose and any(_in_band(e["value"], c, scale) for e in cand)):
                return True, info
            if best["value"] <= c and not loose:
                return False, info  # surely eligible here: both runs had to promote it
        return False, None


# =============================================================================================
# the twin port


def _sugg_repr(s):
    if s is None:
        return ("none", None, None)
    return ("start" if s.spawn_new_trial_id else "resume", s.checkpoint_trial_id,
            None if s.config is None else dict(s.config))


class TwinPort:
    """Same methods as vtuner.Port; forwards every call to run A (as is) and run B (metrics negated)
    and compares what comes back. The first divergence ends the pair."""

    def __init__(self, a, b, kind, neg, o, seed, referee=None, mra=None):
        self.a, self.b, self.kind, self.neg, self.o = a, b, kind, tuple(neg), o
        self.seed = seed
        self.referee = referee
        self.mra = mra
        self.vt = None
        self.ended = None  # None | "violation" | "excluded_roundoff" | "both_raised"
        self.ncalls = 0
        self._btrials = {}
        self.rank_hook = None
        self.rt_prob, self.rt_left, self.n_roundtrips = 0.0, 0, 0
        self.rt_rng = random.Random(seed + 23)
        self.rt_nonempty = None  # callable(run A) -> bool: some rung holds >= 2 entries

    # ------------------------------------------------------------------ plumbing
    def _btrial(self, trial):
        from stv.vtuner import make_trial

        ent = self._btrials.get(id(trial))
        if ent is None or ent[0] is not trial:
            ent = (trial, make_trial(trial.trial_id, copy.deepcopy(trial.config)))
            self._btrials[id(trial)] = ent
        return ent[1]

    def _negated(self, result):
        r = dict(result)
        for m in self.neg:
            r[m] = -r[m]
        return r

    def _pair(self, api, ka, kb):
        import numpy as np

        self.ncalls += 1
        s = (self.seed * 1000003 + self.ncalls * 7919) % (2**32)
        ra = ea = rb = eb = None
        np.random.seed(s)
        try:
            ra = getattr(self.a, api)(**ka)
        except Exception as e:  # noqa: BLE001
            ea = e
        np.random.seed(s)
        try:
            rb = getattr(self.b, api)(**kb)
        except Exception as e:  # noqa: BLE001
            eb = e
        if ea is None and eb is None:
            return ra, rb
        if ea is not None and eb is not None and type(ea) is type(eb):
            # both runs fail alike: not a statement about min/max symmetry (owned by other properties)
            self.o.count(f"both_raised:{self.kind}:{api}:{type(ea).__name__}")
            self._end("both_raised")
            raise SchedRaised(api, ea)
        if ea is not None and eb is not None:
            mech = f"{self.kind}:raised:{api}:{type(ea).__name__}_vs_{type(eb).__name__}"
        elif ea is not None:
            mech = f"{self.kind}:raised_only_with_mode_min:{api}:{type(ea).__name__}"
        else:
            mech = f"{self.kind}:raised_only_with_mode_max:{api}:{type(eb).__name__}"
        self.o.violate("no_raise", mech, {"min_run": repr(ea)[:300], "max_run": repr(eb)[:300], "call": self.ncalls})
        self._end("violation")
        return None, None

    def _maybe_roundtrip(self):
        """Both twins go through the same serialisation round trip (dill as Tuner.save / load, or deepcopy)."""
        if self.rt_left <= 0 or self.rt_rng.random() >= self.rt_prob:
            return
        import dill

        how = self.rt_rng.choice(["dill", "dill", "deepcopy"])
        nonempty = False
        if self.rt_nonempty is not None:
            try:
                nonempty = bool(self.rt_nonempty(self.a))
            except Exception:  # noqa: BLE001
                nonempty = False
        if self.referee is not None:
            self.referee.detach()
        new, errs = [], []
        for s in (self.a, self.b):
            try:
                new.append(dill.loads(dill.dumps(s)) if how == "dill" else copy.deepcopy(s))
                errs.append(None)
            except Exception as e:  # noqa: BLE001
                new.append(None)
                errs.append(e)
        if errs[0] is None and errs[1] is None:
            self.a, self.b = new
            self.rt_left -= 1
            self.n_roundtrips += 1
            self.o.count("roundtrips")
            self.o.count("roundtrips:" + how)
            if nonempty:
                self.o.count("roundtrips_with_nonempty_rungs")
        elif errs[0] is not None and errs[1] is not None and type(errs[0]) is type(errs[1]):
            self.o.count(f"roundtrip_failed_in_both:{self.kind}:{how}:{type(errs[0]).__name__}")
            self.rt_left = 0
        else:
            which = "min" if errs[0] is not None else "max"
            e = errs[0] if errs[0] is not None else errs[1]
            self.o.violate("no_raise", f"{self.kind}:raised_only_with_mode_{which}:{how}_round_trip:{type(e).__name__}",
                           {"min_run": repr(errs[0])[:300], "max_run": repr(errs[1])[:300], "call": self.ncalls})
            self._end("violation")
        if self.referee is not None:
            self.referee.attach(self.a)
        if self.ended is None and errs[0] is None and errs[1] is None:
            self._rankings(f"{how}_round_trip")

    def _end(self, how):
        if self.ended is None:
            self.ended = how
        if self.vt is not None:
            self.vt.stop = True

    def _diverge(self, clause, what, detail, ambiguous, info):
        if ambiguous:
            self.o.count("excluded_roundoff")
            self.o.count("excluded_roundoff:" + self.kind)
            self.o.ev("excluded_roundoff", what, info)
            self._end("excluded_roundoff")
        else:
            d = dict(detail)
            if info is not None:
                d["reference"] = info
            d["call"] = self.ncalls
            self.o.violate(clause, f"{self.kind}:{what}", d)
            self._end("violation")

    def _rankings(self, ctx):
        if self.rank_hook is None or self.ended is not None:
            return
        r = self.rank_hook(self.a, self.b)
        if r is None:
            return
        self.o.count("decided:ranking", r[0] if isinstance(r[0], int) else 1)
        if r[1] is not None:
            what, detail = r[1]
            self._diverge("rankings", f"ranking:{what}", dict(detail, after=ctx), False, None)

    # ------------------------------------------------------------------ scheduler API
    def suggest(self, trial_id):
        if self.ended is not None:
            return None
        self._maybe_roundtrip()
        if self.ended is not None:
            return None
        if self.referee is not None:
            self.referee.pre_suggest()
        sa, sb = self._pair("suggest", {"trial_id": trial_id}, {"trial_id": trial_id})
        if self.ended is not None:
            return None
        ra, rb = _sugg_repr(sa), _sugg_repr(sb)
        self.o.count("decided:suggestion")
        if ra != rb:
            if ra[0] != rb[0]:
                what = f"suggestion:{ra[0]}_vs_{rb[0]}"
            elif ra[1] != rb[1]:
                what = "suggestion:resumed_trial_differs" if ra[0] == "resume" else "suggestion:checkpoint_trial_differs"
            else:
                ca, cb = ra[2] or {}, rb[2] or {}
                keys = sorted(k for k in set(ca) | set(cb) if ca.get(k, "<missing>") != cb.get(k, "<missing>"))
                only_target = self.mra is not None and keys == [self.mra]
                what = f"suggestion:config_differs:{ra[0]}:" + ("resource_target" if only_target else "hyperparameters")
            amb, info = (False, None)
            if self.referee is not None:
                amb, info = self.referee.suggest_ambiguous()
            self._diverge("suggestions", what, {"min_run": ra, "max_run": rb, "new_trial_id": trial_id}, amb, info)
            return None
        if self.referee is not None and ra[0] == "resume":
            t = self.vt.trials.get(ra[1]) if self.vt is not None else None
            if t is not None:
                self.referee.record_resume(ra[1], t.last_level)
            self._rankings("resume_suggestion")
        return sa

    def on_trial_add(self, trial):
        if self.ended is not None:
            return None
        self._pair("on_trial_add", {"trial": trial}, {"trial": self._btrial(trial)})
        return None

    def on_trial_result(self, trial, result):
        if self.ended is not None:
            return "CONTINUE"
        self._maybe_roundtrip()
        if self.ended is not None:
            return "CONTINUE"
        da, db = self._pair("on_trial_result", {"trial": trial, "result": dict(result)},
                            {"trial": self._btrial(trial), "result": self._negated(result)})
        if self.ended is not None:
            return "CONTINUE"
        self.o.count("decided:decision")
        level = result.get("epoch")
        if self.referee is not None:
            self.referee.record_result(trial.trial_id, level, result.get("loss"), da)
        if da != db:
            amb, info = (False, None)
            if self.referee is not None:
                amb, info = self.referee.decision_ambiguous(trial.trial_id, level)
            self._diverge("decisions", f"decision:{da}_vs_{db}",
                          {"trial": trial.trial_id, "level": level, "min_run": da, "max_run": db,
                           "result": {k: result[k] for k in list(result)[:6]}}, amb, info)
            return "CONTINUE"
        self._rankings("report")
        return da

    def on_trial_remove(self, trial):
        if self.ended is None:
            self._pair("on_trial_remove", {"trial": trial}, {"trial": self._btrial(trial)})

    def on_trial_complete(self, trial, result):
        if self.ended is None:
            self._pair("on_trial_complete", {"trial": trial, "result": dict(result)},
                       {"trial": self._btrial(trial), "result": self._negated(result)})

    def on_trial_error(self, trial):
        if self.ended is None:
            self._pair("on_trial_error", {"trial": trial}, {"trial": self._btrial(trial)})


# =============================================================================================
# public ranking views


def hyperband_rank_hook(p):
    nb = min(p["brackets"], len(gen.ref_rung_levels(p)) + 1) if p["rung_system_per_bracket"] else 1
    pasha = HB_TYPES[p["kind"]] == "pasha"

    def hook(a, b):
        n = 0
        for br in range(nb):
            sa, sb = a.terminator.snapshot_rungs(br), b.terminator.snapshot_rungs(br)
            if [x[0] for x in sa] != [x[0] for x in sb]:
                return n, ("rung_levels", {"min_run": [x[0] for x in sa], "max_run": [x[0] for x in sb]})
            for (lv, ea), (_, eb) in zip(sa, sb):
                n += 1
                ia, ib = [e.trial_id for e in ea], [e.trial_id for e in eb]
                if ia != ib:
                    what = "rung_order" if sorted(ia) == sorted(ib) else "rung_membership"
                    return n, (what, {"level": lv, "bracket": br, "min_run": ia[:30], "max_run": ib[:30],
                                      "values_min_run": [e.metric_val for e in ea][:30]})
                if any(x.metric_val != -y.metric_val for x, y in zip(ea, eb)):
                    return n, ("rung_values_not_negated", {"level": lv, "bracket": br})
                if [getattr(e, "was_promoted", None) for e in ea] != [getattr(e, "was_promoted", None) for e in eb]:
                    return n, ("promoted_flags", {"level": lv, "bracket": br})
        if pasha:
            try:
                ca = a.terminator._rung_systems[0].current_max_t
                cb = b.terminator._rung_systems[0].current_max_t
            except Exception:  # noqa: BLE001
                return n, None
            n += 1
            if ca != cb:
                return n, ("pasha_resource_cap", {"min_run": ca, "max_run": cb})
        return n, None

    return hook


# =============================================================================================
# one scheduler pair


class PairVTuner(VTuner):
    """A PBT warm start from a source trial that has meanwhile reached max_t has nothing left to
    report in the virtual tuner's level arithmetic: let it report the final level once."""

    def do_suggest(self):
        n0 = len(self.trials)
        s = super().do_suggest()
        if s is not None and len(self.trials) > n0:
            t = self.trials[n0]
            if t.next_level > t.run_max:
                t.next_level = t.run_start_level = t.run_max
        return s


def run_pair(spec, o):
    import numpy as np

    p = expand(spec)
    kind = p["kind"]
    seed = spec["seed"] % (2**31)
    shared = {}
    if kind in HB_TYPES and HB_TYPES[kind].startswith("rush") and kind not in TRANSFER_KINDS:
        shared["rush_points"] = _rush_points(p, spec["seed"])
    mode_a, mode_b = "min", "max"
    if kind == "moasha":
        form = p["mode_form"]
        if form == "list":
            # per-metric mode list; the second run exchanges the mode of a non-empty subset of the metrics
            # (all of them in half of the cases) and gets exactly those columns negated
            mode_a = list(p["modes"])
            kk = len(mode_a)
            frng = random.Random(spec["seed"] + 13)
            flipped = p.get("flipped")
            if flipped is None:
                flipped = list(range(kk)) if frng.random() < 0.5 else sorted(frng.sample(range(kk), frng.randint(1, kk)))
            p["flipped"] = flipped
            mode_b = [_flip(m) if j in flipped else m for j, m in enumerate(mode_a)]
        elif form == "default_vs_max":
            mode_a, mode_b = None, "max"  # documented default of MOASHA is "min"
        if len(p["metrics"]) >= 2 and form == "scalar" and spec["seed"] % 2:
            mode_b = ["max"] * len(p["metrics"])  # scalar "min" against an explicit list of "max"
    try:
        with contextlib.redirect_stdout(_DEVNULL):
            a = build(p, mode_a, seed, shared)
            b = build(p, mode_b, seed, shared)
    except AssertionError as e:
        if "are not increasing" in repr(e):  # C05-K1: geometric rung level rounds to the maximum resource
            o.count("skipped:known_broken_geometric_rung_system")
            o.set_sig(("skipped", kind), nontrivial=False)
            return
        raise
    o.count("pairs")
    o.count("pairs:" + kind)
    if kind in TRANSFER_KINDS:
        check_top_k(o, kind, p, shared["offline"][mode_a], shared["offline"][mode_b])
    referee = None
    rank_hook = None
    mra = "epochs" if p.get("use_mra") else None
    if kind in HB_TYPES:
        levels = gen.ref_rung_levels(p)
        if list(a.rung_levels) != levels or list(b.rung_levels) != levels:
            o.inconclusive("rung_levels_differ_from_reference_formula")
            return
        referee = HBReferee(p, a, levels)
        rank_hook = hyperband_rank_hook(p)
    metrics = p["metrics"] if kind == "moasha" else ["loss"]
    negated = [m for j, m in enumerate(metrics) if j in p["flipped"]] if p.get("flipped") is not None else metrics
    port = TwinPort(a, b, kind, negated, o, spec["seed"], referee=referee, mra=mra)
    port.rank_hook = rank_hook
    port.rt_prob, port.rt_left = p.get("rt_prob", 0.0), p.get("rt_max", 0)
    if port.rt_prob > 0:
        # short histories: still a few round trips
        port.rt_prob = max(port.rt_prob, 2.5 / p["max_events"], 0.08 if kind in ("fifo_random", "fifo_grid", "bounding_box") else 0.0)
    if kind in HB_TYPES:
        def rt_nonempty(run_a):
            nb_ = run_a.terminator.num_brackets if p["rung_system_per_bracket"] else 1
            return any(len(es) >= 2 for br in range(nb_) for _, es in run_a.terminator.snapshot_rungs(br))
        port.rt_nonempty = rt_nonempty
    max_t = p["max_t"]
    tables = [gen.Curves(p["curves"], spec["seed"] + 1 + 101 * j, max_t) for j in range(len(metrics))]
    if kind == "moasha":
        off = p.get("offset", 0.0)

        def value_fn(tid, level, config=None):
            return {m: tables[j](tid, level) - off for j, m in enumerate(metrics)}
    else:
        value_fn = tables[0]
    extra_fn = None
    if kind == "hyperband_cost_promotion":
        crng = random.Random(spec["seed"] + 9)
        cum = []
        for _ in range(64):
            acc, row = 0.0, []
            for _l in range(max_t):
                acc += crng.uniform(0.5, 3.0)
                row.append(acc)
            cum.append(row)

        def extra_fn(trial_id, level, run_no, vt_):
            base = 0.0
            if p["checkpointing"] and run_no > 0 and vt_.run_start_level - 1 >= 1:
                base = cum[trial_id % 64][vt_.run_start_level - 2]
            return {"cost": cum[trial_id % 64][level - 1] - base}
    fail = dict(p.get("fail") or {})
    if p.get("fail_rate", 0) > 0 and not fail:
        frng = random.Random(spec["seed"] + 3)
        for tid in range(200):
            if frng.random() < p["fail_rate"]:
                fail[str(tid)] = [frng.choice([0, 0, 1]), frng.randint(0, 2)]
    burst_next = None
    if p.get("burst") and not p.get("fail"):
        try:
            rungs0 = [tuple(x) for x in a.bracket_manager.bracket_rungs[0]]
        except Exception:  # noqa: BLE001
            rungs0 = []
        if len(rungs0) >= 2:
            brng = random.Random(p["burst_seed"])
            size0, size1 = rungs0[0][0], rungs0[1][0]
            if size1 >= 3 and size0 > size1:
                n_valid = brng.randint(2, size1 - 1)
            else:
                n_valid = max(1, size0 - int(math.ceil(size0 * brng.uniform(0.6, 0.85))))
            for tid in brng.sample(range(size0), size0 - n_valid):
                fail[str(tid)] = [0, 0]
            burst_next = (n_valid, size1)
            o.count("sync_burst_plans")
    vp = {
        "n_workers": p["n_workers"], "max_t": p.get("script_epochs") or max_t, "metric": metrics[0], "resource_attr": "epoch",
        "strides": p.get("strides"),
        "policy": p["policy"], "seed": spec["seed"] + 2, "max_trials": p["max_trials"],
        "max_events": p["max_events"], "order": p.get("order"), "max_resource_attr": mra,
        "checkpointing": p.get("checkpointing", True), "fail": fail,
        "pbt_restart_levels": p.get("pbt_restart_levels", True),
    }
    rea_full = [0]
    monitors = []
    if kind == "rea":
        class ReaMon:
            def pre_suggest(self, vt_, next_id):
                try:
                    if len(port.a.searcher.population) >= p["population_size"]:
                        rea_full[0] += 1
                except Exception:  # noqa: BLE001
                    pass
        monitors.append(ReaMon())
    state = np.random.get_state()
    try:
        with contextlib.redirect_stdout(_DEVNULL):
            vt = PairVTuner(port, vp, value_fn, extra_fn=extra_fn, monitors=monitors)
            port.vt = vt
            vt.run()
    finally:
        np.random.set_state(state)
    # ---------------------------------------------------------------- what was observed
    sig = []
    n_rule_decisions = n_resumes = n_warm = n_complete = n_sugg = n_sugg_after_complete = 0
    for ev in vt.events:
        if ev[0] == "suggest":
            n_sugg += 1
            if n_complete:
                n_sugg_after_complete += 1
            if ev[2] == "resume":
                n_resumes += 1
                sig.append("R")
            elif ev[2] == "start":
                t = vt.trials.get(ev[3])
                if t is not None and t.source is not None:
                    n_warm += 1
                    sig.append("W")
                else:
                    sig.append("S")
            else:
                sig.append("N")
        elif ev[0] == "result":
            if ev[4] != "CONTINUE":
                sig.append((ev[4], ev[3]))
                if ev[3] < max_t:
                    n_rule_decisions += 1
        elif ev[0] == "complete":
            n_complete += 1
        elif ev[0] == "error":
            sig.append("E")
    for ev in vt.events[-50:]:
        o.ev(*ev)
    if vt.raised and port.ended is None:
        # protocol break reported by the virtual tuner (e.g. resume of a non-paused trial): same in both runs
        o.count(f"ended_by_protocol_break:{kind}")
        if burst_next is not None and vt.raised[1] == "resume_of_non_paused" and vt.raised[3] == "failed":
            # C13-K2: with fewer valid results than slots a failed trial is resumed; normal end for both twins
            o.count("sync_burst:fewer_valid_than_slots_reached")
            if burst_next[0] >= 2:
                o.count("sync_burst:fewer_valid_than_slots_reached_with_>=2_valid")
    if kind == "moasha":
        sparse_done = sum(1 for ev in vt.events if ev[0] == "complete" and vt.trials[ev[1]].stride > 1
                          and ev[3] < max_t)
        o.count("moasha:completions_of_sparse_reporters_before_max_t", sparse_done)
    ended = port.ended or "compared_to_the_end"
    o.count("ended:" + ended)
    if port.ended is None:
        o.count("pairs_compared_to_the_end")
    ok = port.ended is None
    if kind in NEEDS_DECISION:
        ok = ok and n_rule_decisions > 0
    if kind in NEEDS_RESUME:
        ok = ok and (n_resumes + n_warm) > 0
    if kind == "dehb" and p["support_pause_resume"]:
        ok = ok and n_resumes > 0
    if kind == "rea":
        ok = ok and rea_full[0] > 0
    if kind in ("fifo_random", "fifo_grid", "bounding_box"):
        ok = ok and n_sugg_after_complete > 0
    if port.n_roundtrips:
        o.count("pairs_with_roundtrip:" + kind)
    o.count("events", len(vt.events))
    o.count("resumes", n_resumes)
    o.count("warm_starts", n_warm)
    o.count("rule_decisions", n_rule_decisions)
    if ok:
        o.count("nontrivial:" + kind)
    o.set_sig((kind, sig, ended, port.n_roundtrips), nontrivial=ok)
    show = {k: v for k, v in p.items() if k != "space"}
    o.sample = {"params": show, "events": len(vt.events), "suggestions": n_sugg, "resumes": n_resumes,
                "warm_starts": n_warm, "rule_decisions": n_rule_decisions, "ended": ended,
                "roundtrips": port.n_roundtrips,
                "trace": [s if isinstance(s, str) else list(s) for s in sig[:24]]}


# =============================================================================================
# reporting: TuningStatus / print_best_metric_found / Tuner.best_config / ExperimentResult.best_config


def _stub_backend():
    from pathlib import Path

    from syne_tune.backend.trial_backend import TrialBackend

    class StubBackend(TrialBackend):
        def _schedule(self, trial_id, config):
            pass

        def _all_trial_results(self, trial_ids):
            return []

        def _pause_trial(self, trial_id, result):
            pass

        def _resume_trial(self, trial_id):
            pass

        def _stop_trial(self, trial_id, result):
            pass

        def stdout(self, trial_id):
            return []

        def stderr(self, trial_id):
            return []

        def set_path(self, results_root=None, tuner_name=None):
            pass

        def entrypoint_path(self):
            return Path("stub_entry.py")

        def set_entrypoint(self, entry_point):
            pass

        def busy_trial_ids(self):
            return []

        def copy_checkpoint(self, src_trial_id, tgt_trial_id):
            pass

        def delete_checkpoint(self, trial_id):
            pass

        def on_tuner_save(self):
            pass

    return StubBackend()


def _mode_carrier(names, modes):
    """A real scheduler whose metric_names() / metric_mode() Tuner.best_config reads."""
    from syne_tune import config_space as cs
    from syne_tune.optimizer.schedulers import FIFOScheduler
    from syne_tune.optimizer.schedulers.multiobjective import MOASHA

    space = {"lr": cs.uniform(0, 1), "layers": cs.randint(1, 9), "act": cs.choice(["relu", "tanh"])}
    if len(names) == 1:
        return FIFOScheduler(space, searcher="random", metric=names[0], mode=modes[0], random_seed=0)
    return MOASHA(space, metrics=list(names), mode=list(modes), time_attr="epoch", max_t=9)


def _same(x, y):
    if isinstance(x, float) and isinstance(y, float) and math.isnan(x) and math.isnan(y):
        return True
    return x == y


def run_reporting(spec, o):
    import pandas as pd
    from syne_tune import Tuner
    from syne_tune.backend.trial_status import Status
    from syne_tune.experiments.experiment_result import ExperimentResult
    from syne_tune.tuning_status import TuningStatus, print_best_metric_found
    from stv.vtuner import make_trial

    p = expand(spec)
    rng = random.Random(spec["seed"] + 11)
    k, n, max_t = p["n_metrics"], p["n_trials"], p["max_t"]
    names = [f"m{j}" for j in range(k)]
    modes_a = p.get("modes") or [rng.choice(["min", "max"]) for _ in range(k)]
    if k == 1 and not p.get("modes"):
        modes_a = ["min"]
    modes_b = _flip(modes_a)
    tables = [gen.Curves(p["curves"], spec["seed"] + 1 + 101 * j, max_t) for j in range(k)]
    trials = {i: make_trial(i, {"lr": round(rng.uniform(0, 1), 6), "layers": rng.randint(1, 9), "act": rng.choice(["relu", "tanh"])})
              for i in range(n)}
    n_rep = {i: (0 if rng.random() < 0.1 else rng.randint(1, max_t)) for i in range(n)}
    if all(v == 0 for v in n_rep.values()):
        n_rep[0] = 1
    arm = p.get("values", "general")
    zero_plan = {}
    if arm != "general":
        zrng = random.Random(p["zero_seed"])
        cand = [i for i in range(n) if n_rep[i] >= 2]
        if not cand:
            n_rep[0] = max(2, n_rep[0])
            cand = [0]
        for j in range(k):
            i0 = zrng.choice(cand)
            # (trial, level of the exact zero (not its last report), sign of the zero in the first run)
            zero_plan[j] = (i0, zrng.randint(1, n_rep[i0] - 1), zrng.choice([0.0, -0.0]))
    final = {i: rng.choice([Status.completed, Status.stopped, Status.failed, Status.in_progress, Status.paused]) for i in range(n)}
    emits = []
    nxt = {i: 1 for i in range(n)}
    live = [i for i in range(n) if n_rep[i] > 0]
    while live:
        i = rng.choice(live)
        emits.append((i, nxt[i]))
        nxt[i] += 1
        if nxt[i] > n_rep[i]:
            live.remove(i)
    # second runs: every metric flipped (mode exchanged, column negated), and - with several metrics -
    # each single metric flipped alone (the other columns and modes untouched)
    flips = [tuple(range(k))] + ([(j,) for j in range(k)] if k >= 2 else [])
    sa = TuningStatus(metric_names=names)
    sbs = {fl: TuningStatus(metric_names=names) for fl in flips}
    rows = []
    started = set()
    pos = 0

    # ---- value arms with exact zeros: h >= 0 with h == 0 the optimum; metric j = h if its mode in the first
    # run is "min", -h if it is "max" (so the MAXIMISED side of every pair has a running maximum of exactly
    # 0.0 or -0.0, followed by worse reports of the same trial)

    def val(j, i, level):
        v = tables[j](i, level)
        if arm == "general":
            return v
        i0, z, zero = zero_plan[j]
        sgn = 1.0 if modes_a[j] == "min" else -1.0
        if arm == "integer":
            h = int(abs(v) * 1000) % 3
            if i == i0:
                h = 0 if level == z else max(1, h)
            elif h == 0 and level == n_rep[i]:
                h = 1  # other trials may tie at 0, but never as their last word
            if math.copysign(1.0, zero) < 0:
                return zero if (i == i0 and level == z) else sgn * float(h)  # integer-valued floats, -0.0 optimum
            return int(sgn) * h  # Python ints
        h = max(0.0, abs(v) - 0.35)  # error clipped at zero
        if i == i0:
            if level == z:
                return zero
            h = h + 0.01  # strictly worse before and after the zero
        elif h == 0.0:
            h = 0.001 + abs(v) * 0.01  # the optimum is attained by trial i0 only
        return sgn * h

    def res(i, level, fl):
        r = {}
        for j, m in enumerate(names):
            v = val(j, i, level)
            r[m] = (-v if j in fl else v) if isinstance(v, int) else (-1.0 if j in fl else 1.0) * v
        r["epoch"] = level
        r["st_worker_time"] = 1.5 * level
        return r

    def all_status():
        return [sa] + list(sbs.values())

    while pos < len(emits):
        batch = emits[pos: pos + rng.randint(1, 4)]
        pos += len(batch)
        for i, _ in batch:
            if i not in started:
                started.add(i)
                for s in all_status():
                    s.update(trial_status_dict={i: (trials[i], Status.in_progress)}, new_results=[])
        status = {}
        for i, level in batch:
            status[i] = (trials[i], final[i] if level == n_rep[i] else Status.in_progress)
        sa.update(trial_status_dict=dict(status), new_results=[(i, res(i, lv, ())) for i, lv in batch])
        for fl, sb in sbs.items():
            sb.update(trial_status_dict=dict(status), new_results=[(i, res(i, lv, fl)) for i, lv in batch])
        for i, lv in batch:
            row = {"trial_id": i, "epoch": lv}
            row.update({m: val(j, i, lv) for j, m in enumerate(names)})
            row.update({"config_" + kk: vv for kk, vv in trials[i].config.items()})
            row.update({"st_tuner_time": float(len(rows)), "st_decision": "CONTINUE", "st_status": "in_progress"})
            rows.append(row)
    for i in range(n):
        if i not in started:
            for s in all_status():
                s.update(trial_status_dict={i: (trials[i], Status.in_progress)}, new_results=[])
    o.count("pairs:reporting")
    o.count("reporting:values:" + arm)
    for j, (i0, z, zero) in zero_plan.items():
        # by construction: the optimum of metric j is exactly 0.0 / -0.0, attained by trial i0 at report z and
        # followed by worse reports of the same trial (re-checked on the emitted values)
        vals = [val(j, i0, lv) for lv in range(1, n_rep[i0] + 1)]
        sgn_ = 1.0 if modes_a[j] == "min" else -1.0
        if vals[z - 1] == 0 and all(sgn_ * v > 0 for v in vals[z:]) and len(vals) > z:
            o.count("reporting:optimum_exactly_zero_before_last_report")
            o.count("reporting:optimum_exactly_zero_before_last_report:" + ("negative_zero" if math.copysign(1.0, float(zero)) < 0 else "positive_zero"))
    viol0 = len(o.violations)
    sb = sbs[flips[0]]
    # (a) the statistics TuningStatus keeps are mirror images
    for i, st_a in sa.trial_metric_statistics.items():
        st_b = sb.trial_metric_statistics[i]
        for m in names:
            o.count("decided:tuning_status_statistics")
            if (m in st_a.min_metrics) != (m in st_b.max_metrics) or (
                    m in st_a.min_metrics and (st_a.min_metrics[m] != -st_b.max_metrics[m] or st_a.max_metrics[m] != -st_b.min_metrics[m])):
                o.violate("best_configuration", "reporting:TuningStatus:min_max_statistics_not_mirrored",
                          {"trial": i, "metric": m})
    with contextlib.redirect_stdout(_DEVNULL):
        # (b) print_best_metric_found, each metric first in the list
        for j, m in enumerate(names):
            order = [m] + [x for x in names if x != m]
            for variant in ("explicit", "default_mode"):
                ma, mb = modes_a[j], modes_b[j]
                if variant == "default_mode":
                    if ma != "min":
                        continue
                    ma = None  # documented default: "min"
                try:
                    ra = print_best_metric_found(sa, order, ma)
                    rb = print_best_metric_found(sb, order, mb)
                except Exception as e:  # noqa: BLE001
                    o.violate("no_raise", f"reporting:raised:print_best_metric_found:{type(e).__name__}", {"error": repr(e)[:300]})
                    continue
                o.count("decided:best_configuration")
                o.count("decided:print_best_metric_found")
                if (ra is None) != (rb is None):
                    o.violate("best_configuration", "reporting:print_best_metric_found:None_vs_result", {"min_run": ra, "max_run": rb})
                elif ra is not None and ra[0] != rb[0]:
                    o.violate("best_configuration", f"reporting:print_best_metric_found:trial_differs:{variant}",
                              {"metric": m, "mode_first_run": ma, "mode_second_run": mb, "first_run": ra, "second_run": rb})
                elif ra is not None and ra[1] != -rb[1]:
                    o.violate("best_configuration", "reporting:print_best_metric_found:value_not_negated",
                              {"metric": m, "first_run": ra, "second_run": rb})
        # (c) the call Tuner.run makes at the end of tuning: mode = scheduler.metric_mode(), which is a
        # list for multi-objective schedulers
        if k >= 2:
            try:
                ra = print_best_metric_found(sa, names, list(modes_a))
                rb = print_best_metric_found(sb, names, list(modes_b))
                o.count("decided:best_configuration")
                o.count("decided:print_best_metric_found_mode_list")
                if ra is not None and rb is not None and (ra[0] != rb[0] or ra[1] != -rb[1]):
                    o.violate("best_configuration", "reporting:print_best_metric_found:trial_differs:mode_passed_as_list",
                              {"modes_first_run": modes_a, "modes_second_run": modes_b, "first_run": ra, "second_run": rb})
                    viol0 += 1
            except Exception as e:  # noqa: BLE001
                o.violate("no_raise", f"reporting:raised:print_best_metric_found:mode_passed_as_list:{type(e).__name__}",
                          {"error": repr(e)[:300]})

        def tuner_for(st, md):
            be = _stub_backend()
            be._trial_dict = dict(trials)
            tn = Tuner(trial_backend=be, scheduler=_mode_carrier(names, md), stop_criterion=lambda s: True,
                       n_workers=1, tuner_name="c15", save_tuner=False)
            tn.tuning_status = st
            return tn

        df_a = pd.DataFrame(rows)
        tuner_a = tuner_for(sa, modes_a)
        for fl in flips:
            md_fl = [_flip(x) if j in fl else x for j, x in enumerate(modes_a)]
            tag = "all_metrics_flipped" if len(fl) == k else "one_metric_flipped"
            # (d) Tuner.best_config on a real (never run) Tuner object
            tuner_b = tuner_for(sbs[fl], md_fl)
            for j in fl:
                for metric in (j, names[j]):
                    try:
                        ra = tuner_a.best_config(metric=metric)
                        rb = tuner_b.best_config(metric=metric)
                    except Exception as e:  # noqa: BLE001
                        o.violate("no_raise", f"reporting:raised:Tuner.best_config:{type(e).__name__}", {"error": repr(e)[:300]})
                        continue
                    o.count("decided:best_configuration")
                    o.count("decided:Tuner.best_config")
                    if ra[0] != rb[0] or ra[1] != rb[1]:
                        o.violate("best_configuration", f"reporting:Tuner.best_config:trial_differs:{tag}",
                                  {"metric": metric, "modes_first_run": modes_a, "modes_second_run": md_fl,
                                   "first_run": ra, "second_run": rb})
            # (e) ExperimentResult.best_config
            df_b = df_a.copy()
            for j in fl:
                df_b[names[j]] = -df_b[names[j]]
            for form in ("list", "scalar"):
                if form == "scalar" and (len(set(modes_a)) != 1 or len(fl) != k):
                    continue
                md_a = list(modes_a) if form == "list" else modes_a[0]
                md_b = list(md_fl) if form == "list" else md_fl[0]
                ea = ExperimentResult(name="a", results=df_a, metadata={"metric_names": list(names), "metric_mode": md_a}, tuner=None, path=None)
                eb = ExperimentResult(name="b", results=df_b, metadata={"metric_names": list(names), "metric_mode": md_b}, tuner=None, path=None)
                for j in fl:
                    for metric in (j, names[j]):
                        try:
                            ra, rb = ea.best_config(metric), eb.best_config(metric)
                        except Exception as e:  # noqa: BLE001
                            o.violate("no_raise", f"reporting:raised:ExperimentResult.best_config:{type(e).__name__}", {"error": repr(e)[:300]})
                            continue
                        o.count("decided:best_configuration")
                        o.count("decided:ExperimentResult.best_config")
                        bad = set(ra) != set(rb)
                        if not bad:
                            for kk in ra:
                                va, vb = ra[kk], rb[kk]
                                if kk in names and names.index(kk) in fl:
                                    bad = bad or not _same(float(va), -float(vb))
                                else:
                                    bad = bad or not _same(va, vb)
                        if bad:
                            o.violate("best_configuration", f"reporting:ExperimentResult.best_config:row_differs:{tag}",
                                      {"metric": metric, "mode_form": form, "modes_first_run": modes_a,
                                       "modes_second_run": md_fl, "first_run": ra, "second_run": rb})
    ok = len(o.violations) == viol0 and sum(1 for v in n_rep.values() if v > 0) >= 2
    if ok:
        o.count("nontrivial:reporting")
    o.set_sig(("reporting", k, modes_a, [e[0] for e in emits][:40], sorted(final.items())), nontrivial=ok)
    o.sample = {"params": p, "modes_first_run": modes_a, "reports_per_trial": n_rep, "updates": len(emits)}


def run_zero_shot(spec, o):
    """ZeroShotTransfer(use_surrogates=False): greedy average-rank selection over offline tables E with
    mode 'min' against -E with mode 'max'; the whole suggestion sequence (until None) must be equal."""
    import types

    import numpy as np
    import pandas as pd

    try:
        import xgboost  # noqa: F401
    except ImportError:
        sys.modules["xgboost"] = types.ModuleType("xgboost")
    from syne_tune.optimizer.baselines import ZeroShotTransfer
    from syne_tune.optimizer.schedulers.transfer_learning import TransferLearningTaskEvaluations

    rng = random.Random(spec["seed"])
    desc = _transfer_space(rng)
    space = gen.build_space(desc)
    n_tasks, n, ns = rng.randint(1, 4), rng.randint(3, 12), rng.randint(1, 3)
    nf = rng.choice([1, 2, 3, 4, 6])
    names = rng.choice([["loss"], ["other", "loss"], ["loss", "other"]])
    sort = rng.random() < 0.6
    rs = np.random.RandomState(rng.randint(0, 10**6))
    rows = [{k: (v.sample(random_state=rs) if hasattr(v, "sample") else v) for k, v in space.items()} for _ in range(n)]
    tables = []
    for _ in range(n_tasks):
        a = rs.uniform(0.0, 1.0, size=(n, 1, 1))
        b = rs.uniform(-0.6, 0.6, size=(n, 1, 1))
        fid = np.arange(nf, dtype=float).reshape(1, 1, nf) / max(nf - 1, 1)
        tables.append((a + b * fid + rs.uniform(-0.05, 0.05, size=(n, ns, nf)) - 0.3, rs.uniform(size=(n, ns, nf))))

    def offline(sign):
        out = {}
        for t, (ev, other) in enumerate(tables):
            full = np.zeros((n, ns, nf, len(names)))
            for j, name in enumerate(names):
                full[..., j] = sign * ev if name == "loss" else other
            out[f"task{t}"] = TransferLearningTaskEvaluations(
                configuration_space=space, hyperparameters=pd.DataFrame(rows), objectives_names=names,
                objectives_evaluations=full)
        return out

    seqs = {}
    for mode, sign in (("min", 1.0), ("max", -1.0)):
        np.random.seed(spec["seed"] % (2**31))
        try:
            with contextlib.redirect_stdout(_DEVNULL):
                sch = ZeroShotTransfer(config_space=space, transfer_learning_evaluations=offline(sign), metric="loss",
                                       mode=mode, sort_transfer_learning_evaluations=sort, use_surrogates=False,
                                       random_seed=spec["seed"] % 1000)
                seq = []
                for tid in range(n + 2):
                    sg = sch.suggest(tid)
                    seq.append(None if sg is None else _sugg_repr(sg))
                    if sg is None:
                        break
        except Exception as e:  # noqa: BLE001
            seqs[mode] = ("raised", type(e).__name__, repr(e)[:200])
            continue
        seqs[mode] = seq
    o.count("pairs")
    o.count("pairs:zero_shot")
    raised = [m for m in seqs if isinstance(seqs[m], tuple)]
    if len(raised) == 2 and seqs["min"][1] == seqs["max"][1]:
        o.count("zero_shot:raised_in_both")
        o.set_sig(("zero_shot", "raised_in_both", seqs["min"][1]), nontrivial=False)
        return
    avg = tables[0][0].mean(axis=1)
    differs = nf > 1 and len({int(i) for i in np.argmin(avg, axis=1)}) > 1
    if differs:
        o.count("zero_shot:best_fidelity_differs_between_configurations")
    wit = {"kind": "zero_shot", "n_tasks": n_tasks, "n_configs": n, "n_seeds": ns, "n_fidelities": nf, "sort": sort,
           "objectives": names, "min_on_E": seqs["min"][:6] if not isinstance(seqs["min"], tuple) else seqs["min"],
           "max_on_minus_E": seqs["max"][:6] if not isinstance(seqs["max"], tuple) else seqs["max"]}
    if raised:
        o.violate("suggestions", "zero_shot:raised_in_one_run_only:" + seqs[raised[0]][1], wit)
        return
    o.count("decided:zero_shot_suggestion", max(len(seqs["min"]), len(seqs["max"])))
    o.count("decided:suggestion", max(len(seqs["min"]), len(seqs["max"])))
    if seqs["min"] != seqs["max"]:
        k = next(i for i, (x, y) in enumerate(zip(seqs["min"] + [0], seqs["max"] + [0])) if x != y)
        wit["first_difference_at_suggestion"] = k
        o.violate("suggestions", "zero_shot:suggestion_sequences_differ" + (":several_fidelities" if nf > 1 else ""), wit)
        return
    o.count("pairs_compared_to_the_end")
    ok = len(seqs["min"]) >= 3
    if ok:
        o.count("nontrivial:zero_shot")
    o.set_sig(("zero_shot", n_tasks, n, nf, sort, differs, tuple(s is None for s in seqs["min"])), nontrivial=ok)
    o.sample = {"params": {k: v for k, v in wit.items() if k not in ("min_on_E", "max_on_minus_E")},
                "suggestions": len(seqs["min"])}


def run_case(spec):
    o = Obs()
    if spec["kind"] == "reporting":
        run_reporting(spec, o)
    elif spec["kind"] == "zero_shot":
        run_zero_shot(spec, o)
    else:
        run_pair(spec, o)
    return o.result()
